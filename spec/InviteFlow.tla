----------------------------- MODULE InviteFlow -----------------------------
(***************************************************************************)
(* X05 (growth) - the invite handshake seen from the INVITING server       *)
(* (performinvite.go, invite.go; the invited side is handleinvite.go).     *)
(*                                                                         *)
(* Written from the Matrix server-server API ("Inviting to a room":        *)
(* PUT /_matrix/federation/v2/invite/{roomId}/{eventId}), the              *)
(* authorisation rules for membership = invite, the selection of           *)
(* auth_events, MSC4014 (pseudo IDs: the invited server completes and      *)
(* signs the proto event, PUT .../v3/invite/{roomId}/{userId}) and the doc *)
(* comments of PerformInvite / PerformInviteInput - NOT from the code.     *)
(*                                                                         *)
(* Roles                                                                   *)
(*   A   the inviting server (local): runs PerformInvite for its user, the *)
(*       inviter                                                           *)
(*   B   the invited user's server: honest (runs the receiving handler     *)
(*       with its own key and its own view of the room), unreachable, or   *)
(*       misbehaving (answers something else than the invite countersigned)*)
(*       For a local invitee B = A and there is no network.                *)
(*                                                                         *)
(* One action per step of the flow                                         *)
(*   Prepare          the stripped room state that accompanies the invite: *)
(*                    supplied by the caller or generated from A's state   *)
(*   Precheck         room version known; who the invitee is in this room; *)
(*                    documented refusal when the invitee is already joined*)
(*   Build            latest events -> auth_events, prev_events, depth;    *)
(*                    the invite event (pseudo-ID room, remote invitee:    *)
(*                    only a proto event - B chooses the state key)        *)
(*   CheckAllowed     A's own auth check against the room state on A       *)
(*   Send             v2: the full signed event, v3: the proto event; both *)
(*                    with the stripped state                              *)
(*   RemoteHandle     honest B                                             *)
(*   RemoteMisbehave  B answers something else       NetFail  no answer    *)
(*   Receive          A validates the answer (v3: and adds the inviter's   *)
(*                    signature, records the invitee's room key)           *)
(*   Return           the event handed to the caller                       *)
(*                                                                         *)
(* Abstract vocabulary                                                     *)
(*   scenario  sc (constant along a behaviour)                             *)
(*     ver         room version, or Unknown                                *)
(*     local       the invitee is a user of A                              *)
(*     stripped    "supplied" | "generated"                                *)
(*     inviterMem  membership of the inviter in A's room state             *)
(*     inviteeMem  membership of the invitee in A's room state             *)
(*     race        "yes": A's membership table already has the invitee as  *)
(*                 joined while the state snapshot does not (the join      *)
(*                 raced with the invite: doc comment abortIfAlreadyJoined)*)
(*     pl          inviter's power level relative to the invite level:     *)
(*                 above | equal | below | none (no power-level event)     *)
(*     who         the inviter is an ordinary "member" or the "creator"    *)
(*     env         failing environment of A (queriers), see Reasons        *)
(*     nprev       forward extremities of the room: one | twenty | over    *)
(*     remote      behaviour of B (RemoteKinds)                            *)
(*     bview       honest B's own view: fresh (room unknown) | known |     *)
(*                 joined (B has the invitee as joined: it refuses)        *)
(*   an event is described by what the properties read:                    *)
(*     room   main | other        type  member | other                     *)
(*     skey   invitee | ikey (the invitee's room key) | other | none       *)
(*     mship  invite | join       sender inviter | other                   *)
(*     same   v2: the event ID is that of the event A built                *)
(*            v3: every field A put into the proto event is unchanged      *)
(*     sigA   validly signed by A (pseudo IDs: by the inviter's room key)  *)
(*     sigB   validly signed by B (pseudo IDs: by the key that is the      *)
(*            state key)                                                   *)
(*     irs    unsigned.invite_room_state: supplied | generated | forged    *)
(*                                                                         *)
(* The properties P1 .. P5 are stated over the history variables (section  *)
(* "Properties"), separately from the mechanics.  The constant Fault       *)
(* plants a defect into A's mechanics; each must violate the invariant     *)
(* checks/x05.py names for it.                                             *)
(***************************************************************************)
EXTENDS Integers, Sequences, FiniteSets, TLC

CONSTANTS VerSet,    \* room versions explored (subset of Versions \cup {Unknown})
          Budget,    \* deviations from the base scenario per behaviour
          Fault,     \* "none" or a planted defect of A's mechanics
          Repair     \* design freedom of A (both designs must satisfy every property): FALSE - an answer that is not
                     \* exactly the countersigned invite is refused; TRUE - A keeps its own event and takes from the
                     \* answer only B's signature over it, so an answer whose only defects are A's missing signature
                     \* or a changed "unsigned" is repaired

Versions == {"1", "2", "3", "4", "5", "6", "7", "8", "9", "10", "11", "12",
             "org.matrix.msc3667", "org.matrix.msc3787", "org.matrix.msc4014", "org.matrix.hydra.11"}
Unknown  == "x05.unknown"
Supported(v)    == v \in Versions
Pseudo(v)       == v = "org.matrix.msc4014"     \* senders / state keys are per-room keys; v3 invite API
PrivCreators(v) == v \in {"12", "org.matrix.hydra.11"}   \* creators have infinite power level
Domainless(v)   == v \in {"12", "org.matrix.hydra.11"}   \* room ID = create event ID: create is never cited

MaxPrev == 20       \* NOTSPEC limits documented at truncateAuthAndPrevEvents
MaxAuth == 10
NPrev(c) == CASE c = "one" -> 1 [] c = "twenty" -> 20 [] c = "over" -> 23
Min(a, b) == IF a < b THEN a ELSE b

\* ------------------------------------------------------------------ scenarios
DimSeq == <<"inviterMem", "inviteeMem", "race", "pl", "who", "env", "nprev", "remote", "bview">>
Default(d) ==
    CASE d = "inviterMem" -> "join" [] d = "inviteeMem" -> "none" [] d = "race" -> "no" [] d = "pl" -> "above"
      [] d = "who" -> "member" [] d = "env" -> "ok" [] d = "nprev" -> "one" [] d = "remote" -> "honest"
      [] d = "bview" -> "fresh"
RemoteKindsV2 == {"honest", "neterr", "echo", "strip_a_sig", "unsigned", "other_room", "other_type", "other_skey",
                  "non_invite", "other_user", "other_irs"}
RemoteKindsV3 == {"honest", "neterr", "no_skey", "unsigned", "other_room", "other_type", "non_invite", "other_sender",
                  "other_irs"}
RemoteKinds(v) == IF Pseudo(v) THEN RemoteKindsV3 ELSE RemoteKindsV2
EnvFaults == {"state_err", "sid_err", "mem_err", "latest_err", "noroom", "auth_err", "creator_err", "store_err"}
Alts(d) ==
    CASE d = "inviterMem" -> {"leave", "none", "invite", "ban"}
      [] d = "inviteeMem" -> {"leave", "invite", "join", "ban"}
      [] d = "race" -> {"yes"}
      [] d = "pl" -> {"equal", "below", "none"}
      [] d = "who" -> {"creator"}
      [] d = "env" -> EnvFaults
      [] d = "nprev" -> {"twenty", "over"}
      [] d = "remote" -> (RemoteKindsV2 \cup RemoteKindsV3) \ {"honest"}
      [] d = "bview" -> {"known", "joined"}
Base == [inviterMem |-> Default("inviterMem"), inviteeMem |-> Default("inviteeMem"), race |-> Default("race"),
         pl |-> Default("pl"), who |-> Default("who"), env |-> Default("env"), nprev |-> Default("nprev"),
         remote |-> Default("remote"), bview |-> Default("bview")]

\* every way of deviating from s in at most k of the dimensions dims (each dimension once)
RECURSIVE Ext(_, _, _)
Ext(s, dims, k) ==
    IF k = 0 \/ dims = <<>> THEN {s}
    ELSE Ext(s, Tail(dims), k)
         \cup UNION {Ext([s EXCEPT ![Head(dims)] = a], Tail(dims), k - 1) : a \in Alts(Head(dims))}

\* does A know the invitee's sender ID in this room?  (user IDs: always; room keys: only if the invitee was seen)
KnownOf(s) == ~Pseudo(s.ver) \/ s.inviteeMem # "none" \/ s.race = "yes"

\* relevance pruning: a dimension that nothing reads in the scenario stays at its default
Relevant(s) ==
    /\ (s.local \/ ~Supported(s.ver)) => (s.remote = "honest" /\ s.bview = "fresh")
    /\ s.remote \in RemoteKinds(s.ver)
    /\ s.bview # "fresh" => s.remote = "honest"
    /\ s.race = "yes" => s.inviteeMem # "join"
    /\ s.env = "state_err" => s.stripped = "generated"
    /\ s.env = "mem_err" => KnownOf(s)
    /\ s.env = "creator_err" => (Pseudo(s.ver) /\ s.local)
    /\ s.env = "store_err" => (Pseudo(s.ver) /\ ~s.local)
    /\ ~Supported(s.ver) => \A i \in DOMAIN DimSeq : s[DimSeq[i]] = Default(DimSeq[i])

\* the deviations are the same for every version: computed once
Deviations == Ext(Base, DimSeq, Budget)
MkScenario(v, l, st, x) ==
    [ver |-> v, local |-> l, stripped |-> st, inviterMem |-> x.inviterMem, inviteeMem |-> x.inviteeMem, race |-> x.race,
     pl |-> x.pl, who |-> x.who, env |-> x.env, nprev |-> x.nprev, remote |-> x.remote, bview |-> x.bview]

\* ------------------------------------------------------------------ state
VARIABLES sc,       \* the scenario
          phase,    \* "prepare" "precheck" "build" "check" "send" "remote" "answered" "return" "done"
          strip,    \* history: the stripped state A settled on ("" before Prepare)
          built,    \* history: what A built
          checked,  \* history: outcome of A's own auth check: "" | "pass" | "fail"
          wire,     \* history: what A put on the wire, in order
          ans,      \* history: what came back from B
          got,      \* the answer after A's processing
          log,      \* history: order of the observable steps "check" / "send"
          out       \* what PerformInvite returns
vars == <<sc, phase, strip, built, checked, wire, ans, got, log, out>>

NoBuilt == [present |-> FALSE, auth |-> {}, prev |-> <<>>, depth |-> "", skey |-> ""]
NoEv    == [room |-> "", type |-> "", skey |-> "", mship |-> "", sender |-> "", same |-> FALSE, sigA |-> FALSE,
            sigB |-> FALSE, irs |-> ""]
NoAns   == [k |-> "none", ev |-> NoEv]
NoOut   == [res |-> "", why |-> "", ev |-> NoEv]

Known == KnownOf(sc)
MemQ  == IF sc.race = "yes" THEN "join" ELSE sc.inviteeMem     \* answer of A's membership table
Latest == [i \in 1..NPrev(sc.nprev) |-> i]                       \* the forward extremities, in the querier's order

\* --- authorisation rules, membership = invite, no third-party invite (Matrix "Authorization rules" 4.4 / 5.4):
\*     the sender must be joined, the target must be neither joined nor banned, the sender's power level must be at
\*     least the invite level (default 0; without a power-level event every level is its default: creator 100, others 0);
\*     room versions 12+: a creator's power level is infinite.
LevelOK == \/ sc.pl \in {"above", "equal", "none"}
           \/ sc.who = "creator" /\ PrivCreators(sc.ver)
InviteAllowed ==
    /\ sc.inviterMem = "join"
    /\ sc.inviteeMem \notin {"join", "ban"}
    /\ LevelOK

\* --- auth_events selection for a membership event (Matrix "PDUs / auth_events"): create, power levels (if any), the
\*     sender's membership (if any), the target's membership (if any), join rules for membership = invite / join.
\*     Domainless room versions never cite the create event.
AuthWanted ==
    (IF Domainless(sc.ver) THEN {} ELSE {"create"}) \cup {"jr"}
    \cup (IF sc.pl = "none" THEN {} ELSE {"pl"})
    \cup (IF sc.inviterMem = "none" THEN {} ELSE {"inviter"})
    \cup (IF sc.inviteeMem = "none" THEN {} ELSE {"invitee"})

\* the state key of the finished invite
InviteeKey == IF Pseudo(sc.ver) THEN "ikey" ELSE "invitee"

\* the event A builds itself (v2 path; pseudo-ID room with a local invitee: built with the invitee's room key)
BuiltEv == [room |-> "main", type |-> "member", skey |-> InviteeKey, mship |-> "invite", sender |-> "inviter",
            same |-> TRUE, sigA |-> TRUE, sigB |-> (sc.local), irs |-> strip]

\* --- B's answers.  v2: relative to the event that was sent; v3: relative to the proto event (sigA is added by A).
GoodAnswer == IF Pseudo(sc.ver)
              THEN [BuiltEv EXCEPT !.sigA = FALSE, !.sigB = TRUE]
              ELSE [BuiltEv EXCEPT !.sigB = TRUE]
AnswerOf(kind) ==
    LET g == GoodAnswer
        rebuilt == [g EXCEPT !.same = FALSE, !.sigA = FALSE]     \* another event: A never signed it
    IN CASE kind = "honest"       -> g
         [] kind = "echo"         -> [g EXCEPT !.sigB = FALSE]                     \* the event as it was sent
         [] kind = "strip_a_sig"  -> [g EXCEPT !.sigA = FALSE]
         [] kind = "unsigned"     -> [g EXCEPT !.sigA = FALSE, !.sigB = FALSE]
         [] kind = "no_skey"      -> [g EXCEPT !.skey = "none", !.sigB = FALSE]    \* v3: the proto event, not completed
         [] kind = "other_room"   -> [rebuilt EXCEPT !.room = "other"]
         [] kind = "other_type"   -> [rebuilt EXCEPT !.type = "other"]
         [] kind = "other_skey"   -> [rebuilt EXCEPT !.skey = "other"]
         [] kind = "non_invite"   -> [rebuilt EXCEPT !.mship = "join"]
         [] kind = "other_sender" -> [rebuilt EXCEPT !.sender = "other"]
         [] kind = "other_user"   -> [g EXCEPT !.skey = "other", !.same = FALSE]   \* an earlier genuine invite of another user of B
         [] kind = "other_irs"    -> [g EXCEPT !.irs = "forged"]

\* ------------------------------------------------------------------ actions
Fail(why) == /\ out' = [res |-> "err", why |-> why, ev |-> NoEv]
             /\ phase' = "done"

Prepare ==
    /\ phase = "prepare"
    /\ IF sc.stripped = "generated" /\ sc.env = "state_err"
       THEN Fail("state_err") /\ UNCHANGED strip
       ELSE strip' = sc.stripped /\ phase' = "precheck" /\ UNCHANGED out
    /\ UNCHANGED <<sc, built, checked, wire, ans, got, log>>

Precheck ==
    /\ phase = "precheck"
    /\ IF ~Supported(sc.ver) THEN Fail("unsupported")
       ELSE IF sc.env = "sid_err" THEN Fail("sid_err")
       ELSE IF Known /\ sc.env = "mem_err" THEN Fail("mem_err")
       ELSE IF Known /\ MemQ = "join" /\ Fault # "skip_joined" THEN Fail("joined")
       ELSE phase' = "build" /\ UNCHANGED out
    /\ UNCHANGED <<sc, strip, built, checked, wire, ans, got, log>>

Build ==
    /\ phase = "build"
    /\ IF sc.env = "latest_err" THEN Fail("latest_err") /\ UNCHANGED built
       ELSE IF sc.env = "noroom" /\ Fault # "ignore_noroom" THEN Fail("noroom") /\ UNCHANGED built
       ELSE IF Pseudo(sc.ver) /\ sc.local /\ sc.env = "creator_err" THEN Fail("creator_err") /\ UNCHANGED built
       ELSE /\ built' = [present |-> TRUE, auth |-> AuthWanted,
                         prev |-> IF Fault = "no_truncate" THEN Latest ELSE SubSeq(Latest, 1, Min(Len(Latest), MaxPrev)),
                         depth |-> "latest",
                         skey |-> IF Pseudo(sc.ver) /\ ~sc.local THEN "open" ELSE InviteeKey]
            \* pseudo-ID room, remote invitee: there is no full event yet - the documented order is send, then check
            /\ phase' = IF (Pseudo(sc.ver) /\ ~sc.local) \/ (Fault = "send_before_check" /\ ~sc.local) THEN "send" ELSE "check"
            /\ UNCHANGED out
    /\ UNCHANGED <<sc, strip, checked, wire, ans, got, log>>

CheckAllowed ==
    /\ phase = "check"
    /\ log' = Append(log, "check")
    /\ IF sc.env = "auth_err" THEN Fail("auth_err") /\ checked' = "fail"
       ELSE IF InviteAllowed = FALSE /\ Fault # "skip_check" THEN Fail("notallowed") /\ checked' = "fail"
       ELSE /\ checked' = "pass"
            /\ phase' = IF wire # <<>> THEN "return"
                        ELSE IF sc.local /\ Fault # "local_sends" THEN "return" ELSE "send"
            /\ UNCHANGED out
    /\ UNCHANGED <<sc, strip, built, wire, ans, got>>

Send ==
    /\ phase = "send"
    /\ wire' = Append(wire, [api |-> IF Pseudo(sc.ver) THEN "v3" ELSE "v2",
                             ev |-> IF Pseudo(sc.ver) THEN "proto" ELSE "built",
                             sigA |-> ~Pseudo(sc.ver),      \* a proto event carries no signature yet
                             irs |-> strip])
    /\ log' = Append(log, "send")
    /\ phase' = "remote"
    /\ UNCHANGED <<sc, strip, built, checked, ans, got, out>>

\* honest B: the receiving handler; it refuses when its own records have the invitee joined
RemoteHandle ==
    /\ phase = "remote" /\ sc.remote = "honest"
    /\ ans' = IF sc.bview = "joined" THEN [k |-> "refused", ev |-> NoEv] ELSE [k |-> "event", ev |-> AnswerOf("honest")]
    /\ phase' = "answered"
    /\ UNCHANGED <<sc, strip, built, checked, wire, got, log, out>>

RemoteMisbehave ==
    /\ phase = "remote" /\ sc.remote \notin {"honest", "neterr"}
    /\ ans' = [k |-> "event", ev |-> AnswerOf(sc.remote)]
    /\ phase' = "answered"
    /\ UNCHANGED <<sc, strip, built, checked, wire, got, log, out>>

NetFail ==
    /\ phase = "remote" /\ sc.remote = "neterr"
    /\ ans' = [k |-> "error", ev |-> NoEv]
    /\ phase' = "answered"
    /\ UNCHANGED <<sc, strip, built, checked, wire, got, log, out>>

\* what A must find in the answer before it hands it on (mechanics: first failing check decides)
AnswerDefect(e) ==
    IF e.room # "main" THEN "room"
    ELSE IF e.type # "member" THEN "type"
    ELSE IF e.mship # "invite" THEN "membership"
    ELSE IF e.sender # "inviter" THEN "sender"
    ELSE IF e.skey # InviteeKey THEN "state_key"
    ELSE IF ~e.same THEN "not_the_event"
    ELSE IF ~e.sigB THEN "sig_b"
    ELSE IF ~e.sigA THEN "sig_a"
    ELSE IF e.irs # strip THEN "unsigned"
    ELSE "none"
\* v3: the inviter's room key signs what came back
Countersigned(e) == IF Pseudo(sc.ver) THEN [e EXCEPT !.sigA = TRUE] ELSE e
\* B's signature stands over the very event A built: A can take that signature and keep its own event
Repaired(e) == [e EXCEPT !.sigA = TRUE, !.irs = sc.stripped]
Repairable(e) == AnswerDefect(e) \in {"sig_a", "unsigned"}
RepairableKind(k) == Repairable(Countersigned(AnswerOf(k)))

Receive ==
    /\ phase = "answered"
    /\ IF ans.k # "event" THEN Fail("remote_failed") /\ UNCHANGED got
       ELSE LET e == Countersigned(ans.ev) IN
            IF AnswerDefect(e) # "none" /\ ~(Repair /\ Repairable(e)) /\ Fault # "return_unchecked"
            THEN Fail("bad_answer") /\ UNCHANGED got
            ELSE IF Pseudo(sc.ver) /\ sc.env = "store_err" THEN Fail("store_err") /\ UNCHANGED got
            ELSE /\ got' = IF Repair /\ Fault # "return_unchecked" THEN Repaired(e) ELSE e
                 /\ phase' = IF checked = "" THEN "check" ELSE "return"
                 /\ UNCHANGED out
    /\ UNCHANGED <<sc, strip, built, checked, wire, ans, log>>

Return ==
    /\ phase = "return"
    /\ out' = [res |-> "ok", why |-> "none",
               ev |-> IF wire = <<>> THEN BuiltEv ELSE got]
    /\ phase' = "done"
    /\ UNCHANGED <<sc, strip, built, checked, wire, ans, got, log>>

Init == /\ \E v \in VerSet, l \in BOOLEAN, st \in {"supplied", "generated"}, x \in Deviations :
              /\ sc = MkScenario(v, l, st, x)
              /\ Relevant(sc) = TRUE
        /\ phase = "prepare" /\ strip = "" /\ built = NoBuilt /\ checked = "" /\ wire = <<>>
        /\ ans = NoAns /\ got = NoEv /\ log = <<>> /\ out = NoOut
Next == Prepare \/ Precheck \/ Build \/ CheckAllowed \/ Send \/ RemoteHandle \/ RemoteMisbehave \/ NetFail
        \/ Receive \/ Return
Spec == Init /\ [][Next]_vars
Done == phase = "done"

\* ================================================================== properties
\* every reason why this call must not succeed (plain conjuncts over the scenario; independent of any order of checks)
Reasons ==
    (IF sc.stripped = "generated" /\ sc.env = "state_err" THEN {"state_err"} ELSE {})
    \cup (IF ~Supported(sc.ver) THEN {"unsupported"} ELSE {})
    \cup (IF sc.env = "sid_err" THEN {"sid_err"} ELSE {})
    \cup (IF Known /\ sc.env = "mem_err" THEN {"mem_err"} ELSE {})
    \cup (IF Known /\ MemQ = "join" THEN {"joined"} ELSE {})
    \cup (IF sc.env = "latest_err" THEN {"latest_err"} ELSE {})
    \cup (IF sc.env = "noroom" THEN {"noroom"} ELSE {})
    \cup (IF Pseudo(sc.ver) /\ sc.local /\ sc.env = "creator_err" THEN {"creator_err"} ELSE {})
    \cup (IF sc.env = "auth_err" THEN {"auth_err"} ELSE {})
    \cup (IF ~InviteAllowed THEN {"notallowed"} ELSE {})
    \cup (IF ~sc.local /\ (sc.remote = "neterr" \/ (sc.remote = "honest" /\ sc.bview = "joined")) THEN {"remote_failed"} ELSE {})
    \cup (IF ~sc.local /\ sc.remote \notin {"honest", "neterr"} /\ ~(Repair /\ RepairableKind(sc.remote))
          THEN {"bad_answer"} ELSE {})
    \cup (IF Pseudo(sc.ver) /\ ~sc.local /\ sc.env = "store_err" THEN {"store_err"} ELSE {})
\* reasons that are known before anything can be sent (v3, remote invitee: the auth check comes after the send)
AfterSend == {"remote_failed", "bad_answer", "store_err"}
             \cup (IF Pseudo(sc.ver) /\ ~sc.local THEN {"auth_err", "notallowed"} ELSE {})

\* ---- P1  an event is returned only if the room version is supported, the inviter may invite by the room's auth state
\*          on A, and the invitee is not already joined (documented refusal)
AllowedOnly ==
    out.res = "ok" => /\ Supported(sc.ver)
                      /\ InviteAllowed
                      /\ ~(Known /\ MemQ = "join")

\* ---- P2  the event handed to the caller is the invite: m.room.member / invite for the invitee in the room, sent by the
\*          inviter; v2: its event ID is that of the event A built, v3: it is A's proto event completed; it carries A's
\*          valid signature and - remote invitee, or pseudo-ID room - B's; unsigned.invite_room_state is the stripped state
ReturnedIsTheInvite ==
    out.res = "ok" =>
        LET e == out.ev IN
        /\ e.room = "main" /\ e.type = "member" /\ e.mship = "invite" /\ e.sender = "inviter"
        /\ e.skey = InviteeKey
        /\ e.same
        /\ e.sigA
        /\ (~sc.local \/ Pseudo(sc.ver)) => e.sigB
        /\ e.irs = strip /\ strip = sc.stripped
\*          and what goes on the wire is that event (v3: the proto event), with the stripped state
SentIsTheInvite ==
    \A i \in DOMAIN wire :
        /\ wire[i].api = (IF Pseudo(sc.ver) THEN "v3" ELSE "v2")
        /\ wire[i].ev = (IF Pseudo(sc.ver) THEN "proto" ELSE "built") /\ built.present
        /\ (wire[i].api = "v2" => wire[i].sigA)
        /\ wire[i].irs = sc.stripped

\* ---- P3  nothing leaves A for a local invitee; nothing leaves A when the call fails for a reason A knows beforehand;
\*          v2: A's auth check has passed before anything is sent; at most one request
NoLeak ==
    /\ sc.local => wire = <<>>
    /\ Len(wire) <= 1
    /\ (wire # <<>> /\ ~Pseudo(sc.ver)) => checked = "pass"
    /\ (Reasons \ AfterSend) # {} => wire = <<>>
CheckBeforeSend ==
    ~Pseudo(sc.ver) => \A i \in DOMAIN log : log[i] = "send" => \E j \in 1..(i - 1) : log[j] = "check"

\* ---- P4  auth_events are the events the auth rules need (those that exist), prev_events the forward extremities -
\*          both within the documented limits - and the depth comes with the latest events
References ==
    built.present =>
        /\ built.auth = AuthWanted
        /\ Cardinality(built.auth) <= MaxAuth
        /\ Len(built.prev) = Min(Len(Latest), MaxPrev)
        /\ \A i \in DOMAIN built.prev : built.prev[i] = Latest[i]
        /\ built.depth = "latest"

\* ---- P5  a failing querier / a room A does not have: an error, and nothing was sent
EnvReasons == {"state_err", "sid_err", "mem_err", "latest_err", "noroom", "creator_err"}
EnvErrors ==
    (Done /\ Reasons \cap EnvReasons # {}) => (out.res = "err" /\ wire = <<>>)

\* ---- the flow is decided by the scenario: it succeeds exactly when no reason stands against it, and fails for one
\*      of the reasons that do
Complete == Done => (out.res = "ok" <=> Reasons = {})
WhySound == (Done /\ out.res = "err") => out.why \in Reasons

\* ---- oracle sanity
TypeOK ==
    /\ phase \in {"prepare", "precheck", "build", "check", "send", "remote", "answered", "return", "done"}
    /\ checked \in {"", "pass", "fail"}
    /\ out.res \in {"", "ok", "err"}
    /\ ans.k \in {"none", "event", "refused", "error"}
    /\ Len(log) <= 2
Sanity ==
    /\ ans.k # "none" => wire # <<>>                       \* B only answers what it was sent
    /\ (Done /\ out.res = "ok" /\ ~sc.local) => (ans.k = "event" /\ checked = "pass")
    /\ (Done /\ out.res = "ok") => built.present
    /\ Cardinality(AuthWanted) <= 5                        \* an invite never needs more than five auth events: MaxAuth is moot
    /\ out.res = "" <=> ~Done
=============================================================================
