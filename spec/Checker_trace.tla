--------------------------- MODULE Checker_trace ---------------------------
(***************************************************************************)
(* Trace validation (code -> spec) for C09.  The trace is a sequence of    *)
(* SESSIONS; within a session every line is one check through the SAME     *)
(* reused checker (allowerContext) of the library, driven as state         *)
(* resolution drives it.  A line logs the abstract scenario (room version, *)
(* the state the provider held, the judged event), the verdict of the      *)
(* reused checker (got) and the verdict of a fresh Allowed() (fresh).      *)
(*                                                                         *)
(* The property is that the verdict is a function of the line alone - and  *)
(* of no more of the line than the state the event needs:                  *)
(*   got = Allowed(ver, st, ev)                        (no history)        *)
(*   got = Allowed(ver, RestrictTo(st, Needed(ev)), ev) (only needed)      *)
(*   got = fresh                                       (reuse is invisible)*)
(*   got = sub    (sub: a fresh Allowed() over exactly the (type, state    *)
(*                 key) pairs the library's StateNeededForAuth names)      *)
(*   got = sel    (sel: an equivalent new event built with AddAuthEvents   *)
(*                 over the needed state - in room versions whose room ID  *)
(*                 names the create event also over the needed state       *)
(*                 WITHOUT it - judged against the auth events it lists)   *)
(* What else the line says about the session is not read on purpose: pad   *)
(* (the provider also held power-levels / join-rules / create typed state  *)
(* under OTHER state keys, before / after / between the real events) and   *)
(* editing (the caller overwrote what PDU.PowerLevels() etc. returned      *)
(* between the checks), keep (the provider was not cleared before this     *)
(* check: AddEvent replaced its entries one by one) must not show in any   *)
(* verdict.                                                                *)
(* The history variables seen / held make the statement about histories    *)
(* explicit: Functional says that two lines of the trace with the same     *)
(* (version, needed state, event) carry the same verdict whatever happened *)
(* in between.                                                             *)
(***************************************************************************)
EXTENDS Auth, Json, IOUtils, SequencesExt

Trace == ndJsonDeserialize(IOEnv.TRACE_FILE)

VARIABLES l,      \* next trace line
          bad,    \* lines whose logged result the specification does not explain
          seen    \* history: (version, needed state, event) -> verdict of the first line that showed it
vars == <<l, bad, seen>>

NormSt(s) == [s EXCEPT !.create.addl = ToSet(@)]

Init == l = 1 /\ bad = <<>> /\ seen = <<>>

Proj(r) == LET s == NormSt(r.st) IN <<r.ver, RestrictTo(s, Needed(r.ev)), r.ev>>

Explains(r) ==
    LET s == NormSt(r.st) IN
    /\ Allowed(r.ver, s, r.ev) = r.got
    /\ Allowed(r.ver, RestrictTo(s, Needed(r.ev)), r.ev) = r.got
    /\ r.fresh = r.got
    /\ r.sub = r.got          \* a fresh Allowed over exactly the state StateNeededForAuth names
    /\ r.sel = r.got          \* another server, against the auth events AddAuthEvents lists for an equivalent new event

\* the first earlier line with the same projection, 0 if none
Earlier(r) == LET p == Proj(r) IN
              IF \E k \in 1..Len(seen) : seen[k][1] = p
              THEN (CHOOSE k \in 1..Len(seen) : seen[k][1] = p) ELSE 0

Step ==
    /\ l <= Len(Trace)
    /\ LET r == Trace[l]
           k == Earlier(r)
           functional == k = 0 \/ seen[k][2] = r.got
       IN /\ bad' = IF Explains(r) /\ functional THEN bad ELSE Append(bad, l)
          /\ seen' = IF k = 0 /\ Len(seen) < 400 THEN Append(seen, <<Proj(r), r.got>>) ELSE seen
    /\ l' = l + 1

Next == Step
Spec == Init /\ [][Next]_vars

Report == (l = Len(Trace) + 1 /\ bad # <<>>) => PrintT("TRACE_REJECTED " \o ToJson(bad))
TraceAccepted == TLCGet("stats").diameter - 1 = Len(Trace)
=============================================================================
