SPECIFICATION Spec
CONSTANTS
  Versions <- VersionsAll
  Family = "pair"
INVARIANTS RefusedWhenOver PersistableOnlyBytes OkWithin HashIndependent ShapesWellFormed PlacementIndependent ReceiptJudgesKept AltOnlyStraddle Accounting GrowthKeepsRefusal PersistableIsHandedOn AcceptedIsHandedOn RefusedIsDropped KeptOnReceiptOnly HandedUniform Emit
CHECK_DEADLOCK FALSE
