SPECIFICATION Spec
CONSTANTS
  Versions <- VersionsAll
  Family = "pair"
INVARIANTS RefusedWhenOver PersistableOnlyBytes OkWithin ShapesWellFormed Emit
CHECK_DEADLOCK FALSE
