SPECIFICATION Spec
CONSTANTS
  Versions <- VersionsAll
  Family = "pair"
INVARIANTS RefusedWhenOver PersistableOnlyBytes OkWithin HashIndependent ShapesWellFormed Emit
CHECK_DEADLOCK FALSE
