SPECIFICATION Spec
CONSTANTS
  MaxOps = 4
  Lookup = "tuple"
  Rooms = "held"
INVARIANTS ReadsLastAdd ValidHeld OwnPair Emit
CHECK_DEADLOCK FALSE
