-------------------------- MODULE FedRequest_trace --------------------------
(***************************************************************************)
(* Trace validation (code -> spec) of the Authorization header grammar.    *)
(* Each trace line is one real call of fclient.ParseAuthorization: the     *)
(* token sequence the Go recorder built the header text from, and the      *)
(* fields the library parsed.  A line is explained iff the parsed fields   *)
(* are what the grammar of FedHeader.tla gives for the tokens:             *)
(*   - X-Matrix credentials (scheme, then nothing or space): the scheme is *)
(*     reported as "X-Matrix" and every parameter has the value of a list  *)
(*     element of that name ("" if there is none; any occurrence if the    *)
(*     name is repeated, which the grammar forbids and leaves open);       *)
(*   - anything else is not reported as X-Matrix.                          *)
(* Consequently the credentials are usable (origin, key and sig all        *)
(* non-empty) only if FedHeader!Usable, and always if FedHeader!WellFormed *)
(* with the required parameters present.                                   *)
(***************************************************************************)
EXTENDS FedHeader, Json, IOUtils, TLC

Trace == ndJsonDeserialize(IOEnv.TRACE_FILE)

VARIABLES l,     \* next trace line
          bad    \* lines whose logged result the grammar does not explain
vars == <<l, bad>>

Field(g, n) == CASE n = "origin" -> g.origin [] n = "destination" -> g.destination
                 [] n = "key" -> g.key [] n = "sig" -> g.sig

GotUsable(g) == g.scheme = "X-Matrix" /\ g.origin # "" /\ g.key # "" /\ g.sig # ""

Explains(r) ==
    IF SchemeOK(r.toks)
    THEN /\ r.got.scheme = "X-Matrix"
         /\ \A n \in Known : MayReport(r.toks, n, Field(r.got, n))
         /\ GotUsable(r.got) => Usable(r.toks)
         /\ (WellFormed(r.toks) /\ Usable(r.toks)) => GotUsable(r.got)
    ELSE r.got.scheme # "X-Matrix"

Init == l = 1 /\ bad = <<>>

Step ==
    /\ l <= Len(Trace)
    /\ bad' = IF Explains(Trace[l]) THEN bad ELSE Append(bad, l)
    /\ l' = l + 1

Next == Step
Spec == Init /\ [][Next]_vars

Report == (l = Len(Trace) + 1 /\ bad # <<>>) => PrintT("TRACE_REJECTED " \o ToJson(bad))
TraceAccepted == TLCGet("stats").diameter - 1 = Len(Trace)
=============================================================================
