\* KeyLife_gen_wide_thorough.cfg: every transition: 2 key IDs, both notary behaviours, forged signatures
SPECIFICATION GSpec
CONSTANTS
  Mode = "cover"
  NK = 2
  MaxT = 3
  MaxRot = 1
  MaxReq = 3
  V = 2
  Orders <- BothOrders
  NModes <- NBoth
  Sigs <- SBoth
  ReqTS <- TS03
  Rules <- RBoth
  StoreRule = "monotone"
VIEW View
INVARIANTS TypeOK Sound Complete NoNeedlessContact InOrder ExpiredDecides KnownExpiry OldKeyStillVerifies DBMonotone ExpiredIsFinal NothingInvented StoredFetched Continuity LastDB OutageHarmless OutageInHistory Again RetiredForGood Sanity Emit
PROPERTIES EnvLeavesDB EveryCallOK
CHECK_DEADLOCK FALSE
