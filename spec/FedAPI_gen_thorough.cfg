SPECIFICATION Spec
CONSTANTS
  CallSet <- CallsAll
  ClassSet <- ClassesAll
  RespSet <- RespAll
  Resp2Set <- Resp2All
  OrigSet <- OrigAll
  ResSet <- ResAll
  Budget = 3
  PairBonus = 1
  Fault = "none"
INVARIANTS TypeOK Fidelity Authenticity ResponseHandling Destination RouteUnambiguous Emit
CHECK_DEADLOCK FALSE
