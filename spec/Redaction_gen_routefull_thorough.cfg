SPECIFICATION Spec
CONSTANTS
  Versions <- VersionsPairs
  FullVersions <- VersionsPairs
  Families <- FamPdu
  Kinds <- KindsRoute
  ChunkSize = 1
  MaxHist = 0
  FullOffsets <- OffNone
  LiteOffsets <- OffNone
  AllOnlyOffsets <- OffNone
  RouteSteps = 3
  RouteFull = TRUE
INVARIANTS TypeOK PExact PIdempotent PHistory PCore PIdentity PRoute PModule PSanity Emit
CHECK_DEADLOCK FALSE
