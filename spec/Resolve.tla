------------------------------ MODULE Resolve ------------------------------
(***************************************************************************)
(* C16 - Matrix server discovery ("Resolving server names", server-server  *)
(* API), written from the Matrix specification, not from the code.         *)
(*                                                                         *)
(* One behaviour = the resolution of one server name in one environment.   *)
(* The environment (chosen in Init by the wrapper) fixes what the          *)
(* /.well-known request and the SRV lookups will answer.  Every step of    *)
(* the algorithm is a separate action, taken in the prescribed order:      *)
(*                                                                         *)
(*   ParseName -> IPLiteral -> ExplicitPort -> WellKnown                   *)
(*        -> [delegated name: ParseName -> IPLiteral -> ExplicitPort       *)
(*            -> SRVFed -> SRVLegacy -> Default8448]   (no 2nd well-known) *)
(*        -> SRVFed -> SRVLegacy -> Default8448                            *)
(*                                                                         *)
(* Result: sequence of targets (destination host:port, Host header, TLS    *)
(* server name), or a refusal.  The property is stated over the scenario   *)
(* and the history variables (wkreqs, srvq, steps), independently of the   *)
(* step mechanics: see HostSNI, NoSecondWellKnown, InvalidRefused, ...     *)
(*                                                                         *)
(* Where the Matrix specification and the property statement are silent    *)
(* the model has explicit latitude (variable lat): the wrapper emits one   *)
(* record per latitude and the replay accepts any of them.                 *)
(*   lat.srverr   - an SRV lookup fails with something else than "no such  *)
(*                  record": go on with the next step | go straight to     *)
(*                  :8448 | refuse                                         *)
(*   lat.baddeleg - m.server is not a valid server name: refuse | treat    *)
(*                  the well-known reply as invalid (step 4 on the origin) *)
(*   lat.redirect - the well-known request is answered with a redirect to  *)
(*                  a document that would be honoured: follow | ignore     *)
(*                  (the property only speaks of "status 200")             *)
(*   lat.tie      - order of SRV records of equal priority (RFC 2782:      *)
(*                  weighted random): "ab" | "ba"                          *)
(***************************************************************************)
EXTENDS Integers, Sequences, FiniteSets, TLC

DefaultPort == 8448
NoPort == -1                 \* "the name carries no port" (0 is a port)
MaxWellKnown == 51200         \* 50 KiB

\* ---------------------------------------------------------------- vocabulary
\* A server name: host token, literal kind, port (NoPort = none), grammatical validity.
MkName(h, lit, p, v) == [host |-> h, lit |-> lit, port |-> p, valid |-> v]
NoName == MkName("", "no", NoPort, FALSE)

HostPort(h, p) == [h |-> h, p |-> p]
Target(dh, dp, name) ==            \* a connection target on behalf of `name`
    [dest |-> HostPort(dh, dp),
     host |-> HostPort(name.host, name.port),   \* Host header: the name as written, port included if it has one
     sni  |-> name.host]                        \* certificate / SNI: its host part

\* A well-known reply.  status 0 = transport error (no reply at all).
\*   size: "small" | "eq50k" (exactly 50 KiB) | "over50k";  cl: a Content-Length header is present
\*   body: "ok" (JSON object whose m.server is a non-empty string) | "malformed" | "no_mserver"
\*         | "empty_mserver" | "wrongtype";  target: the name m.server spells (body = "ok")
\*   redir: "none" | "loop" (redirects to itself for ever: there never is a reply) | "ok" (redirects once,
\*          to a document with the size / body described here, served with status 200)
GoodDoc(w) == w.size # "over50k" /\ w.body = "ok"

\* An SRV answer: rc "ok" (records, in wire order) | "nx" (NXDOMAIN) | "nodata" | "err" (SERVFAIL)
NoRecord(a) == a.rc \in {"nx", "nodata"} \/ (a.rc = "ok" /\ a.recs = <<>>)

\* The SRV table is keyed by DNS name.  Spellings that differ only in letter case or by a trailing dot
\* are the same DNS name: tokens SU (upper-case S), DU, Ddot.
DnsKey(h) == CASE h \in {"S", "SU"} -> "S" [] h \in {"D", "DU", "Ddot"} -> "D" [] OTHER -> h

VARIABLES
    origin,     \* the server name to resolve                      } scenario,
    wk,         \* what https://<origin>/.well-known/... answers   } fixed in Init
    srv,        \* DNS name [S|D] -> [fed|legacy] -> SRV answer    }
    lat,        \* latitude (see above)                            }
    pc, cur, role,        \* step, name being resolved, "origin" | "deleg"
    result, refused,      \* outcome
    wkreqs, srvq, steps   \* history: well-known requests (hosts), SRV queries, steps taken

\* RFC 2782: lowest priority value first; records of equal priority (field tb = 1, 2 tells them apart) in either order
ByPriority(recs) == SortSeq(recs, LAMBDA a, b :
    a.prio * 4 + (IF lat.tie = "ab" THEN a.tb ELSE 3 - a.tb) < b.prio * 4 + (IF lat.tie = "ab" THEN b.tb ELSE 3 - b.tb))
Honoured(w) == GoodDoc(w) /\ (w.status = 200 \/ (w.redir = "ok" /\ lat.redirect = "follow"))

scen == <<origin, wk, srv, lat>>
vars == <<origin, wk, srv, lat, pc, cur, role, result, refused, wkreqs, srvq, steps>>

Start ==
    /\ pc = "parse" /\ cur = origin /\ role = "origin"
    /\ result = <<>> /\ refused = FALSE
    /\ wkreqs = <<>> /\ srvq = <<>> /\ steps = <<>>

Did(s) == steps' = Append(steps, <<role, s>>)
Finish(res) == /\ result' = res /\ pc' = "done"
Refuse == /\ refused' = TRUE /\ result' = <<>> /\ pc' = "done"

\* ------------------------------------------------------------------- steps
\* 0. the name must be a valid server name
ParseName ==
    /\ pc = "parse" /\ Did("parse")
    /\ UNCHANGED <<scen, wkreqs, srvq>>
    /\ IF cur.valid
       THEN pc' = "literal" /\ UNCHANGED <<cur, role, result, refused>>
       ELSE IF role = "deleg" /\ lat.baddeleg = "step4"
            THEN /\ cur' = origin /\ role' = "origin" /\ pc' = "srvfed"
                 /\ UNCHANGED <<result, refused>>
            ELSE Refuse /\ UNCHANGED <<cur, role>>

\* 1. / 3.1  IP literal: that address, given port or 8448; Host = the name, certificate for the IP
IPLiteral ==
    /\ pc = "literal" /\ Did("literal")
    /\ UNCHANGED <<scen, cur, role, refused, wkreqs, srvq>>
    /\ IF cur.lit # "no"
       THEN Finish(<<Target(cur.host, IF cur.port = NoPort THEN DefaultPort ELSE cur.port, cur)>>)
       ELSE pc' = "port" /\ UNCHANGED result

\* 2. / 3.2  explicit port: hostname:port; Host = hostname:port, certificate for hostname
ExplicitPort ==
    /\ pc = "port" /\ Did("port")
    /\ UNCHANGED <<scen, cur, role, refused, wkreqs, srvq>>
    /\ IF cur.port # NoPort
       THEN Finish(<<Target(cur.host, cur.port, cur)>>)
       ELSE /\ pc' = (IF role = "deleg" THEN "srvfed" ELSE "wellknown")   \* a delegated name gets no well-known lookup
            /\ UNCHANGED result

\* 3. well-known: honoured only if 200, <= 50 KiB and naming an m.server; otherwise step 4
WellKnown ==
    /\ pc = "wellknown" /\ role = "origin" /\ Did("wellknown")
    /\ wkreqs' = Append(wkreqs, cur.host)
    /\ UNCHANGED <<scen, result, refused, srvq>>
    /\ IF Honoured(wk)
       THEN cur' = wk.target /\ role' = "deleg" /\ pc' = "parse"
       ELSE pc' = "srvfed" /\ UNCHANGED <<cur, role>>

SrvTargets(recs) == [i \in DOMAIN recs |-> Target(ByPriority(recs)[i].t, ByPriority(recs)[i].port, cur)]

OnSrvError(next) ==
    CASE lat.srverr = "next"    -> pc' = next /\ UNCHANGED <<result, refused>>
      [] lat.srverr = "default" -> pc' = "default" /\ UNCHANGED <<result, refused>>
      [] OTHER                  -> Refuse

\* 4. / 3.3  SRV _matrix-fed._tcp.<hostname>: Host = hostname, certificate for hostname
SRVFed ==
    /\ pc = "srvfed" /\ Did("srvfed")
    /\ srvq' = Append(srvq, <<"fed", cur.host>>)
    /\ UNCHANGED <<scen, cur, role, wkreqs>>
    /\ LET a == srv[DnsKey(cur.host)].fed IN
       IF a.rc = "ok" /\ a.recs # <<>> THEN Finish(SrvTargets(a.recs)) /\ UNCHANGED refused
       ELSE IF NoRecord(a) THEN pc' = "srvlegacy" /\ UNCHANGED <<result, refused>>
       ELSE OnSrvError("srvlegacy")

\* 5. / 3.4  (deprecated) SRV _matrix._tcp.<hostname>, only when no _matrix-fed record was found
SRVLegacy ==
    /\ pc = "srvlegacy" /\ Did("srvlegacy")
    /\ srvq' = Append(srvq, <<"legacy", cur.host>>)
    /\ UNCHANGED <<scen, cur, role, wkreqs>>
    /\ LET a == srv[DnsKey(cur.host)].legacy IN
       IF a.rc = "ok" /\ a.recs # <<>> THEN Finish(SrvTargets(a.recs)) /\ UNCHANGED refused
       ELSE IF NoRecord(a) THEN pc' = "default" /\ UNCHANGED <<result, refused>>
       ELSE OnSrvError("default")

\* 6. / 3.5  hostname:8448
Default8448 ==
    /\ pc = "default" /\ Did("default")
    /\ Finish(<<Target(cur.host, DefaultPort, cur)>>)
    /\ UNCHANGED <<scen, cur, role, refused, wkreqs, srvq>>

Next == ParseName \/ IPLiteral \/ ExplicitPort \/ WellKnown \/ SRVFed \/ SRVLegacy \/ Default8448

\* --------------------------------------------------------------- the property
Done == pc = "done"

\* the name whose identity every target must carry: the delegated name iff the origin is a
\* port-less DNS name whose well-known reply is honoured (and spells a valid name)
Plain(n) == n.valid /\ n.lit = "no" /\ n.port = NoPort
Delegated == Plain(origin) /\ Honoured(wk) /\ wk.target.valid
Effective == IF Delegated THEN wk.target ELSE origin
EffRole == DnsKey(Effective.host)

\* every target carries the Host header / TLS name its step prescribes
HostSNI == Done /\ ~refused =>
    \A i \in DOMAIN result :
        /\ result[i].host = HostPort(Effective.host, Effective.port)
        /\ result[i].sni = Effective.host

\* destinations: literal / explicit port -> exactly that; otherwise SRV records of the effective
\* name (fed before legacy) in priority order, or hostname:8448
RecsOf(a) == IF a.rc = "ok" THEN a.recs ELSE <<>>
DestOK == Done /\ ~refused =>
    LET e == Effective  f == RecsOf(srv[EffRole].fed)  l == RecsOf(srv[EffRole].legacy)
        dests(recs) == [i \in DOMAIN recs |-> HostPort(ByPriority(recs)[i].t, ByPriority(recs)[i].port)]
        got == [i \in DOMAIN result |-> result[i].dest]
    IN /\ result # <<>>
       /\ IF ~Plain(e) THEN got = <<HostPort(e.host, IF e.port = NoPort THEN DefaultPort ELSE e.port)>>
          ELSE IF f # <<>> THEN got = dests(f)                    \* a fed record always wins
          ELSE \/ got = <<HostPort(e.host, DefaultPort)>> /\ (l = <<>> \/ srv[EffRole].fed.rc = "err")
               \/ got = dests(l) /\ l # <<>>

\* a delegated lookup never performs a second well-known request; literals / explicit ports none at all
NoSecondWellKnown ==
    /\ Len(wkreqs) <= 1
    /\ \A i \in DOMAIN wkreqs : wkreqs[i] = origin.host
    /\ (Done /\ ~Plain(origin) => wkreqs = <<>>)
    /\ (Done /\ Plain(origin) => wkreqs = <<origin.host>>)

\* invalid server names are refused, before anything goes on the wire
InvalidRefused == Done /\ ~origin.valid => refused /\ result = <<>> /\ wkreqs = <<>> /\ srvq = <<>>
RefusedOnlyIf == refused =>
    \/ ~origin.valid
    \/ (Plain(origin) /\ Honoured(wk) /\ ~wk.target.valid /\ lat.baddeleg = "refuse")
    \/ (lat.srverr = "refuse" /\ \E r \in {"S", "D"}, s \in {"fed", "legacy"} : srv[r][s].rc = "err")
InvalidDelegationNeverFollowed == Done /\ Plain(origin) /\ Honoured(wk) /\ ~wk.target.valid =>
    \A i \in DOMAIN result : result[i].sni = origin.host

\* a reply that must not be honoured is never followed
NotHonouredNotFollowed == Done /\ ~Honoured(wk) /\ ~refused =>
    \A i \in DOMAIN result : result[i].sni = origin.host

\* order of the steps: canonical rank strictly increases for one name; only the origin asks well-known, once
Rank(s) == CASE s = "parse" -> 0 [] s = "literal" -> 1 [] s = "port" -> 2 [] s = "wellknown" -> 3
             [] s = "srvfed" -> 4 [] s = "srvlegacy" -> 5 [] s = "default" -> 6
StepOrder ==
    /\ \A i \in 1..(Len(steps) - 1) :
         LET a == steps[i]  b == steps[i + 1] IN
         \/ a[1] = b[1] /\ Rank(a[2]) < Rank(b[2])
         \/ a = <<"origin", "wellknown">> /\ b = <<"deleg", "parse">>
         \/ a = <<"deleg", "parse">> /\ b = <<"origin", "srvfed">>
    /\ \A i \in DOMAIN steps : steps[i][2] = "wellknown" => steps[i][1] = "origin"
    /\ Cardinality({i \in DOMAIN steps : steps[i][2] = "wellknown"}) <= 1

\* _matrix-fed is asked before _matrix, for the same name
FedBeforeLegacy == \A i \in DOMAIN srvq :
    srvq[i][1] = "legacy" => i > 1 /\ srvq[i - 1] = <<"fed", srvq[i][2]>>

\* SRV is asked only about a port-less DNS name (never about a literal, a name with port, an invalid name)
SrvOnlyPlain == \A i \in DOMAIN srvq : srvq[i][2] \in {origin.host, wk.target.host} /\ srvq[i][2] = Effective.host

\* ------------------------------------------- well-known cache lifetime (small, separate)
\* maxAge / expires: [has |-> a usable value is present, v |-> seconds (max-age) resp. seconds from now (Expires)]
\* max-age is preferred over Expires (RFC 7234 section 5.3).  Expires may lie in the past, max-age may be 0:
\* both are usable values (the reply is stale at once).  The code documents no lower / upper bound.
CacheLifetime(maxAge, expires) ==
    IF maxAge.has THEN [kind |-> "relative", secs |-> maxAge.v]
    ELSE IF expires.has THEN [kind |-> "absolute", secs |-> expires.v]
    ELSE [kind |-> "none", secs |-> 0]
=============================================================================
