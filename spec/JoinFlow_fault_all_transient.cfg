SPECIFICATION Spec
CONSTANTS
  VerSet <- VersFault
  Budget = 2
  Fault = "all_transient"
  Strict = FALSE
INVARIANTS TypeOK ErrorTaxonomy
CHECK_DEADLOCK FALSE
