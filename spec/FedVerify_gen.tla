---------------------------- MODULE FedVerify_gen ----------------------------
(* Generation wrapper for FedVerify.tla.  Room.tla's Next builds the room; in every reachable room one Pick    *)
(* action chooses a scenario of the configured Kind, evaluates the specification's outcome and the property     *)
(* invariants, and Emit prints the record.                                                                      *)
(*   Kind      "state" | "sendjoin" | "chain" | "atstate" | "load" | "all"                                     *)
(*   MaxFaults exhaustive mode: every fault subset with at most this many deviations                            *)
(*   PairFrom  two deviations: at least one of them concerns an event with id >= PairFrom                       *)
(*   Sim       TRUE (with -simulate): random scenarios with 3..SimFaults deviations, several per simulated room    *)
EXTENDS FedVerify, Json

CONSTANTS Kind, MaxFaults, PairFrom, Sim, SimFaults

VARIABLES phase, sc

gvars == <<vars, phase, sc>>

Ids == DOMAIN E
Ext(f, d) == [i \in Ids |-> IF i \in DOMAIN f THEN f[i] ELSE d]

PairKinds == {"badsig", "disallowed", "missing", "wrongroom", "malformed", "statedrop"} \cup CreateFaults

\* the create-rule faults applicable to event x
CreateApp(x) == IF E[x].type # "create" THEN {}
                ELSE {"create_prevs"} \cup (IF DomainlessRoomIDs(Ver) THEN {} ELSE {"create_domain"})

\* two deviations: both of the kinds that interact through auth relations, or a whole-response fault next to a
\* bad signature (the failure must win over the filtering)
DevPairOK(f) ==
    LET X == DOMAIN f IN
    \/ Cardinality(X) <= 1
    \/ /\ \E x \in X : x >= PairFrom
       /\ \/ \A x \in X : f[x] \in PairKinds \cup {"nothing", "errors"} \cup (IF Kind = "load" THEN {"dup", "sigcopy"} ELSE {})
          \/ \E x \in X, y \in X : f[x] \in {"nonstate", "dup"} /\ f[y] = "badsig"

\* the fault assignments explored for the candidate events R, app(x) being the kinds applicable to x
FaultChoices(R, app(_)) ==
    IF Sim
    THEN {[x \in X |-> RandomElement(app(x))] :
             X \in {RandomElement({Y \in SUBSET {r \in R : app(r) # {}} : Cardinality(Y) >= 3 /\ Cardinality(Y) <= SimFaults})}}
    ELSE {f \in UNION {[X -> FaultKinds \cup {"nothing", "errors"}] : X \in {Y \in SUBSET R : Cardinality(Y) <= MaxFaults}} :
             (\A x \in DOMAIN f : f[x] \in app(x)) /\ DevPairOK(f)}

\* provider behaviours explored for the ids in A
ProvChoices(A) == IF Sim THEN {[a \in A |-> RandomElement(ProvKinds)]} ELSE [A -> ProvKinds]

StateBefore(e) == IF E[e].prev = {} THEN {} ELSE StateAt(E[e].prev)
LaggingState(e) == IF E[e].prev = {} THEN {} ELSE StateBefore(MaxOf(E[e].prev))

Blank == [kind |-> Kind, EM |-> E, F |-> [i \in Ids |-> NoFault], P |-> [i \in Ids |-> "returns"],
          al |-> {}, sl |-> {}, j |-> 0, e |-> 0, s |-> {}, sb |-> <<>>, av |-> FALSE, pm |-> "ok",
          fail |-> FALSE, ok |-> FALSE, auth |-> {}, state |-> {}, askmin |-> {}, askmax |-> {}, cls |-> <<>>,
          altok |-> FALSE, altcls |-> <<>>, pv |-> "exact", tr |-> "none", cls1 |-> <<>>]

GInit == Init /\ phase = "room" /\ sc = 0

(***************************************************************************)
(* state: /state response for the newest event                             *)
(***************************************************************************)
StateApp(e, SL, cited, dis) ==
    {"badsig", "malformed"}
      \* (where room IDs are create event IDs a create event without state_key has no room: no such event exists)
      \cup (IF DomainlessRoomIDs(Ver) /\ E[e].type = "create" THEN {} ELSE {"nonstate"})
      \cup (IF e \in dis THEN {"disallowed"} ELSE {})
      \cup (IF e \in cited THEN {"missing"} ELSE {})
      \cup (IF DomainlessRoomIDs(Ver) /\ E[e].type = "create" THEN {} ELSE {"wrongroom"})
      \cup (IF e \in SL THEN {"dup"} ELSE {})
      \cup CreateApp(e)

PickState ==
    \E SL \in {after[N]} : \E AL \in {ChainOf(E, SL)} :
    \E dis \in {{e \in AL \cup SL : CanDisallow(e)}} :
    \E f \in FaultChoices(AL \cup SL, LAMBDA x : StateApp(x, SL, CitedBy(E, AL \cup SL), dis)) :
       \E F \in {Ext(f, NoFault)} : \E EM \in {Mutated(F)} :
       \E pre \in {CheckState(EM, F, [i \in Ids |-> "returns"], AL, SL)} :
          \E p \in ProvChoices(pre.askmax \cap Ids) :
             \E P \in {Ext(p, "returns")} : \E out \in {CheckState(EM, F, P, AL, SL)} :
             /\ sc' = [Blank EXCEPT !.kind = "state", !.EM = EM, !.F = F, !.P = P, !.al = AL, !.sl = SL,
                                    !.fail = out.fail, !.auth = out.auth, !.state = out.state,
                                    !.askmin = out.askmin, !.askmax = out.askmax]
             /\ phase' = "done"

(***************************************************************************)
(* sendjoin: a user's own join; the response is the state before it (or the *)
(* state with the join itself) and the auth chain of that state            *)
(***************************************************************************)
IsOwnJoin(e) == E[e].type = "member" /\ E[e].sender = E[e].skey /\ E[e].membership = "join"

\* the join events verified: the newest event; in the room without free events every own join of the prefix, the
\* creator's first join included (the joiner is the create sender)
JoinChoices == {j \in (IF N = Base THEN Ids ELSE {N}) : IsOwnJoin(j)}

\* the state list of the response: the state before the join, or - as some servers answer - the state that
\* already contains the join event itself
JoinStates(j) == {StateBefore(j), ApplyTo(E, StateBefore(j), j)}

\* the state list as sent: without the events dropped from it (they stay in the auth list)
Sent(F, SL) == {x \in SL : F[x] # "statedrop"}

PickSendJoin ==
    /\ \E j \in JoinChoices : \E SL0 \in JoinStates(j) : \E AL \in {ChainOf(E, SL0)} :
       \E dis \in {{e \in (AL \cup SL0) \ {j} : CanDisallow(e)}} :
       \E f \in FaultChoices((AL \cup SL0) \ {j}, LAMBDA x : StateApp(x, SL0, CitedBy(E, AL \cup SL0 \cup {j}), dis)
                                                      \cup (IF x \in AL \cap SL0 THEN {"statedrop"} ELSE {})) :
          \E F \in {Ext(f, NoFault)} : \E EM \in {Mutated(F)} : \E SL \in {Sent(F, SL0)} :
          \E pre \in {CheckState(EM, F, [i \in Ids |-> "returns"], AL, SL)} :
             \E p \in ProvChoices(pre.askmax \cap Ids) :
                \* the join event may also ask for auth events that were dropped: one common behaviour for those
                \E pb \in (IF Sim THEN {RandomElement(ProvKinds)} ELSE ProvKinds) :
                   \E P \in {Ext(p, pb)} : \E out \in {CheckSendJoin(EM, F, P, AL, SL, j)} :
                   /\ (~Sim /\ pb # "returns" => (out.askmax \ pre.askmax) # {})
                   /\ sc' = [Blank EXCEPT !.kind = "sendjoin", !.EM = EM, !.F = F, !.P = P, !.al = AL, !.sl = SL, !.j = j,
                                          !.fail = CheckState(EM, F, P, AL, SL).fail,
                                          !.ok = out.ok, !.auth = out.auth, !.state = out.state,
                                          !.askmin = out.askmin, !.askmax = out.askmax]
                   /\ phase' = "done"

(***************************************************************************)
(* chain: VerifyEventAuthChain of the newest event; deviations are faults  *)
(* of the event / of the events the provider holds and provider behaviours *)
(***************************************************************************)
ChainApp(x, e, dis) ==
    (IF x \in dis THEN {"disallowed"} ELSE {})
      \cup (IF DomainlessRoomIDs(Ver) /\ E[x].type = "create" THEN {} ELSE {"wrongroom"})
      \cup (IF x # e THEN {"nothing", "errors"} ELSE {})
      \cup CreateApp(x)

\* a deviation function d over events: fault kinds go to F, provider kinds to P
FOf(d) == Ext([x \in {y \in DOMAIN d : d[y] \in FaultKinds} |-> d[x]], NoFault)
POf(d) == Ext([x \in {y \in DOMAIN d : d[y] \in ProvKinds} |-> d[x]], "returns")

PickChain ==
    \* (the newest event; in the room without free events also the create event, verified directly)
    \E e \in {N} \cup (IF N = Base THEN {1} ELSE {}) : \E R \in {ChainOf(E, {e}) \cup {e}} :
    \E dis \in {{x \in R : CanDisallow(x)}} :
    \E d \in FaultChoices(R, LAMBDA x : ChainApp(x, e, dis)) :
    \* (how the provider answers one call: exactly what was asked, or the whole chain below it)
    \E pv \in (IF Sim THEN {RandomElement(ProvModes)} ELSE ProvModes) :
       \E F \in {FOf(d)} : \E P \in {POf(d)} : \E EM \in {Mutated(F)} :
       \E ok \in {AuthChainOK(EM, F, P, e)} : \E reach \in {CitedBy(EM, ChainReach(EM, P, e))} :
       /\ sc' = [Blank EXCEPT !.kind = "chain", !.EM = EM, !.F = F, !.P = P, !.e = e, !.ok = ok, !.pv = pv,
                              !.askmin = IF ok THEN ChainAskMin(EM, P, pv, e) ELSE {}, !.askmax = reach]
       /\ phase' = "done"

(***************************************************************************)
(* atstate: VerifyAuthRulesAtState of event e against the state the state  *)
(* provider reports: the state before e (k = 0) or the state after another *)
(* event k that does not come after e: an ancestor (a view that lags) or   *)
(* an event of another branch (a view that knows what the sender did not)  *)
(***************************************************************************)
AtFaults(e) == {NoFault, "wrongroom"} \cup (IF CanDisallow(e) THEN {"disallowed"} ELSE {})

\* <<event, k, validation permitted, state provider mode>>; outside the room without free events one of the two
\* events is the newest one (the other pairs are those of smaller rooms)
AtTuples ==
    {t \in (Ids \ {1}) \X ({0} \cup Ids) \X BOOLEAN \X {"ok", "ids_error", "state_error"} :
        /\ t[1] # t[2]
        /\ (t[2] # 0 => t[1] \notin Ancestors(E, t[2]))
        /\ (t[2] # 0 => t[4] = "ok")
        /\ (~Sim /\ N > Base => t[1] = N \/ t[2] = N)}

PickAtState ==
    \E t \in (IF Sim THEN {RandomElement(AtTuples)} ELSE AtTuples) :
       LET e == t[1]  k == t[2]  av == t[3]  pm == t[4]
           S == IF k = 0 THEN StateBefore(e) ELSE after[k] IN
       \E fe \in (IF Sim THEN {RandomElement(AtFaults(e))} ELSE AtFaults(e)) :
          \E F \in {Ext([x \in {e} |-> fe], NoFault)} : \E EM \in {Mutated(F)} :
          /\ sc' = [Blank EXCEPT !.kind = "atstate", !.EM = EM, !.F = F, !.e = e, !.s = S, !.av = av, !.pm = pm,
                                 !.ok = AuthAtState(EM, F, e, S, av, pm),
                                 !.altok = AuthAtStateCited(EM, F, e, S, av, pm)]
          /\ phase' = "done"

(***************************************************************************)
(* load: every event of the room is an input of LoadAndVerify; the state   *)
(* provider reports the state before each event (sk = 0) or lags one event *)
(* behind (sk = 1: the state before the event's newest predecessor)        *)
(***************************************************************************)
\* ("dup": the input list carries the event twice; "sigcopy": twice, one copy with a destroyed signature)
LoadApp(x, dis) ==
    {"badsig", "malformed", "dup", "sigcopy", "nothing", "errors"}
      \cup (IF x \in dis THEN {"disallowed"} ELSE {})
      \cup (IF DomainlessRoomIDs(Ver) /\ E[x].type = "create" THEN {} ELSE {"wrongroom"})
      \cup CreateApp(x)

PickLoad ==
    \E dis \in {{x \in Ids : CanDisallow(x)}} :
    \E d \in FaultChoices(Ids, LAMBDA x : LoadApp(x, dis)) :
    \E sk \in (IF Sim THEN {RandomElement({0, 1})} ELSE {0, 1}) :
       \E F \in {FOf(d)} : \E P \in {POf(d)} : \E EM \in {Mutated(F)} :
       \E sb \in {[e \in Ids |-> IF sk = 0 THEN StateBefore(e) ELSE LaggingState(e)]} :
       \E loc \in {LocalOK(EM, F, P)} :
       /\ sc' = [Blank EXCEPT !.kind = "load", !.EM = EM, !.F = F, !.P = P, !.sb = sb,
                              !.cls = [e \in Ids |-> LoadClass(EM, F, P, loc, e, sb[e])],
                              !.altcls = [e \in Ids |-> LoadClassCited(EM, F, P, loc, e, sb[e])]]
       /\ phase' = "done"

(***************************************************************************)
(* backfill: RequestBackfill over TWO servers that both answer with every  *)
(* event of the room, the caller's event provider failing transiently:     *)
(* while the first server's answer is verified every call errors (tr =     *)
(* "errors") or returns nothing (tr = "nothing"); afterwards it behaves as *)
(* P says.  cls1 / cls: the classes of the two rounds.                     *)
(***************************************************************************)
TransientModes == {"errors", "nothing"}

PickBackfill ==
    \E dis \in {{x \in Ids : CanDisallow(x)}} :
    \E d \in FaultChoices(Ids, LAMBDA x : LoadApp(x, dis) \ {"dup", "sigcopy"}) :
    \E tr \in (IF Sim THEN {RandomElement(TransientModes)} ELSE TransientModes) :
       \E F \in {FOf(d)} : \E P \in {POf(d)} : \E EM \in {Mutated(F)} :
       \E P1 \in {[i \in Ids |-> tr]} :
       \E sb \in {[e \in Ids |-> StateBefore(e)]} :
       \E loc \in {LocalOK(EM, F, P)} : \E loc1 \in {LocalOK(EM, F, P1)} :
       /\ sc' = [Blank EXCEPT !.kind = "backfill", !.EM = EM, !.F = F, !.P = P, !.sb = sb, !.tr = tr,
                              !.cls1 = [e \in Ids |-> LoadClass(EM, F, P1, loc1, e, sb[e])],
                              !.cls = [e \in Ids |-> LoadClass(EM, F, P, loc, e, sb[e])]]
       /\ phase' = "done"

Pick == CASE Kind = "state" -> PickState
          [] Kind = "sendjoin" -> PickSendJoin
          [] Kind = "chain" -> PickChain
          [] Kind = "atstate" -> PickAtState
          [] Kind = "load" -> PickLoad
          [] Kind = "backfill" -> PickBackfill
          \* every operation in one run (the per-version families of the quick tier)
          [] Kind = "all" -> PickState \/ PickSendJoin \/ PickChain \/ PickAtState \/ PickLoad

\* (simulation: once a scenario has been picked in a room further random scenarios are picked in the same room, so
\* that one trace yields depth - 3 records instead of one; growing the room is the expensive part of a trace)
GNext == \/ phase = "room" /\ Next /\ UNCHANGED <<phase, sc>>
         \/ phase = "room" /\ N >= Base /\ Pick /\ UNCHANGED vars
         \/ phase = "done" /\ Sim /\ Pick /\ UNCHANGED vars

GSpec == GInit /\ [][GNext]_gvars

(***************************************************************************)
(* The property on the scenario just evaluated (design check of the        *)
(* operators: stated on faults and outputs only)                           *)
(***************************************************************************)
Done == phase = "done"
Out == [fail |-> sc.fail, auth |-> sc.auth, state |-> sc.state]

NothingBadPassedOn ==
    Done /\ sc.kind \in {"state", "sendjoin"} => StateSafe(sc.F, sc.al, sc.sl, Out)
NothingGoodLost ==
    Done /\ sc.kind = "state" => StateComplete(sc.F, sc.al, sc.sl, Out)
WholeResponseFailure ==
    Done /\ sc.kind = "state" => StateFailsOn(sc.F, sc.al, sc.sl, Out)
\* a send_join response is accepted only if the join event is allowed by its auth events and by the returned state
SendJoinOnlyIfAllowed ==
    Done /\ sc.kind = "sendjoin" /\ sc.ok =>
        /\ ~sc.fail
        /\ Allow(sc.EM, sc.F, sc.state, sc.j)
        /\ Allow(sc.EM, sc.F, {a \in sc.EM[sc.j].auth : a \in sc.auth \cup sc.state \/ sc.P[a] = "returns"}, sc.j)
\* without deviations honest rooms verify; a bad event never verifies
NoFaultAt(x) == sc.F[x] = NoFault
HonestAccepted ==
    Done /\ (\A x \in Ids : NoFaultAt(x) /\ sc.P[x] = "returns") =>
        CASE sc.kind = "state" -> ~sc.fail /\ sc.auth = sc.al /\ sc.state = sc.sl
          [] sc.kind = "sendjoin" -> sc.ok /\ sc.auth = sc.al /\ sc.state = sc.sl
          [] sc.kind = "chain" -> sc.ok
          [] sc.kind = "atstate" -> (sc.pm = "ok" /\ sc.s = StateBefore(sc.e)) => sc.ok
          [] sc.kind = "load" -> \A e \in Ids : sc.sb[e] = StateBefore(e) => sc.cls[e] = "ok"
          \* (a transient fault of the provider during the first round loses nothing)
          [] sc.kind = "backfill" -> BackfillMust(<<sc.cls1, sc.cls>>) = Ids
BadNeverVerifies ==
    Done =>
        CASE sc.kind = "chain" -> BadEvent(sc.F, sc.e) => ~sc.ok
          [] sc.kind = "atstate" -> (BadEvent(sc.F, sc.e) /\ ~sc.av /\ sc.s = StateBefore(sc.e)) => ~sc.ok
          [] sc.kind = "load" -> \A e \in Ids : BadEvent(sc.F, e) => sc.cls[e] \in {"invalid", "sig", "chain"}
          [] sc.kind = "backfill" -> \A e \in Ids : BadEvent(sc.F, e) /\ sc.F[e] # "badsig" => e \notin BackfillMay(<<sc.cls1, sc.cls>>)
          [] OTHER -> TRUE
AskBounds == Done => sc.askmin \subseteq sc.askmax
\* "every fetched auth event": the events fetched are the same whichever call brought them (a provider answering
\* with more than it was asked for changes nothing), so the verdict of AuthChainOK ranges over all of them
FetchedWhicheverCall ==
    Done /\ sc.kind = "chain" => Fetched(sc.EM, sc.P, sc.pv, {sc.e}, {sc.e}) = ChainReach(sc.EM, sc.P, sc.e)
\* backfill: what must be returned may be returned; an event whose classes are "ok" in the second round is never lost
BackfillBounds ==
    Done /\ sc.kind = "backfill" =>
        /\ BackfillMust(<<sc.cls1, sc.cls>>) \subseteq BackfillMay(<<sc.cls1, sc.cls>>)
        /\ \A e \in Ids : sc.cls[e] = "ok" => e \in BackfillMust(<<sc.cls1, sc.cls>>)

(***************************************************************************)
(* Emission                                                                *)
(***************************************************************************)
EvJson(i) == [id |-> i, type |-> sc.EM[i].type, sender |-> sc.EM[i].sender, skey |-> sc.EM[i].skey,
              membership |-> sc.EM[i].membership, plu |-> sc.EM[i].plu, jr |-> sc.EM[i].jr,
              prev |-> sc.EM[i].prev, auth |-> sc.EM[i].auth, depth |-> sc.EM[i].depth, ts |-> sc.EM[i].ts,
              f |-> sc.F[i], p |-> sc.P[i]]

Emit == Done => PrintT(ToJson(
    [kind |-> sc.kind, ver |-> Ver, events |-> [i \in Ids |-> EvJson(i)], al |-> sc.al, sl |-> sc.sl,
     j |-> sc.j, e |-> sc.e, s |-> sc.s, sb |-> sc.sb, av |-> sc.av, pm |-> sc.pm,
     fail |-> sc.fail, ok |-> sc.ok, auth |-> sc.auth, state |-> sc.state,
     askmin |-> sc.askmin, askmax |-> sc.askmax, cls |-> sc.cls, altok |-> sc.altok, altcls |-> sc.altcls,
     pv |-> sc.pv, tr |-> sc.tr, cls1 |-> sc.cls1]))
=============================================================================
