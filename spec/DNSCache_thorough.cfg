SPECIFICATION Spec
CONSTANTS
  Procs = {"c1", "c2", "c3"}
  Hosts = {"a", "b", "c"}
  Size = 2
  MaxCalls = 1
  MaxExpire = 2
  Kinds = {"lookup", "dial"}
  ZeroDuration = FALSE
  Faults = TRUE
VIEW View
INVARIANTS TypeOK SizeBound ServedFreshAndSequential NoCrossHost RefinesSequential MissReturnsOwnAnswer MutexDiscipline
