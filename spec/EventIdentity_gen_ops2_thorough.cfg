SPECIFICATION Spec
CONSTANTS
  Versions <- VersionsAll
  Family = "ops"
  ShapeIds <- ShapesC03
  VariantIds <- VariantsAll
  MaxOps = 2
  Alphabet <- AlphabetFull
  PreOps <- PreNone
  SibFields <- NoFields
  SidPairs <- NoSid
  TamperMax = 0
INVARIANTS TypeOK PIdStable PRoundTrip PRedactKeeps PV12 PBuildOrRefuse Emit
CHECK_DEADLOCK FALSE
