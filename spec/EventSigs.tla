------------------------------ MODULE EventSigs ------------------------------
(***************************************************************************)
(* C06 - which servers must have validly signed an event.                  *)
(* Written from the Matrix specification (server-server API "Validating    *)
(* hashes and signatures on received events": the event must be signed by  *)
(* the sender's server; room versions 1-2: also by the server of the       *)
(* event_id; invites ("Inviting to a room"): also by the invited user's    *)
(* server; room version 8 "Signing key validity / restricted joins": a     *)
(* join carrying join_authorised_via_users_server also by that user's      *)
(* server; room version 5 "Signing key validity period"), NOT from         *)
(* eventcrypto.go.                                                         *)
(*                                                                         *)
(* Abstract servers: s1 is the sender's server; the target user of a       *)
(* membership event lives on tsrv, the authorising user on asrv, the event *)
(* ID (room versions 1-2) names esrv; every other server is unrelated.     *)
(* A scenario gives every server a signature state:                        *)
(*   ok          one signature, made with a key valid at origin_server_ts  *)
(*   vu_eq       ... whose valid_until_ts equals origin_server_ts          *)
(*   exp_later   ... made with an old key that expired after the event     *)
(*   two_onebad  two signatures: one corrupted, one good (other key)       *)
(*   absent      no signature                                              *)
(*   corrupt     signature bytes altered                                   *)
(*   stale       a genuine signature of that key over another payload      *)
(*   wrongkey    under a key ID the verifier knows, made with another key  *)
(*   unknownkey  under a key ID the verifier has no key for                *)
(*   expired     made with a key that expired before origin_server_ts      *)
(*   after_vu    origin_server_ts is after the key's valid_until_ts        *)
(*               (matters in room versions with strict key validity)       *)
(* and the event a time mode: normal, or origin_server_ts 6 / 8 days in    *)
(* the future of the verifier's clock with keys valid for 30 more days     *)
(* (strict versions: validity is capped at 7 days from now), or at one of   *)
(* the ends of the range a count of milliseconds can take (Instants below: *)
(* 0, 1, the first instant that does not fit a signed 64-bit count, the    *)
(* largest instant the room version admits), with keys valid there.        *)
(* Several events whose signatures need the same keys at different         *)
(* instants can be verified through ONE call of the key ring (section      *)
(* "Batches"): every message gets the verdict it would get alone.          *)
(*                                                                         *)
(* Pseudo-ID rooms (org.matrix.msc4014): users are keys and sign for       *)
(* themselves; "the sender's server" is the sender key, "the invited       *)
(* user's server" the invited key; key validity does not exist.  Modelled: *)
(* exactly that.  Left out: the mxid_mapping of joins (always present and  *)
(* validly signed in the replay) and join_authorised_via_users_server      *)
(* (names a user ID; its server cannot self-sign).                         *)
(***************************************************************************)
EXTENDS Redaction

CONSTANTS Versions,
          MaxFaults,     \* how many required servers carry a fault at once (1 or 2)
          SourceVersions, \* room versions for which the key sources are varied
          BatchVersions,  \* room versions for which batches (section "Batches") are enumerated
          BatchLens,      \* the numbers of messages a batch can have
          FullRange       \* TRUE: instants up to 2^64 - 1 where canonical JSON does not cap them; FALSE: up to 2^63 - 1

Servers == {"s1", "s2", "s3", "s4", "sx"}
MemberKinds == {"join", "invite", "leave", "ban", "knock"}
Kinds == {"nonmember"} \cup MemberKinds

\* exp_next: made with an old key whose expired_ts is origin_server_ts + 1 ms (valid: the key expired after the event)
\* mal_good: two signatures, one that is not a signature at all (not base64 / wrong length), one good (other key)
GoodStates == {"ok", "vu_eq", "exp_later", "exp_next", "two_onebad", "mal_good"}
\* stale_kept: a genuine signature of that key over the event with one content key of the redaction keep-list of
\* its type changed (the signature does not cover what the room version says a signature covers)
\* exp_eq: the key's expired_ts equals origin_server_ts (a key is valid strictly before its expired_ts)
\* vu_m1: origin_server_ts is 1 ms after valid_until_ts;  malformed: the only signature is not base64 / has the wrong length
Faults == {"absent", "corrupt", "stale", "stale_kept", "wrongkey", "unknownkey", "expired", "after_vu", "exp_eq", "vu_m1",
           "malformed", "vouched"}
\* vouched: the signature under the server's name is made with another party's key under a key ID the server does
\* not have; the key response of ANOTHER required server (asked for its own keys) names this server and lists that
\* key.  Nobody but a server itself (or a notary it signed for) can say what its keys are.

\* --- what a signature covers: the redacted event (Redaction.tla), per room version and event type ----------------
\* org.example.member: NOT a membership event, but dressed like an invite of a user on s2 carrying
\* join_authorised_via_users_server (state key, content): needs nothing beyond the sender's server
ETypes == {"m.room.message", "m.room.aliases", "m.room.create", "m.room.join_rules", "m.room.power_levels",
           "m.room.history_visibility", "m.room.redaction", "org.example.member"}
TypeOf(e) == IF e.kind = "nonmember" THEN e.etype ELSE "m.room.member"
\* the content keys the replay gives an event
ContentKeysOf(v, e) ==
    IF e.kind = "nonmember" THEN
        CASE e.etype = "m.room.message" -> {"body", "msgtype"}
          [] e.etype = "m.room.aliases" -> {"aliases", "foo"}
          [] e.etype = "m.room.create" -> {"creator", "room_version", "m.federate"}
          [] e.etype = "m.room.join_rules" -> {"join_rule", "allow", "foo"}
          [] e.etype = "m.room.power_levels" -> {"ban", "users", "invite", "notifications"}
          [] e.etype = "m.room.history_visibility" -> {"history_visibility", "foo"}
          [] e.etype = "m.room.redaction" -> {"redacts", "reason"}
          [] e.etype = "org.example.member" -> {"membership", "join_authorised_via_users_server", "body"}
    ELSE {"membership", "displayname"}
         \cup (IF e.via THEN {"join_authorised_via_users_server"} ELSE {})
         \cup (IF e.kind = "invite" THEN {NestedKey} ELSE {})
         \cup (IF PseudoIDs(v) /\ e.kind = "join" THEN {"mxid_mapping"} ELSE {})
AbsEvent(v, e) ==
    LET ks == ContentKeysOf(v, e) IN
    [type |-> TypeOf(e), top |-> EmptyFn, con |-> [k \in ks |-> "x"],
     tpi |-> IF NestedKey \in ks THEN [obj |-> TRUE, keys |-> ("signed" :> "x" @@ "display_name" :> "x")] ELSE NoTpi]
KeptCon(v, e) == DOMAIN RedactV(v, AbsEvent(v, e)).con
KeptTpi(v, e) == DOMAIN RedactV(v, AbsEvent(v, e)).tpi.keys
\* the kept content key a stale_kept signature disagrees on ("" if the type keeps none)
KeptKey(v, e) == IF KeptCon(v, e) \ {NestedKey} = {} THEN "" ELSE CHOOSE k \in KeptCon(v, e) \ {NestedKey} : TRUE
TimeFaults == {"expired", "after_vu", "exp_eq", "vu_m1"}
TimeGood == {"vu_eq", "exp_later", "exp_next"}
OtherModes == {"absent", "ok", "corrupt", "malformed"}    \* what every server that is not required carries
\* --- the ends of the time line ---------------------------------------------------------------------------------
\* origin_server_ts, valid_until_ts and expired_ts count milliseconds from 0 upwards.  An instant is an instant:
\* nothing about 0, 1 or a very large count is special to the property sentence.
\*   at0     origin_server_ts = 0             at1     origin_server_ts = 1
\*   atmax   the largest origin_server_ts the room version admits: 2^53 - 1 where canonical JSON is enforced on
\*           events (room version 6 on), before that whatever an unsigned 64-bit count holds (2^64 - 1)
\*   atwrap  2^63, where it is admitted: the first count that a signed 64-bit integer no longer holds
\* at0 / at1 lie in the verifier's past like "normal"; atwrap / atmax far beyond 7 days from now like "future8d".
Instants == {"at0", "at1", "atwrap", "atmax"}
InstantsOf(v) == IF PseudoIDs(v) THEN {"at0", "at1"}     \* (the mxid_mapping's key validity is not modelled)
                 ELSE {"at0", "at1", "atmax"} \cup (IF EnforcedCanonJSON(v) \/ ~FullRange THEN {} ELSE {"atwrap"})
\* (FullRange = FALSE stops at the largest count a signed 64-bit integer holds)
MaxTS(v) == IF EnforcedCanonJSON(v) THEN "2p53m1" ELSE IF FullRange THEN "2p64m1" ELSE "2p63m1"
TimeModes == {"normal", "future6d", "future8d"} \cup Instants
Beyond7d(t) == t \in {"future8d", "atwrap", "atmax"}
InThePast(t) == t \in {"normal", "at0", "at1"}
\* The key tables count from 0 too, and 0 in them means "none" (valid_until_ts 0: no validity; expired_ts 0: not
\* expired).  A state that needs a table entry at or before origin_server_ts does not exist at 0 (vu_eq, exp_eq) or
\* needs a non-zero instant below it (expired, after_vu, vu_m1: not at 0 or 1); nothing lies after the largest
\* instant (exp_later, exp_next: not at atmax).
Unrealisable(t) == CASE t = "at0" -> {"vu_eq", "exp_eq", "expired", "after_vu", "vu_m1"}
                     [] t = "at1" -> {"expired", "after_vu", "vu_m1"}
                     [] t = "atmax" -> {"exp_later", "exp_next"}
                     [] OTHER -> {}
\* order of the instants (TLC: ranks); "now" (and now + 7 / 30 days) lies between "normal" and the far instants
Rank(t) == CASE t = "at0" -> 0 [] t = "at1" -> 1 [] t = "normal" -> 2 [] t = "atwrap" -> 4 [] t = "atmax" -> 5
NowRank == 3

\* Where the verifier's keys come from (the key ring: a database, then key fetchers for what the database lacks
\* or holds past its valid_until_ts).  src[s] says where the keys of server s are: in the database, or only at
\* the fetcher.  vol: the fetcher, whenever it is asked for anything, also hands out an unexpired copy (valid
\* for a day from now) of every key of a required server that the database holds - asked for or not.
\*   - a key the database holds as EXPIRED is final: expired_ts decides, whatever a fetcher says later;
\*   - a key held with a valid_until_ts in the past is asked for again: the fresher copy legitimately extends
\*     its validity (state after_vu then counts as ok);
\*   - anything else the fetcher volunteers changes nothing.
\* pres: how the event reaches the verifier: as it was signed ("trusted"), or over federation with an extra
\* top-level key added in transit ("received": the content hash fails, NewEventFromUntrustedJSON hands out the
\* redacted form) - the verdict is the same: signatures cover the redacted form
\* fail: "none" | "db" | "fetcher" - which key source answers every lookup with an error
\* mapst (pseudo-ID joins only): the mxid_mapping of the join: "ok" | "missing" | "corrupt" (its server signature
\* does not verify); everywhere else "ok"
\* bt: the batch (NoBatch: a single event), bres: what the batch yields (section "Batches")
VARIABLES ver, ev, sig, tm, src, vol, pres, fail, mapst, verdict, phase, bt, bres
vars == <<ver, ev, sig, tm, src, vol, pres, fail, mapst, verdict, phase, bt, bres>>

\* --- the property sentence -----------------------------------------------------------------------
Required(v, e) ==
    {"s1"}                                                                    \* the sender's server
    \cup (IF EventIDFormat(v) = 1 THEN {e.esrv} ELSE {})                      \* the server named in the event ID
    \cup (IF e.kind = "invite" THEN {e.tsrv} ELSE {})                         \* the invited user's server
    \cup (IF e.kind = "join" /\ e.via /\ RestrictedSupported(v) THEN {e.asrv} ELSE {})   \* the authorising user's server

\* a signature state is a valid signature by a key valid at origin_server_ts under the version's rule
Good(st, t, v) ==
    IF PseudoIDs(v) THEN st \in {"ok", "two_onebad", "mal_good"}
    ELSE CASE st \in {"ok", "vu_eq", "two_onebad", "mal_good"} -> (~Beyond7d(t) \/ ~StrictKeyValidity(v))
           [] st \in {"exp_later", "exp_next"} -> TRUE
           [] st \in {"after_vu", "vu_m1"} -> ~StrictKeyValidity(v)
           [] OTHER -> FALSE

\* what the verifier ends up knowing about the key behind the signature of s
\* fl: the key database / the key fetcher answers with an error: no key can be had from it (a verifier that
\* cannot obtain the key must not accept)
Eff(st, where, volunteered, fl) ==
    IF st = "absent" THEN st
    ELSE IF fl = "db" \/ (fl = "fetcher" /\ where # "db") THEN "nokey"
    ELSE IF st \in {"after_vu", "vu_m1"} /\ volunteered /\ fl = "none" /\ where = "db" THEN "ok" ELSE st
EffSig(sg, sr, vl, fl) == [s \in Servers |-> Eff(sg[s], sr[s], vl, fl)]

\* The redacted form a receiver gets after a hash failure says what the room version's redaction keeps.  Room
\* version 8 has restricted joins but does not keep join_authorised_via_users_server (room version 9 repairs
\* that): the redacted form of such a join no longer names an authorising user, and nobody can demand that
\* user's server's signature from it.  A property of the protocol.
ViaVisible(v, e, p) == p = "trusted" \/ "join_authorised_via_users_server" \in KeptCon(v, e)
RequiredP(v, e, p) == Required(v, IF e.via /\ ~ViaVisible(v, e, p) THEN [e EXCEPT !.via = FALSE] ELSE e)

Verify(v, e, sg, t, p) == \A s \in RequiredP(v, e, p) : Good(sg[s], t, v) = TRUE

\* --- scenarios --------------------------------------------------------------------------------------
\* server identity coincidences: the target / authoriser may live on the sender's server, the authoriser on the
\* target's; the event ID (room versions 1-2) may name another server than the sender's
Events(v) ==
    LET esrvs == IF EventIDFormat(v) = 1 THEN {"s1", "s2", "s4"} ELSE {"s1"} IN
    {[kind |-> "nonmember", etype |-> t, via |-> FALSE, tsrv |-> "s1", asrv |-> "s1", esrv |-> x] : x \in esrvs, t \in ETypes}
    \cup {[kind |-> k, etype |-> "m.room.member", via |-> FALSE, tsrv |-> t, asrv |-> "s1", esrv |-> x] :
             k \in MemberKinds, t \in {"s1", "s2"}, x \in esrvs}
    \cup (IF PseudoIDs(v) THEN {} ELSE
          {[kind |-> k, etype |-> "m.room.member", via |-> TRUE, tsrv |-> t, asrv |-> a, esrv |-> x] :
             k \in {"join", "invite", "leave"}, t \in {"s1", "s2"}, a \in {"s1", "s2", "s3"}, x \in esrvs})

StatesFor(v, e) ==
    ((IF PseudoIDs(v) THEN (GoodStates \cup Faults) \ (TimeFaults \cup TimeGood \cup {"vouched"}) ELSE GoodStates \cup Faults)
     \ ((IF KeptKey(v, e) = "" THEN {"stale_kept"} ELSE {})
         \cup (IF Cardinality(Required(v, e)) < 2 THEN {"vouched"} ELSE {})))      \* vouched needs a second required server
    \* the event types that only differ in what their signature covers: the crypto states
    \cap (IF e.kind = "nonmember" /\ e.etype # "m.room.message"
          THEN {"ok", "absent", "corrupt", "stale", "stale_kept", "malformed"} ELSE GoodStates \cup Faults)
FullFamily(e) == e.kind # "nonmember" \/ e.etype = "m.room.message"

Assignments(v, e) ==
    LET R == Required(v, e)
        mk(f, o) == [s \in Servers |-> IF s \in R THEN f[s] ELSE o]
        allok == [s \in R |-> "ok"]
        one == {[s \in R |-> IF s = r THEN st ELSE "ok"] : r \in R, st \in StatesFor(v, e) \ {"ok"}}
        two == IF MaxFaults < 2 THEN {} ELSE
               UNION {{[s \in R |-> IF s = r1 THEN st1 ELSE IF s = r2 THEN st2 ELSE "ok"] :
                          r2 \in R \ {r1}, st1 \in StatesFor(v, e) \ {"ok"},
                          st2 \in StatesFor(v, e) \ {"ok"}} : r1 \in R}
    IN IF ~FullFamily(e) THEN {mk(allok, "absent")} \cup {mk(f, "absent") : f \in one}
       ELSE {mk(allok, o) : o \in OtherModes}
            \cup {mk([s \in R |-> "absent"], o) : o \in {"absent", "ok"}}
            \cup {mk(f, o) : f \in one, o \in (IF MaxFaults < 2 THEN {"absent"} ELSE OtherModes)}
            \* (one fault with the other servers signing validly: where a second server is around anyway)
            \cup (IF MaxFaults < 2 /\ Cardinality(R) > 1 THEN {mk(f, "ok") : f \in one} ELSE {})
            \cup {mk(f, o) : f \in two, o \in {"absent", "ok"}}

AllDB == [s \in Servers |-> "db"]
\* key sources: everything in the database and a silent fetcher; or one required server's keys (with two
\* faults at once: any set of required servers') only at the fetcher, and / or a volunteering fetcher.  Varied
\* where it can matter: some required server signed, the other servers are silent.
Sources(v, e, a) ==
    LET R == Required(v, e)
        sets == IF MaxFaults < 2 THEN {{}} \cup {{r} : r \in R} ELSE SUBSET R
    IN IF v \in SourceVersions /\ ~PseudoIDs(v) /\ FullFamily(e) /\ (\E s \in R : a[s] # "absent") /\ (\A s \in Servers \ R : a[s] = "absent")
       THEN {<<[s \in Servers |-> IF s \in F THEN "fetcher" ELSE "db"], vl>> : F \in sets, vl \in BOOLEAN}
            \* the same with the library's own fetchers over a scripted federation client: the servers' signed key
            \* responses (current keys, old_verify_keys with their expired_ts) fetched directly / through a notary
            \cup {<<[s \in Servers |-> IF s \in F THEN fk ELSE "db"], FALSE>> : F \in sets \ {{}}, fk \in {"direct", "persp"}}
       ELSE {<<AllDB, FALSE>>}

\* --- the ends of the time line: scenarios ------------------------------------------------------------
\* What an instant can matter to: the key-validity path.  Every state that says something about time, and one
\* representative per way a signature can be wrong; one event per number of required servers (with two faults
\* at once - the thorough tier - every event and every state).
InstantStates == IF MaxFaults >= 2 THEN (GoodStates \cup Faults) \ {"vouched"}
                 ELSE {"ok", "two_onebad", "absent", "corrupt", "wrongkey", "unknownkey"} \cup TimeGood \cup TimeFaults
InstantEvents(v) ==
    IF MaxFaults >= 2 THEN {e \in Events(v) : FullFamily(e)}
    ELSE {e \in Events(v) :
             /\ FullFamily(e)
             /\ \/ e.kind = "nonmember"
                \/ (e.kind = "invite" /\ ~e.via /\ e.tsrv = "s2" /\ e.esrv = "s1")
                \/ (e.kind = "join" /\ e.via /\ e.asrv = "s3" /\ e.tsrv = "s1" /\ e.esrv = "s1" /\ RestrictedSupported(v))
                \/ (e.kind = "join" /\ ~e.via /\ e.tsrv = "s1" /\ PseudoIDs(v))}
InstantAssignments(v, e, t) ==
    LET RR == Required(v, e)
        S == ((StatesFor(v, e) \cap InstantStates) \ Unrealisable(t)) \ {"ok"}
        mk(f) == [s \in Servers |-> IF s \in RR THEN f[s] ELSE "absent"]
    IN {mk([s \in RR |-> "ok"]), mk([s \in RR |-> "absent"])}
       \cup {mk([s \in RR |-> IF s = r THEN st ELSE "ok"]) : r \in RR, st \in S}
\* strict key validity over a range of instants that canonical JSON does not cap: a class of its own here
InstantSourceVersions == SourceVersions \cup {v \in Versions : StrictKeyValidity(v) /\ ~EnforcedCanonJSON(v)}
InstantSources(v, e, a) ==
    LET RR == Required(v, e)
        timely == \A s \in RR : a[s] \in {"ok"} \cup TimeGood \cup TimeFaults
    IN {<<AllDB, FALSE>>}
       \cup (IF v \in InstantSourceVersions /\ ~PseudoIDs(v) /\ timely
             THEN {<<[s \in Servers |-> IF s = r THEN "fetcher" ELSE "db"], vl>> : r \in RR, vl \in BOOLEAN} \cup {<<AllDB, TRUE>>}
             ELSE {})

\* --- Batches --------------------------------------------------------------------------------------------
\* The key ring verifies many messages in one call.  A batch here: the scenario's event sent n times, message j
\* at instant ats[j], every one validly signed by every required server with that server's ONE key - except
\* message `bad` (0: none), whose signature of the sender's server is corrupted.  The other required servers'
\* keys are current ("cur").  The key of the sender's server is (kv):
\*   cur      current: valid_until_ts = now + 30 days
\*   vu / j   current, valid_until_ts = the instant of message j (not instant 0: 0 means none)
\*   exp / j  retired: expired_ts = the instant of message j (not 0; an instant in the past)
\*   notary / j  held by nobody but a notary-like key source, which has two signed copies of it: a cached one with
\*            valid_until_ts = the instant of message j and a fresh one (now + 30 days), and answers a request
\*            "valid until at least T" the way notaries do: the cached copy if it reaches T, else the fresh one.
\* where: the database ("db"), only the fetcher ("fetcher"), the notary ("notary").
\* The key sources are asked ONCE per key, for one instant: to serve every message of the batch that has to be
\* the latest instant the key is needed for - whatever that instant is (0 included).
NoBatch == [ats |-> <<>>, kv |-> "none", j |-> 0, bad |-> 0, where |-> "none"]
NoRes == [verds |-> <<>>, asked |-> "none"]
SeqsOver(S, n) == [1..n -> S]
BatchEvents(v) == {e \in Events(v) : /\ e.esrv = "s1" /\ ~e.via
                                     /\ \/ (e.kind = "nonmember" /\ e.etype = "m.room.message")
                                        \/ (e.kind = "invite" /\ e.tsrv = "s2")}
KeyModes(a, n) ==
    {<<"cur", 0, "db">>, <<"cur", 0, "fetcher">>}
    \cup {<<"vu", jj, w>> : w \in {"db", "fetcher"}, jj \in {x \in 1..n : a[x] # "at0"}}
    \cup {<<"exp", jj, "db">> : jj \in {x \in 1..n : a[x] # "at0" /\ Rank(a[x]) < NowRank}}
    \cup {<<"notary", jj, "notary">> : jj \in {x \in 1..n : a[x] # "at0"}}
\* (a corrupted message: with the plain key, wherever it is)
BatchesOf(a, n) ==
    UNION {{[ats |-> a, kv |-> k[1], j |-> k[2], bad |-> b, where |-> k[3]] : b \in (IF k[1] = "cur" THEN 0..n ELSE {0})} :
              k \in KeyModes(a, n)}
Batches(v) == UNION {UNION {BatchesOf(a, n) : a \in SeqsOver(InstantsOf(v) \cup {"normal"}, n)} : n \in BatchLens}

\* what a key source can say about a key: [vu: instant or "now30", exp: instant or "none"]
CurKey == [vu |-> "now30", exp |-> "none"]
VuRank(x) == IF x = "now30" THEN NowRank ELSE Rank(x)
\* valid at instant i under the room version's rule (strict: up to valid_until_ts, and not beyond 7 days from now;
\* a retired key: strictly before its expired_ts)
ValidAt(key, i, v) ==
    IF key.exp # "none" THEN Rank(i) < Rank(key.exp)
    ELSE ~StrictKeyValidity(v) \/ (Rank(i) <= VuRank(key.vu) /\ Rank(i) < NowRank)
Latest(ats) == CHOOSE i \in {ats[x] : x \in DOMAIN ats} : \A x \in DOMAIN ats : Rank(ats[x]) <= Rank(i)
\* what the key sources hand out for the key of the sender's server when asked for validity up to instant T
KeyGiven(b, T) ==
    CASE b.kv = "cur" -> CurKey
      [] b.kv = "vu" -> [vu |-> b.ats[b.j], exp |-> "none"]
      [] b.kv = "exp" -> [vu |-> "now30", exp |-> b.ats[b.j]]
      [] b.kv = "notary" -> IF Rank(T) <= Rank(b.ats[b.j]) THEN [vu |-> b.ats[b.j], exp |-> "none"] ELSE CurKey
\* message x of batch b, given that the sources were asked for instant T
MsgVerdict(v, e, b, x, T) ==
    /\ b.bad # x
    /\ ValidAt(KeyGiven(b, T), b.ats[x], v)
    /\ \A s \in Required(v, e) \ {"s1"} : ValidAt(CurKey, b.ats[x], v)

Init ==
    /\ \E v \in Versions : \E e \in Events(v) :
          /\ ver = v
          /\ ev = e
          /\ \/ (\E a \in Assignments(v, e) : \E k \in Sources(v, e, a) :
                    /\ sig = a /\ tm = "normal" /\ src = k[1] /\ vol = k[2] /\ bt = NoBatch
                    \* failing key sources: with everything signed well (what would otherwise succeed)
                    /\ fail \in (IF v \in SourceVersions /\ ~PseudoIDs(v) /\ FullFamily(e)
                                    /\ (\A s \in Servers : a[s] = IF s \in Required(v, e) THEN "ok" ELSE "absent")
                                 THEN (IF k = <<AllDB, FALSE>> THEN {"none", "db"}
                                       ELSE IF \E s \in Servers : k[1][s] \in {"direct", "persp"} THEN {"none"}
                                       ELSE {"none", "db", "fetcher"})
                                 ELSE {"none"})
                    /\ mapst \in (IF PseudoIDs(v) /\ e.kind = "join"
                                     /\ (\A s \in Servers : a[s] = IF s \in Required(v, e) THEN "ok" ELSE "absent")
                                  THEN {"ok", "missing", "corrupt"} ELSE {"ok"})
                    \* the federation presentation: with the plain key sources and silent other servers
                    \* (not the joins of pseudo-ID rooms: redaction drops their mxid_mapping, which is left out here)
                    /\ pres \in (IF k = <<AllDB, FALSE>> /\ (\A s \in Servers \ Required(v, e) : a[s] = "absent")
                                    /\ ~(PseudoIDs(v) /\ e.kind = "join")
                                    /\ fail = "none" /\ mapst = "ok"
                                 THEN {"trusted", "received"} ELSE {"trusted"}))
             \/ (~PseudoIDs(v) /\ FullFamily(e) /\ sig = [s \in Servers |-> IF s \in Required(v, e) THEN "ok" ELSE "absent"]
                 /\ tm \in {"future6d", "future8d"} /\ src = AllDB /\ vol = FALSE /\ pres = "trusted"
                 /\ fail = "none" /\ mapst = "ok" /\ bt = NoBatch)
             \* the ends of the time line
             \/ (e \in InstantEvents(v) /\ \E t \in InstantsOf(v) : \E a \in InstantAssignments(v, e, t) : \E k \in InstantSources(v, e, a) :
                    /\ sig = a /\ tm = t /\ src = k[1] /\ vol = k[2] /\ fail = "none" /\ mapst = "ok" /\ bt = NoBatch
                    /\ pres \in (IF k = <<AllDB, FALSE>> /\ ~(PseudoIDs(v) /\ e.kind = "join")
                                    /\ (\A s \in Required(v, e) : a[s] = "ok")
                                 THEN {"trusted", "received"} ELSE {"trusted"}))
             \* batches through one call of the key ring
             \/ (v \in BatchVersions /\ ~PseudoIDs(v) /\ e \in BatchEvents(v)
                 /\ sig = [s \in Servers |-> IF s \in Required(v, e) THEN "ok" ELSE "absent"]
                 /\ tm = "normal" /\ src = AllDB /\ vol = FALSE /\ pres = "trusted" /\ fail = "none" /\ mapst = "ok"
                 /\ bt \in Batches(v))
    /\ verdict = FALSE
    /\ bres = NoRes
    /\ phase = "init"

\* VerifyEventSignatures
Check ==
    /\ phase = "init" /\ bt = NoBatch
    /\ verdict' = (Verify(ver, ev, EffSig(sig, src, vol, fail), tm, pres) /\ mapst = "ok")
    /\ phase' = "done"
    /\ UNCHANGED <<ver, ev, sig, tm, src, vol, pres, fail, mapst, bt, bres>>

\* KeyRing.VerifyJSONs over the requests of all the messages of a batch: ask the sources for every key once, at
\* the latest instant it is needed for; then judge each message at its own instant
CheckBatch ==
    /\ phase = "init" /\ bt # NoBatch
    /\ LET T == Latest(bt.ats)
           vs == [x \in DOMAIN bt.ats |-> MsgVerdict(ver, ev, bt, x, T)]
       IN /\ bres' = [verds |-> vs, asked |-> T]
          /\ verdict' = \A x \in DOMAIN bt.ats : vs[x]
    /\ phase' = "done"
    /\ UNCHANGED <<ver, ev, sig, tm, src, vol, pres, fail, mapst, bt>>

Next == Check \/ CheckBatch
Spec == Init /\ [][Next]_vars

Done == phase = "done"
Single == Done /\ bt = NoBatch
R == RequiredP(ver, ev, pres)

\* --- the property, restated over the outcome (independent of Verify) -------------------------------
\* what a signature covers, per room version: sanity of the keep sets handed to the replay
PCovers ==
    /\ "membership" \in KeptCon(ver, ev) <=> ev.kind # "nonmember"
    /\ (ev.kind = "nonmember" /\ ev.etype = "m.room.aliases" => (("aliases" \in KeptCon(ver, ev)) <=> BaseOf(ver) <= 5))
    /\ (ev.kind = "nonmember" /\ ev.etype = "m.room.create" => (KeptCon(ver, ev) = IF BaseOf(ver) >= 11 THEN ContentKeysOf(ver, ev) ELSE {"creator"}))
    /\ (ev.kind = "nonmember" /\ ev.etype = "m.room.join_rules" => (("allow" \in KeptCon(ver, ev)) <=> BaseOf(ver) >= 8))
    /\ (ev.kind = "nonmember" /\ ev.etype = "m.room.power_levels" => (("invite" \in KeptCon(ver, ev)) <=> BaseOf(ver) >= 11))
    /\ (ev.kind = "nonmember" /\ ev.etype = "m.room.redaction" => (("redacts" \in KeptCon(ver, ev)) <=> BaseOf(ver) >= 11))
    /\ (ev.kind = "nonmember" /\ ev.etype = "m.room.message" => KeptCon(ver, ev) = {})
    /\ (ev.via => (("join_authorised_via_users_server" \in KeptCon(ver, ev)) <=> BaseOf(ver) >= 9))
    /\ (ev.kind = "invite" => ((NestedKey \in KeptCon(ver, ev)) <=> BaseOf(ver) >= 11) /\ (BaseOf(ver) >= 11 => KeptTpi(ver, ev) = {"signed"}))
TypeOK == /\ ev.kind \in Kinds /\ ev.tsrv \in Servers /\ ev.asrv \in Servers /\ ev.esrv \in Servers
          /\ \A s \in Servers : sig[s] \in GoodStates \cup Faults
          /\ tm \in TimeModes
          /\ (bt = NoBatch \/ (Len(bt.ats) \in BatchLens /\ bt.bad \in 0..Len(bt.ats) /\ bt.j \in 0..Len(bt.ats)))
          /\ (Done /\ bt # NoBatch => Len(bres.verds) = Len(bt.ats))
\* succeeds exactly when every required server validly signed
PExact == Single => (verdict <=> (mapst = "ok" /\ \A s \in R : Good(Eff(sig[s], src[s], vol, fail), tm, ver) = TRUE))
\* a key source that fails never makes an event verify
PFail == Single => /\ (fail = "db" /\ R # {} => ~verdict)
                 /\ (fail # "none" => (verdict => Verify(ver, ev, EffSig(sig, src, vol, "none"), tm, pres)))
\* an expired key is final, and where the keys come from matters only to a key held past its valid_until_ts
PSources == Single => /\ (\A s \in R : sig[s] = "expired" => ~verdict)
                    /\ ((fail = "none" /\ mapst = "ok" /\ \A s \in R : sig[s] \notin {"after_vu", "vu_m1"}) => verdict = Verify(ver, ev, sig, tm, pres))
                    /\ (~vol /\ fail = "none" /\ mapst = "ok" => verdict = Verify(ver, ev, sig, tm, pres))
\* a missing / corrupted / wrong-key / out-of-validity signature from any one required server makes it fail
POneBad == Single => (\A s \in R : sig[s] \in {"absent", "corrupt", "stale", "stale_kept", "wrongkey", "unknownkey", "expired", "exp_eq", "malformed", "vouched"} => ~verdict)
\* signatures of other servers never matter
POthers == (Single /\ mapst = "ok") => verdict = Verify(ver, ev, [s \in Servers |-> IF s \in R THEN Eff(sig[s], src[s], vol, fail) ELSE "absent"], tm, pres)
\* sanity of Required
PRequired ==
    /\ "s1" \in R
    /\ (ev.kind = "invite" => ev.tsrv \in R)
    /\ (ev.kind \notin {"invite", "join"} /\ EventIDFormat(ver) # 1 => R = {"s1"})
    /\ (ev.kind = "join" /\ ev.via /\ BaseOf(ver) >= 8 /\ ver # "org.matrix.msc3667" /\ (pres = "trusted" \/ BaseOf(ver) >= 9)
            => ev.asrv \in R)
    /\ (pres = "received" /\ ver = "8" /\ ev.kind = "join" => R = {"s1"})
    /\ (BaseOf(ver) < 8 /\ ev.kind = "join" /\ EventIDFormat(ver) # 1 => R = {"s1"})
    /\ Cardinality(R) <= 3
\* strictness only ever matters through the validity period
PStrict == (Single /\ InThePast(tm) /\ fail = "none" /\ mapst = "ok" /\ \A s \in R : sig[s] \notin {"after_vu", "vu_m1"}) =>
              (verdict <=> \A s \in R : sig[s] \in GoodStates)
\* the ends of the time line are instants like any other: 0 and 1 get the verdict of any instant in the past, the
\* far ones that of any instant more than 7 days ahead
PInstants == Single =>
    /\ (tm \in {"at0", "at1"} => verdict = (Verify(ver, ev, EffSig(sig, src, vol, fail), "normal", pres) /\ mapst = "ok"))
    /\ (tm \in {"atwrap", "atmax"} => verdict = (Verify(ver, ev, EffSig(sig, src, vol, fail), "future8d", pres) /\ mapst = "ok"))
    /\ (tm \in Instants => \A s \in Servers : sig[s] \notin Unrealisable(tm))
    /\ (tm \in {"at0", "at1"} /\ (\A s \in R : sig[s] = "ok") => verdict)

\* --- batches: the property, restated over the outcome (independent of the one-request mechanics) ----
Batch == Done /\ bt # NoBatch
\* being verified together with other messages changes nothing: every message gets the verdict it gets alone
\* (the sources asked for just its own instant)
PBatchAlone == Batch => \A x \in DOMAIN bt.ats : bres.verds[x] = MsgVerdict(ver, ev, bt, x, bt.ats[x])
\* the one request serves every message: it is for an instant of the batch that no message lies after
PBatchAsk == Batch => /\ \E x \in DOMAIN bt.ats : bres.asked = bt.ats[x]
                      /\ \A x \in DOMAIN bt.ats : Rank(bt.ats[x]) <= Rank(bres.asked)
\* a corrupted signature never verifies, and spoils no other message; without strict validity only it and a
\* retired key can fail a message; a current key of 30 days serves every message in the past
PBatchSane == Batch =>
    /\ (bt.bad # 0 => ~bres.verds[bt.bad])
    /\ (~StrictKeyValidity(ver) /\ bt.kv # "exp" => \A x \in DOMAIN bt.ats : bres.verds[x] = (x # bt.bad))
    /\ (bt.kv \in {"cur", "notary"} => \A x \in DOMAIN bt.ats : Rank(bt.ats[x]) < NowRank /\ x # bt.bad => bres.verds[x])
    /\ (StrictKeyValidity(ver) => \A x \in DOMAIN bt.ats : Rank(bt.ats[x]) > NowRank => ~bres.verds[x])
=============================================================================
