SPECIFICATION Spec
CONSTANTS
  Secrets = {"k1", "K64a", "K64b", "K32", "K33", "K16"}
  Users = {"@alice:example.org", "@bob:example.org"}
  Durations = {0}
  Offsets <- OffsetsKeys
  MaxAlter = 0
INVARIANTS TypeOK Sound Complete RevealsUser Emit
CHECK_DEADLOCK FALSE
