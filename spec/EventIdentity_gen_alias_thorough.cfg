SPECIFICATION Spec
CONSTANTS
  Versions <- VersionsAll
  Family = "alias"
  ShapeIds <- ShapesAlias
  VariantIds <- Variants124
  MaxOps = 0
  Alphabet <- NoOps
  PreOps <- PreAlias
  SibFields <- NoFields
  SidPairs <- NoSid
  TamperMax = 0
INVARIANTS TypeOK PIdStable PRoundTrip PRedactKeeps PV12 PBuildOrRefuse PAliasIndependent PAliasEdited Emit
CHECK_DEADLOCK FALSE
