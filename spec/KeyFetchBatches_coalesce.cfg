SPECIFICATION FairSpec
CONSTANTS
  Batches = {"b1", "b2"}
  Servers = {"s1", "s2"}
  Reqs <- OverlappingReqs
  Behaviours = {"direct", "notary", "down", "flaky"}
  Cancellable = {"b1", "b2"}
  Coalesce = TRUE
INVARIANTS TypeOK LiveCallerGetsWhatTheServersAnswer NothingFromADeadServer OwnFetchesOnly TransientFaultHitsOneCaller NothingEarly

