\* KeyLife_gen_deep_thorough.cfg: every transition: 2 key IDs, ticks 0..4 (longer horizon: renewals, both keys past validity), both fetcher orders
SPECIFICATION GSpec
CONSTANTS
  Mode = "cover"
  NK = 2
  MaxT = 4
  MaxRot = 1
  MaxReq = 3
  V = 2
  Orders <- BothOrders
  NModes <- NAny
  Sigs <- SGood
  ReqTS <- TS04
  Rules <- RBoth
  StoreRule = "monotone"
VIEW View
INVARIANTS TypeOK Sound Complete NoNeedlessContact InOrder ExpiredDecides KnownExpiry OldKeyStillVerifies DBMonotone ExpiredIsFinal NothingInvented StoredFetched Continuity LastDB OutageHarmless OutageInHistory Again RetiredForGood Sanity Emit
PROPERTIES EnvLeavesDB EveryCallOK
CHECK_DEADLOCK FALSE
