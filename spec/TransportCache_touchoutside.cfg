SPECIFICATION Spec
CONSTANTS
  Procs = {"c1", "c2"}
  Names = {"a", "b"}
  MaxCalls = 1
  MaxAge = 1
  MaxReap = 2
  Faults = TRUE
  SplitGet = FALSE
  TouchOutside = TRUE
VIEW View
INVARIANTS TypeOK OneTransportPerName ReaperNeverMeetsAnUnstampedTransport
