----------------------------- MODULE Sticky_gen -----------------------------
EXTENDS Sticky, Json
InstantsQ == {1000000000, 1000000001, 1003599999, 1003600000, 1003600001, 1007200000, 999000000}
DurationsQ == {0, 1, 60000, 3600000, 3600001, 86400000}
Emit == phase = "queried" => PrintT(ToJson([ts |-> ev.ts, stable |-> ev.stable, unstable |-> ev.unstable, received |-> received,
                                      now |-> now, sticky |-> out.sticky, endtime |-> out.endtime]))
=============================================================================
