SPECIFICATION BSpec
CONSTANTS
  ByteAlphabet = "small"
  MaxBytes = 3
  Mode = "free"
  FreeLen = 0
  MaxDev = 0
INVARIANTS RoundTrip Injective AlphabetsAgree UnpaddedLength BEmit
CHECK_DEADLOCK FALSE
