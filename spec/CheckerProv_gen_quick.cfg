SPECIFICATION Spec
CONSTANTS
  MaxOps = 3
  Lookup = "tuple"
  Rooms = "held"
INVARIANTS ReadsLastAdd ValidHeld OwnPair Emit
CHECK_DEADLOCK FALSE
