\* widest family: meant for seeded simulation (checks/c12.py passes -simulate); far too large for exhaustive search
SPECIFICATION Spec
CONSTANTS
  Families = {"batch"}
  Tier = "thorough"
VIEW View
INVARIANTS OneResultEach Sound Complete SoundOnScenario OnlyNeeded InOrder NothingWithoutKeys StoredFetched NothingInvented TopErrOnlyDB ClassSane Emit
CHECK_DEADLOCK FALSE
