------------------------------ MODULE StateRes ------------------------------
(***************************************************************************)
(* C10 / C11 - state resolution v1, v2 and v2.1, transcribed stage by      *)
(* stage from the Matrix specification (room versions 1, 2, 12) with the   *)
(* tie-breaking refinements R1..R8 of DESIGN.md section 5.2 as named       *)
(* operators.  Everything here is a pure function of                       *)
(*   E    - the event store: a function id -> event record                 *)
(*   Sets - a sequence of state sets (sets of event ids, one per key)      *)
(*   v    - the room version (selects the algorithm and the auth rules)    *)
(*                                                                         *)
(* Event record: [type, sender, skey, membership, plu, jr, prev, auth,     *)
(*                depth, ts, idr, sha, rejected, addl, pud, spell]         *)
(*   type in {"create","member","pl","jr","topic"}; skey = target user of  *)
(*   a member event; "" otherwise, or "x" (a non-empty state key that is   *)
(*   no user ID) on a pl / jr event: such an event has the TYPE of a       *)
(*   control event but is an ordinary entry of the state map under its own *)
(*   key - the room's power levels / join rules are the events with the    *)
(*   empty state key only; the auth rules judge it by its type; plu = the users map and pud = the       *)
(*   users_default of a power-levels content (Absent = key not present;    *)
(*   the other thresholds keep their defaults in room models);             *)
(*   prev / auth = sets of ids; ts = timestamp rank; idr = rank of the     *)
(*   event ID in lexicographic order; sha = rank of SHA-1(event ID).       *)
(*   spell = how a power-levels content WRITES its levels (`users` entries *)
(*   and users_default): "int" (JSON integers), "str" ("50"), "strpad"     *)
(*   ("  50 "), "float" (50.0), "frac" (50.5, read as 50).  Room versions  *)
(*   1-9 read the same level from each (Auth.tla ParseOK / A11; floats     *)
(*   only exist before version 6, which enforces canonical JSON);          *)
(*   integer-only versions reject the event.  EVERY reader                 *)
(*   of a level - the auth rules AND the sender power of the power         *)
(*   ordering (R2) - reads it as the room version does: the spelling never *)
(*   changes a level (LevelsSpellingFree below); "int" on other events.    *)
(*   depth = the sender-chosen int64 depth as a RANK: the definition (v1   *)
(*   only) reads nothing but the order of depths, so every strictly        *)
(*   increasing realisation - small naturals, or values more than 2^63     *)
(*   apart, negative ones included - defines the same state                *)
(*   (V1DepthRankOnly, V1StrictTotal below); v2 / v2.1 and the topological *)
(*   orderings never read it (depths running against the DAG included).    *)
(***************************************************************************)
EXTENDS Auth, SequencesExt

KeyOf(E, e) == <<E[e].type, E[e].skey>>
NoUsers == [u \in Users |-> Absent]
PLSpellings == {"int", "str", "strpad", "float", "frac"}
\* the spellings an event of a room version can carry and the version reads (an unread one makes the power-levels
\* event unparseable: rule 10 rejects it; a float is no canonical JSON: from version 6 on no event contains one)
SpellAdmitted(v, s) == \/ s = "int"
                       \/ ~IntegerPowerLevels(v) /\ s \in {"str", "strpad"}
                       \/ ~IntegerPowerLevels(v) /\ ~EnforcedCanonJSON(v) /\ s \in {"float", "frac"}
PLCOf(E, e) == [EmptyPL EXCEPT !.users = E[e].plu, !.users_default = E[e].pud,
                               !.spkind = E[e].spell, !.spk = IF E[e].spell = "int" THEN "" ELSE "users"]
\* the levels a content gives, whatever its (admitted) spelling
LevelsOf(c) == [users |-> c.users, users_default |-> c.users_default]

AllIds(Sets) == UNION {Sets[i] : i \in DOMAIN Sets}
ForKey(E, S, k) == {e \in S : KeyOf(E, e) = k}

(***************************************************************************)
(* Conflicted / unconflicted split                                         *)
(***************************************************************************)
\* v2, v2.1: (K, V) is unconflicted iff K is present in every state set with the same value V
UnconflictedV2(E, Sets) ==
    {e \in AllIds(Sets) : /\ ForKey(E, AllIds(Sets), KeyOf(E, e)) = {e}
                          /\ \A i \in DOMAIN Sets : e \in Sets[i]}
\* v1: a conflict exists only where two state sets have different events for the same key
UnconflictedV1(E, Sets) == {e \in AllIds(Sets) : ForKey(E, AllIds(Sets), KeyOf(E, e)) = {e}}

(***************************************************************************)
(* Auth chains, auth difference, conflicted subgraph (v2.1)                *)
(***************************************************************************)
RECURSIVE ReachFrom(_, _, _)
ReachFrom(E, frontier, seen) ==
    LET nxt == (UNION {E[e].auth : e \in frontier}) \ seen IN
    IF nxt = {} THEN seen ELSE ReachFrom(E, nxt, seen \cup nxt)

\* the auth chain of a set of events: everything reachable through auth_events
ChainOf(E, X) == ReachFrom(E, X, {})
ReachesOrIs(E, a, b) == a = b \/ b \in ChainOf(E, {a})

AuthDifference(E, Sets) ==
    LET chains == [i \in DOMAIN Sets |-> ChainOf(E, Sets[i])] IN
    (UNION {chains[i] : i \in DOMAIN Sets}) \ {e \in DOMAIN E : \A i \in DOMAIN Sets : e \in chains[i]}

\* v2.1: every event on an auth path from one conflicted event to another (ends included)
ConflictedSubgraph(E, C) ==
    {x \in DOMAIN E : \E c1 \in C, c2 \in C : ReachesOrIs(E, c1, x) /\ ReachesOrIs(E, x, c2)}

(***************************************************************************)
(* Power events (R8) and the rest                                          *)
(***************************************************************************)
\* (the power levels / join rules of the room: the empty state key; a pl / jr event under another key cannot take
\* anybody's ability away and is ordered with the rest)
IsControl(E, e) ==
    \/ KeyOf(E, e) \in {<<"pl", "">>, <<"jr", "">>}
    \/ E[e].type = "member" /\ E[e].skey # E[e].sender /\ E[e].membership \in {"leave", "ban"}

\* R8: a power event pulls in, recursively, those of its auth events that are in the conflicted set
RECURSIVE PullIn(_, _, _, _)
PullIn(E, C, frontier, seen) ==
    LET nxt == ((UNION {E[e].auth : e \in frontier}) \cap C) \ seen IN
    IF nxt = {} THEN seen ELSE PullIn(E, C, nxt, seen \cup nxt)

PowerEvents(E, C, Full, U) ==
    LET ctl == {p \in Full \ U : IsControl(E, p)} IN
    ctl \cup PullIn(E, C, ctl, {})

(***************************************************************************)
(* Reverse topological power ordering (R1, R2, R5)                         *)
(***************************************************************************)
\* (the room's create event: the one under the empty state key)
CreateId(E) == CHOOSE e \in DOMAIN E : KeyOf(E, e) = <<"create", "">>
CreatorsOf(E) == {E[CreateId(E)].sender} \cup E[CreateId(E)].addl   \* create sender + additional_creators

\* R2: the sender's power is read from the power-levels event among the event's own auth events; it is the
\* effective level that content gives the sender: the `users` entry, or users_default for a sender it does not list
SenderPower(E, v, e) ==
    IF PrivilegedCreators(v) /\ E[e].sender \in CreatorsOf(E) THEN Inf
    ELSE LET pls == {a \in E[e].auth : KeyOf(E, a) = <<"pl", "">>} IN
         IF pls = {} THEN R0
         ELSE LET c == PLCOf(E, CHOOSE a \in pls : TRUE) IN Eff(c.users[E[e].sender], Thr(c, "users_default"))

\* the comparison used to keep the ready list sorted: power descending, timestamp ascending, event ID ascending
PowerBefore(E, v, a, b) ==
    LET pa == SenderPower(E, v, a)  pb == SenderPower(E, v, b) IN
    \/ pa > pb
    \/ pa = pb /\ E[a].ts < E[b].ts
    \/ pa = pb /\ E[a].ts = E[b].ts /\ E[a].idr < E[b].idr

\* R1: Kahn's algorithm from the leaves: the LAST element of the sorted ready list is removed and PREPENDED
RECURSIVE KahnAuth(_, _, _, _, _)
KahnAuth(E, v, remaining, indeg, out) ==
    LET ready == {e \in remaining : indeg[e] = 0} IN
    IF ready = {} THEN
        \* R5: left-over events (none for acyclic duplicate-free input) go before the ordered part
        IF remaining = {} THEN out
        ELSE SetToSortSeq(remaining, LAMBDA a, b : PowerBefore(E, v, a, b)) \o out
    ELSE LET last == CHOOSE e \in ready : \A f \in ready \ {e} : PowerBefore(E, v, f, e)
             indeg2 == [x \in DOMAIN indeg |-> IF x \in E[last].auth THEN indeg[x] - 1 ELSE indeg[x]]
         IN KahnAuth(E, v, remaining \ {last}, indeg2, <<last>> \o out)

PowerOrder(E, v, X) ==
    LET indeg == [x \in X |-> Cardinality({y \in X : x \in E[y].auth})] IN
    KahnAuth(E, v, X, indeg, <<>>)

(***************************************************************************)
(* Iterative auth checks against the partial state, with fallback to the   *)
(* event's own non-rejected auth events                                    *)
(***************************************************************************)
\* abstract view (Auth.tla vocabulary) of a set S of state events
StOf(E, S) ==
    LET cr == ForKey(E, S, <<"create", "">>)
        pl == ForKey(E, S, <<"pl", "">>)
        jr == ForKey(E, S, <<"jr", "">>)
        memOf(u) == ForKey(E, S, <<"member", u>>)
    IN [create |-> [BaseSt.create EXCEPT !.present = cr # {},
                                        !.addl = IF cr = {} THEN {} ELSE E[CHOOSE c \in cr : TRUE].addl],
        pl |-> IF pl = {} THEN [present |-> FALSE, c |-> EmptyPL]
               ELSE [present |-> TRUE, c |-> PLCOf(E, CHOOSE p \in pl : TRUE)],
        jr |-> IF jr = {} THEN "absent" ELSE E[CHOOSE j \in jr : TRUE].jr,
        mem |-> [u \in Users |-> IF memOf(u) = {} THEN "absent" ELSE E[CHOOSE m \in memOf(u) : TRUE].membership],
        tpi |-> "absent", tpisender |-> "creator", mixedrooms |-> FALSE]

\* Auth.tla's state-key vocabulary: the rules only ask whether there is a state key and whether it names a user
SKeyOf(r) == IF r.skey = "" THEN "empty" ELSE "other"

EvOf(E, e) ==
    LET r == E[e] IN
    CASE r.type = "create" -> [BaseEv EXCEPT !.type = "create", !.sender = r.sender, !.skey = "empty"]
      [] r.type = "member" -> [MemberEv(r.sender, r.skey, r.membership)
                                 EXCEPT !.prev = IF r.prev = {CreateId(E)} THEN "create_only" ELSE "other"]
      [] r.type = "pl" -> [BaseEv EXCEPT !.type = "pl", !.sender = r.sender, !.skey = SKeyOf(r), !.newpl = PLCOf(E, e)]
      [] r.type = "jr" -> [BaseEv EXCEPT !.type = "jr", !.sender = r.sender, !.skey = SKeyOf(r)]
      [] OTHER -> [BaseEv EXCEPT !.type = "topic", !.sender = r.sender, !.skey = "empty"]

NeededKeys(E, e) ==
    LET n == Needed(EvOf(E, e)) IN
    (IF n.create THEN {<<"create", "">>} ELSE {}) \cup (IF n.pl THEN {<<"pl", "">>} ELSE {})
      \cup (IF n.jr THEN {<<"jr", "">>} ELSE {}) \cup {<<"member", u>> : u \in n.members}

\* the auth state an event is judged against: the partial state where it has the key, otherwise the event's own
\* auth event for that key if it is not rejected
AuthStateFor(E, P, e) ==
    UNION {IF ForKey(E, P, k) # {} THEN ForKey(E, P, k)
           ELSE {a \in E[e].auth : KeyOf(E, a) = k /\ ~E[a].rejected} : k \in NeededKeys(E, e)}

AllowedAt(E, v, S, e) == Allowed(v, StOf(E, S), EvOf(E, e))

ApplyTo(E, P, e) == (P \ ForKey(E, P, KeyOf(E, e))) \cup {e}

RECURSIVE IterAuth(_, _, _, _, _)
IterAuth(E, v, seq, i, P) ==
    IF i > Len(seq) THEN P
    ELSE LET e == seq[i] IN
         IterAuth(E, v, seq, i + 1, IF AllowedAt(E, v, AuthStateFor(E, P, e), e) THEN ApplyTo(E, P, e) ELSE P)

(***************************************************************************)
(* Power-level mainline (R3, R4) and mainline ordering                     *)
(***************************************************************************)
PLAuthOf(E, e) == {a \in E[e].auth : KeyOf(E, a) = <<"pl", "">>}

RECURSIVE MainlineFrom(_, _)
MainlineFrom(E, p) ==      \* oldest first
    IF PLAuthOf(E, p) = {} THEN <<p>> ELSE MainlineFrom(E, CHOOSE a \in PLAuthOf(E, p) : TRUE) \o <<p>>

Mainline(E, P) ==
    LET pl == ForKey(E, P, <<"pl", "">>) IN IF pl = {} THEN <<>> ELSE MainlineFrom(E, CHOOSE p \in pl : TRUE)

PosIn(ml, x) == IF \E i \in DOMAIN ml : ml[i] = x THEN (CHOOSE i \in DOMAIN ml : ml[i] = x) - 1 ELSE -1

\* R3: (position of the closest mainline ancestor, power-level hops needed to reach it)
RECURSIVE Closest(_, _, _, _)
Closest(E, ml, e, steps) ==
    IF PLAuthOf(E, e) = {} THEN <<0, steps>>
    ELSE LET a == CHOOSE x \in PLAuthOf(E, e) : TRUE IN
         IF PosIn(ml, a) >= 0 THEN <<PosIn(ml, a), steps>> ELSE Closest(E, ml, a, steps + 1)

MainlineBefore(E, ml, a, b) ==
    LET ka == Closest(E, ml, a, 0)  kb == Closest(E, ml, b, 0) IN
    \/ ka[1] < kb[1]
    \/ ka[1] = kb[1] /\ ka[2] < kb[2]
    \/ ka[1] = kb[1] /\ ka[2] = kb[2] /\ E[a].ts < E[b].ts
    \/ ka[1] = kb[1] /\ ka[2] = kb[2] /\ E[a].ts = E[b].ts /\ E[a].idr < E[b].idr

MainlineOrder(E, ml, X) == SetToSortSeq(X, LAMBDA a, b : MainlineBefore(E, ml, a, b))

RECURSIVE ApplyAll(_, _, _)
ApplyAll(E, P, S) == IF S = {} THEN P ELSE LET e == CHOOSE x \in S : TRUE IN ApplyAll(E, ApplyTo(E, P, e), S \ {e})

(***************************************************************************)
(* v2 and v2.1                                                             *)
(***************************************************************************)
StagesV2(E, v, Sets) ==
    LET U == UnconflictedV2(E, Sets)
        C == AllIds(Sets) \ U
        D == AuthDifference(E, Sets)
        G == IF StateRes(v) = "v2.1" THEN ConflictedSubgraph(E, C) ELSE {}
        Full == C \cup D \cup G
        Pow == PowerEvents(E, C, Full, U)
        Oth == {p \in Full \ U : ~IsControl(E, p) /\ p \notin Pow}
        porder == PowerOrder(E, v, Pow)
        P0 == IF StateRes(v) = "v2.1" THEN {} ELSE U          \* R6 / v2.1 starts from the empty state
        P1 == IterAuth(E, v, porder, 1, P0)
        ml == Mainline(E, P1)
        morder == MainlineOrder(E, ml, Oth)
        P2 == IterAuth(E, v, morder, 1, P1)
        P3 == ApplyAll(E, P2, U)
    IN [unconflicted |-> U, conflicted |-> C, authdiff |-> D, subgraph |-> G, power |-> porder,
        mainline |-> ml, others |-> morder, afterpower |-> P1, result |-> P3]

(***************************************************************************)
(* v1 (R7)                                                                 *)
(***************************************************************************)
\* depth ascending, SHA-1 of the event ID descending
V1Before(E, a, b) == E[a].depth < E[b].depth \/ (E[a].depth = E[b].depth /\ E[a].sha > E[b].sha)
V1Sorted(E, X) == SetToSortSeq(X, LAMBDA a, b : V1Before(E, a, b))

\* auth-type block: the last event of the longest prefix in which every event is allowed by its predecessor's state
RECURSIVE V1AuthWalk(_, _, _, _, _, _)
V1AuthWalk(E, v, block, i, A, cur) ==
    IF i > Len(block) THEN cur
    ELSE IF AllowedAt(E, v, A, block[i])
         THEN V1AuthWalk(E, v, block, i + 1, ApplyTo(E, A, block[i]), block[i])
         ELSE cur

V1ResolveAuthBlock(E, v, A, X) ==
    LET block == V1Sorted(E, X) IN V1AuthWalk(E, v, block, 2, ApplyTo(E, A, block[1]), block[1])

\* other block: the newest allowed event, falling back to the oldest
V1ResolveNormalBlock(E, v, A, X) ==
    LET block == V1Sorted(E, X)
        ok == {i \in 2..Len(block) : AllowedAt(E, v, A, block[i])} IN
    IF ok = {} THEN block[1] ELSE block[CHOOSE i \in ok : \A j \in ok : j <= i]

ResultV1(E, v, Sets) ==
    LET U == UnconflictedV1(E, Sets)
        C == AllIds(Sets) \ U
        \* the events the auth rules read: members, and the create / power-levels / join-rules events of the room
        \* (empty state key); an event of one of these types under another key is resolved with the other events
        isAuthType(e) == E[e].type = "member" \/ KeyOf(E, e) \in {<<"create", "">>, <<"pl", "">>, <<"jr", "">>}
        A0 == {e \in U : isAuthType(e)}                         \* one auth event per state key
        keysOf(t) == {KeyOf(E, e) : e \in {c \in C : E[c].type = t /\ isAuthType(c)}}
        stage(A, t) == A \cup {V1ResolveAuthBlock(E, v, A, ForKey(E, C, k)) : k \in keysOf(t)}
        A1 == stage(A0, "create")
        A2 == stage(A1, "pl")
        A3 == stage(A2, "jr")
        A4 == stage(A3, "member")                               \* members registered only after all are resolved
        otherKeys == {KeyOf(E, e) : e \in {c \in C : ~isAuthType(c)}}
        others == {V1ResolveNormalBlock(E, v, A4, ForKey(E, C, k)) : k \in otherKeys}
    IN (A4 \ A0) \cup others \cup U

(***************************************************************************)
(* The entry point                                                         *)
(***************************************************************************)
Resolve(E, v, Sets) == IF StateRes(v) = "v1" THEN ResultV1(E, v, Sets) ELSE StagesV2(E, v, Sets).result

\* C11's structural clauses, as properties of the definition
WellFormedR(E, Sets, R) ==
    /\ R \subseteq DOMAIN E                                                           \* only supplied events (state sets and their auth chains)
    /\ \A a \in R, b \in R : KeyOf(E, a) = KeyOf(E, b) => a = b                        \* one event per key
    /\ \A e \in AllIds(Sets) : (\A i \in DOMAIN Sets : e \in Sets[i]) /\ ForKey(E, AllIds(Sets), KeyOf(E, e)) = {e}
                                  => e \in R                                          \* agreed keys are kept
    /\ ((\A i \in DOMAIN Sets : Sets[i] = Sets[1]) => R = Sets[1])                     \* equal sets are a fixed point
WellFormed(E, v, Sets) == WellFormedR(E, Sets, Resolve(E, v, Sets))

(***************************************************************************)
(* Lemmas of the definition (checked by TLC on every emitted query): they  *)
(* are what licenses the concretiser to vary a dimension the definition    *)
(* does not read, and the metamorphic variants of C11                      *)
(***************************************************************************)
\* spelling: how a power-levels event writes its levels changes neither the sender power of the power ordering (R2)
\* nor the resolved state
Respelled(E, s) == [i \in DOMAIN E |-> IF E[i].type = "pl" THEN [E[i] EXCEPT !.spell = s] ELSE E[i]]
LevelsSpellingFree(E, v, Sets) ==
    /\ \A e \in DOMAIN E : SenderPower(E, v, e) = SenderPower(Respelled(E, "int"), v, e)
    /\ \A e \in DOMAIN E : E[e].type = "pl" => LevelsOf(PLCOf(E, e)) = LevelsOf(PLCOf(Respelled(E, "int"), e))

\* v1: the order of a conflicted block is a strict total order (event IDs, hence SHA-1 ranks, are distinct) ...
V1StrictTotal(E, X) ==
    /\ \A a \in X, b \in X : a # b => (V1Before(E, a, b) # V1Before(E, b, a))
    /\ \A a \in X, b \in X, c \in X : V1Before(E, a, b) /\ V1Before(E, b, c) => V1Before(E, a, c)
\* ... that reads the depths through their order only: a strictly increasing re-numbering (here one that makes the
\* low depths negative) resolves to the same state.  The concretiser realises depth ranks as int64 values of its
\* choice, including values more than 2^63 apart.
Stretched(E) == [i \in DOMAIN E |-> [E[i] EXCEPT !.depth = 7 * @ - 50]]
V1DepthRankOnly(E, v, Sets) == ResultV1(Stretched(E), v, Sets) = ResultV1(E, v, Sets)

\* padding: an event of a control TYPE (or any type) under a state key of its own that every state set holds and
\* nothing cites is an ordinary agreed entry: it is kept and changes nothing else.  t: its type
PadEvent(E, t) ==
    [E[CreateId(E)] EXCEPT !.type = t, !.skey = "p", !.prev = {CreateId(E)}, !.auth = {CreateId(E)}, !.depth = 2,
                           !.jr = IF t = "jr" THEN "invite" ELSE "", !.idr = 0, !.sha = 0, !.addl = {}]
PadNeutral(E, v, Sets, t) ==
    LET x == Len(E) + 1
        EP == Append(E, PadEvent(E, t))
        SP == [k \in DOMAIN Sets |-> Sets[k] \cup {x}]
    IN Resolve(EP, v, SP) = Resolve(E, v, Sets) \cup {x}
=============================================================================
