---------------------------- MODULE DNSCache_gen ----------------------------
(* Schedule emission for the replay against the real fclient.DNSCache.          *)
(*                                                                              *)
(* In the code the only yield points of a call are the resolver call and the    *)
(* dial (both outside the mutex); everything between two yield points runs      *)
(* without a hook for the harness.  The wrapper therefore gives priority to a    *)
(* process that is between yield points ("urgent"): resolver answer -> L2Lock -> *)
(* L2Evict* -> L2Insert, and dial failure -> DelRetry -> L1Retry, run without    *)
(* interleaving.  (ResolveOk and DialFail only write process-local state, so     *)
(* every behaviour of DNSCache is equivalent to one in which they immediately    *)
(* precede the critical section that follows; the interleavings between          *)
(* DelRetry and L1Retry are checked by TLC on DNSCache itself and left to the    *)
(* race detector on the code.)                                                  *)
(*                                                                              *)
(* `hist` records every step together with the model's observable state after    *)
(* it; it is printed as one JSON schedule at every terminal state.               *)
EXTENDS DNSCache, Sequences, Json

VARIABLE hist

gvars == <<vars, hist>>

Urgent(p) == loc[p].pc \in {"L2", "L2loop", "delretry", "L1"}
MayMove(p) == \A q \in Procs : Urgent(q) => q = p
Quiet == \A q \in Procs : ~Urgent(q)

(* hosts of the map ordered by expiry rank (ascending): the eviction order *)
RECURSIVE Sorted(_)
Sorted(f) == IF DOMAIN f = {} THEN << >>
             ELSE LET o == Oldest(f) IN <<[h |-> o, vh |-> f[o].val.h, v |-> f[o].val.v, fresh |-> Fresh(f[o])]>> \o Sorted(Without(f, o))

Rec(a, p) == [a |-> a, p |-> p,
              h |-> IF p \in Procs THEN loc[p].host' ELSE "",
              k |-> IF p \in Procs THEN loc[p].kind' ELSE "",
              v |-> IF p \in Procs THEN loc[p].ans'.v ELSE 0,
              at |-> IF p \in Procs THEN loc[p].pc' ELSE "",
              st |-> IF p \in Procs THEN loc[p].status' ELSE "",
              gh |-> IF p \in Procs THEN loc[p].got'.h ELSE "",
              gv |-> IF p \in Procs THEN loc[p].got'.v ELSE 0,
              c |-> IF p \in Procs THEN loc[p].cached' ELSE FALSE,
              q |-> (\A x \in Procs : loc[x].pc' \notin {"L2", "L2loop", "delretry", "L1"}),
              ents |-> Sorted(entries')]

Log(a, p) == hist' = Append(hist, Rec(a, p))

GInit == Init /\ hist = << >>

GStep(p) ==
  /\ MayMove(p)
  /\ \/ L1Retry(p) /\ Log("l1retry", p)
     \/ ResolveOk(p) /\ Log("resolve_ok", p)
     \/ ResolveFail(p) /\ Log("resolve_fail", p)
     \/ L2Lock(p) /\ Log("l2lock", p)
     \/ L2Evict(p) /\ Log("evict", p)
     \/ L2Insert(p) /\ Log("insert", p)
     \/ DialOk(p) /\ Log("dial_ok", p)
     \/ DialFail(p) /\ Log("dial_fail", p)
     \/ DelRetry(p) /\ Log("delretry", p)

GNext ==
  \/ \E p \in Procs : GStep(p)
  \/ \E p \in Procs, k \in Kinds, h \in Hosts : Quiet /\ Call(p, k, h) /\ Log("call", p)
  \/ \E h \in Hosts : Quiet /\ ~Terminated /\ Expire(h) /\ hist' = Append(hist, [Rec("expire", "") EXCEPT !.h = h])

GSpec == GInit /\ [][GNext]_gvars

Emit == Terminated => PrintT(ToJson([size |-> Size, dur0 |-> ZeroDuration, steps |-> hist]))
=============================================================================
