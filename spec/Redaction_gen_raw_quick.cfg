SPECIFICATION Spec
CONSTANTS
  Versions <- VersionsAll
  Family = "raw"
  FullOffsets <- Off0
  LiteOffsets <- Off12345
INVARIANTS TypeOK PExact PIdempotent PCore PIdentity PModule PSanity Emit
CHECK_DEADLOCK FALSE
