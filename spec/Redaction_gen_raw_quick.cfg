SPECIFICATION Spec
CONSTANTS
  Versions <- VersionsAll
  FullVersions <- VersionsPairs
  Families <- FamRaw
  Kinds <- KindsLattice
  ChunkSize = 1
  MaxHist = 0
  FullOffsets <- Off0
  LiteOffsets <- Off48
  AllOnlyOffsets <- OffOthers
  RouteSteps = 0
  RouteFull = FALSE
INVARIANTS TypeOK PExact PIdempotent PHistory PCore PIdentity PRoute PModule PSanity Emit
CHECK_DEADLOCK FALSE
