SPECIFICATION Spec
CONSTANTS
  Versions <- VersionsAll
  FullVersions <- VersionsPairs
  Families <- FamRaw
  Kinds <- KindsLattice
  ChunkSize = 1
  MaxHist = 0
  FullOffsets <- Off0
  LiteOffsets <- Off48
  AllOnlyOffsets <- OffOthers
INVARIANTS TypeOK PExact PIdempotent PHistory PCore PIdentity PModule PSanity Emit
CHECK_DEADLOCK FALSE
