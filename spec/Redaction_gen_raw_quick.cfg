SPECIFICATION Spec
CONSTANTS
  Versions <- VersionsAll
  FullVersions <- VersionsPairs
  Family = "raw"
  FullOffsets <- Off0
  LiteOffsets <- Off48
  AllOnlyOffsets <- OffOthers
INVARIANTS TypeOK PExact PIdempotent PCore PIdentity PModule PSanity Emit
CHECK_DEADLOCK FALSE
