SPECIFICATION Spec
CONSTANTS
  Versions <- VersionsAll
  Family = "raw"
  FullOffsets <- Off0
  LiteOffsets <- Off1245
INVARIANTS TypeOK PExact PIdempotent PCore PIdentity PModule PSanity Emit
CHECK_DEADLOCK FALSE
