SPECIFICATION Spec
CONSTANTS
  Family = "event1"
  Versions <- VersionsAll
  TypesC <- TypesSign
  Depth = "edge"
  FieldSet = "sig"
  Entries <- EntriesUntrusted
  MaxOps = 3
  Heavy <- HeavySign
  HeavyAfter <- HeavySign
  Muts <- MutsSign
INVARIANTS TypeOK NoPanic WellOrdered Emit
CHECK_DEADLOCK FALSE
