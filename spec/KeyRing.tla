------------------------------ MODULE KeyRing ------------------------------
(***************************************************************************)
(* C12 - KeyRing.VerifyJSONs (keyring.go).                                 *)
(*                                                                         *)
(* One action per stage of the bulk verification flow:                     *)
(*   Prepare     key IDs per request; unsupported algorithms, unsigned or  *)
(*               unparsable messages fail at once                          *)
(*   DBFetch     the key database is asked for every wanted key            *)
(*   EarlyCheck  when the database returned as many keys as there are      *)
(*               requests (the implementation's test for "all satisfied"), *)
(*               verify with them; return if every request passed          *)
(*   Fetch(i)    fetchers in configuration order, each asked only for what *)
(*               is still pending                                          *)
(*   FinalCheck  verify with everything obtained                           *)
(*   Store       write the keys back to the database                       *)
(*                                                                         *)
(* Cryptography is symbolic: a signature entry [kid, alg, by] verifies     *)
(* under a public key K iff by = K ("G" = garbage never verifies).         *)
(* Time is an integer number of hours relative to the real clock (now = 0  *)
(* in every generated scenario); NoTS is the library's magic 0 for "no     *)
(* expired_ts" / "no valid_until_ts".  Key names are "server/keyID".       *)
(*                                                                         *)
(* The property clauses (Sound, Complete, OnlyNeeded, StoredFetched,       *)
(* OneResultEach, ...) are stated over the scenario, the results and the   *)
(* history variable `calls`; they do not mention the stage variables.      *)
(***************************************************************************)
EXTENDS Integers, Sequences, FiniteSets

NoTS == -9999          \* PublicKeyNotExpired / PublicKeyNotValid
Cap  == 168            \* seven days in hours
NoKey == [key |-> "-", vu |-> NoTS, exp |-> NoTS]

VARIABLES
    \* ---- scenario (never changes once chosen)
    requests,   \* Seq of [srv, form, sigs, ts, strict]; sigs = set of [kid, alg, by]
    db,         \* key name -> [key, vu, exp]   (partial function: absent = not in DOMAIN)
    dbmode,     \* "ok" | "fetcherr" | "storeerr"
    fetchers,   \* Seq of [mode, tab, all]: mode "ok"|"error"; tab like db; all = answers with its
                \* whole table (extra keys) instead of only the requested names
    now,        \* the clock (hours)
    \* ---- key ring state
    stage,      \* "idle" | "prepare" | "dbfetch" | "early" | "fetch" | "final" | "store" | "done"
    fi,         \* next fetcher
    results,    \* per request "ok" | "fail"
    pending,    \* key names still to be fetched
    have,       \* key name -> entry obtained so far
    fetched,    \* key name -> entry adopted from a fetcher
    stored,     \* what Store wrote
    toperr,     \* VerifyJSONs returned a top-level error
    calls       \* history: <<[op, who, keys]>>  op "dbfetch"|"fetch"|"store"; who = 0 (database) or fetcher index

scenario == <<requests, db, dbmode, fetchers, now>>
ringvars == <<stage, fi, results, pending, have, fetched, stored, toperr, calls>>
vars == <<scenario, ringvars>>

\* ------------------------------------------------------------------ helpers
KN(s, k) == s \o "/" \o k
Look(t, kn) == IF kn \in DOMAIN t THEN t[kn] ELSE NoKey
Merge(t, u) == [k \in (DOMAIN t) \cup (DOMAIN u) |-> IF k \in DOMAIN u THEN u[k] ELSE t[k]]
RangeOf(s) == {s[i] : i \in DOMAIN s}
SubTab(t, u) == \A k \in DOMAIN t : k \in DOMAIN u /\ u[k] = t[k]
MinOf(S) == CHOOSE x \in S : \A y \in S : x <= y

\* key IDs of request r the key ring may use: ed25519 entries of a parsable message
SupportedIDs(r) == IF r.form = "obj" THEN {g.kid : g \in {x \in r.sigs : x.alg = "ed25519"}} ELSE {}
SigBy(r, kid) == (CHOOSE g \in r.sigs : g.kid = kid).by
WantedOf(r) == {KN(r.srv, k) : k \in SupportedIDs(r)}
Wanted == UNION {WantedOf(requests[i]) : i \in DOMAIN requests}

\* ---- validity rules (PublicKeyLookupResult.WasValidAt, Strict/NoStrict check)
\* expired key: strictly before expired_ts; otherwise, where the room version demands strict checking,
\* at or before valid_until_ts and at most seven days ahead of now; lenient rooms (v1-v4) do not
\* enforce valid_until_ts.
ValidAt(e, ts, strict) ==
    IF e.exp # NoTS THEN ts < e.exp
    ELSE IF strict THEN e.vu # NoTS /\ ts <= e.vu /\ ts <= now + Cap
    ELSE TRUE

\* the database holds the key within its validity (an expired key never changes: it is final)
Fresh(e)   == e.exp = NoTS /\ e.vu # NoTS /\ now < e.vu
Settled(e) == e.key # "-" /\ (e.exp # NoTS \/ Fresh(e))

Verifies(r, kid, e) == e.key # "-" /\ SigBy(r, kid) = e.key
GoodFor(r, kid, e)  == Verifies(r, kid, e) /\ ValidAt(e, r.ts, r.strict)

Check(res, keys) ==
    [i \in DOMAIN requests |->
        IF res[i] = "ok" THEN "ok"
        ELSE IF \E k \in SupportedIDs(requests[i]) :
                   GoodFor(requests[i], k, Look(keys, KN(requests[i].srv, k)))
             THEN "ok" ELSE "fail"]

\* what fetcher f answers when asked for the names `asked`
Answer(f, asked) ==
    IF f.mode # "ok" THEN {}
    ELSE {kn \in DOMAIN f.tab : f.tab[kn].key # "-" /\ (f.all \/ kn \in asked)}

\* ------------------------------------------------------------------ stages
RingInit ==
    /\ stage = "prepare" /\ fi = 1 /\ results = <<>> /\ pending = {} /\ have = <<>>
    /\ fetched = <<>> /\ stored = <<>> /\ toperr = FALSE /\ calls = <<>>

Prepare ==
    /\ stage = "prepare"
    /\ results' = [i \in DOMAIN requests |-> "fail"]
    /\ pending' = Wanted
    /\ stage' = IF Wanted = {} THEN "done" ELSE "dbfetch"
    /\ UNCHANGED <<scenario, fi, have, fetched, stored, toperr, calls>>

DBFetch ==
    /\ stage = "dbfetch"
    /\ calls' = Append(calls, [op |-> "dbfetch", who |-> 0, keys |-> pending])
    /\ IF dbmode = "fetcherr"
       THEN /\ toperr' = TRUE /\ stage' = "done" /\ UNCHANGED <<have, pending>>
       ELSE /\ have' = [kn \in {k \in pending : Look(db, k).key # "-"} |-> db[kn]]
            /\ pending' = {kn \in pending : ~Settled(Look(db, kn))}
            /\ stage' = "early" /\ UNCHANGED toperr
    /\ UNCHANGED <<scenario, fi, results, fetched, stored>>

\* The criterion for trying early is the implementation's (number of keys = number of requests); the
\* property does not depend on it: a result that passes here passes under a key the database supplied,
\* and everything else goes on to the fetchers.
EarlyCheck ==
    /\ stage = "early"
    /\ IF Cardinality(DOMAIN have) = Len(requests)
       THEN LET r == Check(results, have)
            IN  /\ results' = r
                /\ stage' = IF \A i \in DOMAIN r : r[i] = "ok" THEN "done" ELSE "fetch"
       ELSE /\ stage' = "fetch" /\ UNCHANGED results
    /\ UNCHANGED <<scenario, fi, pending, have, fetched, stored, toperr, calls>>

\* A fetcher is consulted only while something is pending.  What it returns for a pending name is
\* adopted (replacing a stale database entry); an unrequested extra is adopted only when no key is
\* held for that name: it never displaces a key already obtained from the database or an earlier
\* fetcher.
Fetch(i) ==
    /\ stage = "fetch" /\ fi = i /\ i \in DOMAIN fetchers /\ pending # {}
    /\ LET f == fetchers[i]
           ret == Answer(f, pending)
           adopt == {kn \in ret : kn \in pending \/ kn \notin DOMAIN have}
           new == [kn \in adopt |-> f.tab[kn]]
       IN  /\ calls' = Append(calls, [op |-> "fetch", who |-> i, keys |-> pending])
           /\ have' = Merge(have, new)
           /\ fetched' = Merge(fetched, new)
           /\ pending' = pending \ ret
    /\ fi' = i + 1
    /\ UNCHANGED <<scenario, stage, results, stored, toperr>>

FetchDone ==
    /\ stage = "fetch" /\ (pending = {} \/ fi > Len(fetchers))
    /\ stage' = "final"
    /\ UNCHANGED <<scenario, fi, results, pending, have, fetched, stored, toperr, calls>>

FinalCheck ==
    /\ stage = "final"
    /\ results' = Check(results, have)
    /\ stage' = "store"
    /\ UNCHANGED <<scenario, fi, pending, have, fetched, stored, toperr, calls>>

Store ==
    /\ stage = "store"
    /\ calls' = Append(calls, [op |-> "store", who |-> 0, keys |-> DOMAIN have])
    /\ stored' = have
    /\ toperr' = (dbmode = "storeerr")
    /\ stage' = "done"
    /\ UNCHANGED <<scenario, fi, results, pending, have, fetched>>

RingNext == Prepare \/ DBFetch \/ EarlyCheck \/ (\E i \in DOMAIN fetchers : Fetch(i)) \/ FetchDone
            \/ FinalCheck \/ Store

\* ------------------------------------------------- the property (final state)
Done == stage = "done"

FetchCalls == {c \in RangeOf(calls) : c.op = "fetch"}

\* keys obtained for a name, read off the history: what the database returned for it and what every
\* consulted fetcher returned for it (asked for, or volunteered as an extra)
Obtained(kn) ==
    (IF dbmode # "fetcherr" /\ (\E c \in RangeOf(calls) : c.op = "dbfetch" /\ kn \in c.keys) /\ kn \in DOMAIN db
        THEN {db[kn]} ELSE {})
    \cup {fetchers[c.who].tab[kn] : c \in {c \in FetchCalls : kn \in Answer(fetchers[c.who], c.keys)}}

\* (1) one result per request, in request order
OneResultEach == Done /\ ~toperr => /\ DOMAIN results = DOMAIN requests
                                    /\ \A i \in DOMAIN results : results[i] \in {"ok", "fail"}

\* (2) success only under an obtained key for that (server, key ID), valid at the timestamp, that verifies
Sound == Done /\ ~toperr =>
    \A i \in DOMAIN requests : results[i] = "ok" =>
        \E k \in SupportedIDs(requests[i]) : \E e \in Obtained(KN(requests[i].srv, k)) :
            GoodFor(requests[i], k, e)

\* (3) success whenever the database or the first fetcher able to answer supplies such a key.
\* The first source able to answer for a name: the database when it holds the key within validity (or as
\* an expired key); otherwise the first fetcher, in configuration order, that answers with that name;
\* otherwise whatever (stale) key the database has.  Defined on the scenario alone.
FirstSource(kn) ==
    LET d == Look(db, kn)
        ans == {i \in DOMAIN fetchers : fetchers[i].mode = "ok" /\ Look(fetchers[i].tab, kn).key # "-"}
    IN  IF Settled(d) THEN d
        ELSE IF ans # {} THEN fetchers[MinOf(ans)].tab[kn]
        ELSE d
MustOK(i) == \E k \in SupportedIDs(requests[i]) :
                GoodFor(requests[i], k, FirstSource(KN(requests[i].srv, k)))
Complete == Done /\ ~toperr => \A i \in DOMAIN requests : MustOK(i) => results[i] = "ok"

\* upper bound on the scenario alone: some source in the scenario has a good key
MayOK(i) == \E k \in SupportedIDs(requests[i]) :
    LET kn == KN(requests[i].srv, k) IN
    \E e \in {Look(db, kn)} \cup {Look(fetchers[j].tab, kn) : j \in {j \in DOMAIN fetchers : fetchers[j].mode = "ok"}} :
        GoodFor(requests[i], k, e)
SoundOnScenario == Done /\ ~toperr => \A i \in DOMAIN requests : results[i] = "ok" => MayOK(i)

\* (4) fetchers are consulted only for keys the database lacks or holds past their validity,
\*     in configuration order, after the database
Askable == {kn \in Wanted : ~Settled(Look(db, kn))}
OnlyNeeded == \A c \in FetchCalls : c.keys # {} /\ c.keys \subseteq Askable
InOrder == \A a, b \in DOMAIN calls :
              /\ (a < b /\ calls[a].op = "fetch" /\ calls[b].op = "fetch") => calls[a].who < calls[b].who
              /\ (calls[b].op = "dbfetch") => b = 1
              /\ (calls[a].op = "store") => a = Len(calls)
NothingWithoutKeys == Wanted = {} => calls = <<>>

\* (5) what was fetched is stored
StoredFetched == Done /\ ~toperr =>
    \A c \in FetchCalls : \A kn \in Answer(fetchers[c.who], c.keys) :
        /\ \E s \in RangeOf(calls) : s.op = "store" /\ kn \in s.keys
        /\ kn \in DOMAIN stored /\ stored[kn] \in Obtained(kn)
NothingInvented == \A kn \in DOMAIN stored : stored[kn] \in Obtained(kn)

\* (6) a top-level error only when the database failed
TopErrOnlyDB == toperr => dbmode # "ok"

\* sanity of the oracle itself
ClassSane == Done /\ ~toperr => \A i \in DOMAIN requests :
                /\ (MustOK(i) => MayOK(i))
                /\ (SupportedIDs(requests[i]) = {} => results[i] = "fail")
=============================================================================
