SPECIFICATION Spec
CONSTANTS
  Versions <- VersionsAll
  Family = "sid"
  ShapeIds <- ShapesSid
  VariantIds <- Variants2
  MaxOps = 2
  Alphabet <- AlphabetSid
  PreOps <- PreNone
  SibFields <- NoFields
  SidPairs <- SidAll
  TamperMax = 0
INVARIANTS TypeOK PIdStable PRoundTrip PRedactKeeps PV12 PBuildOrRefuse Emit
CHECK_DEADLOCK FALSE
