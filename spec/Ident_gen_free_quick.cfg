SPECIFICATION Spec
CONSTANTS
  Mode = "free"
  FreeLen = 3
  MaxDev = 2
INVARIANTS TypeOK FaultAgrees LaxAdmitsMore StrictWithinHistorical Unambiguous AcceptedShape KindsDisjoint IPv4WithinDns StrayRefused Emit
CHECK_DEADLOCK FALSE
