---------------------------- MODULE EventSigs_gen ----------------------------
(* Generation wrapper for EventSigs.tla: one record per scenario with the   *)
(* verdict, replayed by harness/cmd/c06 against VerifyEventSignatures /     *)
(* VerifyAllEventSignatures over a real KeyRing.                            *)
EXTENDS EventSigs, Json

VersionsAll == AllVersions

Emit ==
    Done => PrintT(ToJson([ver |-> ver, kind |-> ev.kind, via |-> ev.via, tsrv |-> ev.tsrv, asrv |-> ev.asrv,
                           esrv |-> ev.esrv, tm |-> tm, sig |-> sig, required |-> R,
                           strict |-> StrictKeyValidity(ver), verdict |-> verdict]))
=============================================================================
