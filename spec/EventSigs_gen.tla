---------------------------- MODULE EventSigs_gen ----------------------------
(* Generation wrapper for EventSigs.tla: one record per scenario with the   *)
(* verdict, replayed by harness/cmd/c06 against VerifyEventSignatures /     *)
(* VerifyAllEventSignatures over a real KeyRing.                            *)
EXTENDS EventSigs, Json

VersionsAll == AllVersions
\* one room version per (ID format, key-validity rule, restricted joins, domainless) class
SourceVersionsQuick == {"2", "4", "6", "11", "12"}
\* batches: one room version per (ID format, key-validity rule, canonical JSON enforced) class
BatchVersionsQuick == {"1", "4", "5", "6", "10", "12"}
BatchLensQuick == {2}
BatchLensThorough == {1, 2, 3}

Emit ==
    Done => PrintT(ToJson([ver |-> ver, kind |-> ev.kind, via |-> ev.via, tsrv |-> ev.tsrv, asrv |-> ev.asrv,
                           esrv |-> ev.esrv, etype |-> TypeOf(ev), pres |-> pres, ktop |-> TopKeep(RedactionAlgo(ver)),
                           kcon |-> KeptCon(ver, ev), ktpi |-> KeptTpi(ver, ev), kkey |-> KeptKey(ver, ev), tm |-> tm, sig |-> sig, src |-> src, vol |-> vol, fail |-> fail, mapst |-> mapst, required |-> R,
                           strict |-> StrictKeyValidity(ver), maxts |-> MaxTS(ver), bt |-> bt, bres |-> bres, verdict |-> verdict]))
=============================================================================
