SPECIFICATION Spec
CONSTANTS
  Family = "event1"
  Versions <- VersionsAll
  TypesC <- TypesShapeMore
  Depth = "xshape"
  FieldSet = "all"
  Entries <- EntriesAll
  MaxOps = 3
  Heavy <- HeavyShape
  HeavyAfter <- HeavyShapeAfter
  Muts <- MutsShape
INVARIANTS TypeOK NoPanic WellOrdered ShapeIsForeign Emit
CHECK_DEADLOCK FALSE
