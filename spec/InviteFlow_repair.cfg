SPECIFICATION Spec
CONSTANTS
  VerSet <- VersFault
  Budget = 2
  Fault = "none"
  Repair = TRUE
INVARIANTS TypeOK Sanity AllowedOnly ReturnedIsTheInvite SentIsTheInvite NoLeak CheckBeforeSend References EnvErrors Complete WhySound
CHECK_DEADLOCK FALSE
