SPECIFICATION Spec
CONSTANTS
  Versions <- VersionsQuick
  ClearPer = "event"
  MaxBatch = 2
  Modes <- ModesQuick
  FirstHows <- FirstQuick
INVARIANTS BatchCoherent ModesAlike EmitPool Emit
CHECK_DEADLOCK FALSE
