SPECIFICATION Spec
CONSTANTS
  Family = "event1"
  Versions <- VersionsAll
  TypesC <- TypesShape
  Depth = "xshape"
  FieldSet = "core"
  Entries <- EntriesUntrusted
  MaxOps = 3
  Heavy <- HeavyShape
  HeavyAfter <- HeavyShapeAfterQ
  Muts <- MutsShapeQ
INVARIANTS TypeOK NoPanic WellOrdered ShapeIsForeign Emit
CHECK_DEADLOCK FALSE
