--------------------------- MODULE ResolveSeq_gen ---------------------------
(***************************************************************************)
(* Scenario generator for ResolveSeq.tla: a world of three DNS names and   *)
(* two IP literals x a sequence of requests through one client.            *)
(*                                                                         *)
(* The names are related on purpose (coincidences): the second server name *)
(* is the name the first one delegates to (bare / with its port), the host *)
(* of its SRV target, a name that delegates back to it, a name that        *)
(* delegates to the same third name, the same host with a port, the IP     *)
(* literal the first one delegates to.  Relevance pruning: the well-known  *)
(* document / SRV records of a host no request of the sequence reads are   *)
(* fixed - to a distinctive value.                                         *)
(*                                                                         *)
(* Every destination is reachable by the harness (a loopback listener on a *)
(* port of its own): a port-less DNS name always has an SRV record (port   *)
(* 8448 is compared at the ResolveServer level, by Resolve_gen.tla).       *)
(***************************************************************************)
EXTENDS ResolveSeq, Json

CONSTANT Depth       \* "quick" | "thorough"

Hosts == {"A", "B", "C"}
Peer(h) == CASE h = "A" -> "B" [] h = "B" -> "C" [] OTHER -> "A"
PortOf(h) == CASE h = "A" -> 4430 [] h = "B" -> 4431 [] OTHER -> 4432
Idx(h) == CASE h = "A" -> 0 [] h = "B" -> 1 [] OTHER -> 2

Bare(h) == MkName(h, "no", NoPort, TRUE)
WithPort(h) == MkName(h, "no", PortOf(h), TRUE)
Lit1 == MkName("L4", "v4", 4440, TRUE)        \* an IP literal that is also a server name of the sequence
Lit2 == MkName("DL4", "v4", 4441, TRUE)       \* an IP literal only ever delegated to

\* ---- well-known documents: none | -> another name | -> another name with its port | -> a literal
WkNone == [hon |-> FALSE, target |-> NoName]
WkTo(n) == [hon |-> TRUE, target |-> n]
WkChoices(h) ==
    {WkNone} \cup {WkTo(Bare(g)) : g \in Hosts \ {h}}
             \cup {WkTo(WithPort(g)) : g \in (IF Depth = "quick" THEN {Peer(h)} ELSE Hosts \ {h})}
             \cup {WkTo(Lit1)} \cup (IF Depth = "quick" THEN {} ELSE {WkTo(Lit2)})
WkDistinct(h) == WkTo(WithPort(Peer(h)))       \* what a host that must not be asked would answer

\* ---- SRV: always some record.  fed | legacy (only the deprecated service has one) | peer (the record
\*      of _matrix-fed points at another DNS name of the world, which is a server name in its own right)
SrvKinds == {"fed", "legacy", "peer"}
Rec(h, svc, t) == [t |-> t, port |-> 4000 + 100 * Idx(h) + (IF svc = "legacy" THEN 10 ELSE 0) + (IF t = Peer(h) THEN 50 ELSE 1),
                   prio |-> 10, tb |-> 0]
Nx == [rc |-> "nx", recs |-> <<>>]
Ok(r) == [rc |-> "ok", recs |-> <<r>>]
SrvOf(h, kind) ==
    CASE kind = "fed"    -> [fed |-> Ok(Rec(h, "fed", "T_" \o h \o "_fed_1")), legacy |-> Ok(Rec(h, "legacy", "T_" \o h \o "_legacy_1"))]
      [] kind = "legacy" -> [fed |-> Nx, legacy |-> Ok(Rec(h, "legacy", "T_" \o h \o "_legacy_1"))]
      [] OTHER           -> [fed |-> Ok(Rec(h, "fed", Peer(h))), legacy |-> Nx]

\* ---- request sequences
ReqNames == {Bare(h) : h \in Hosts} \cup {WithPort("A"), WithPort("B"), Lit1}
Lens == IF Depth = "quick" THEN {3} ELSE {2, 3, 4}
\* at least two different server names (one name asked again and again is the walk of Resolve_gen's trip);
\* four requests: the shapes X Y X Y / X Y Z X only (a third transport, a return after two others)
SeqOK(s) ==
    /\ Cardinality({s[i] : i \in DOMAIN s}) >= 2
    /\ s[1] # s[2]
    /\ (Len(s) = 4 => s[4] = s[1] /\ s[3] \notin {s[1], s[2]})
    /\ (Depth = "quick" => s[1] # Bare("C") /\ s[3] \in {s[1], s[2]})

InitSeq ==
    \E n \in Lens : \E s \in [1..n -> ReqNames] :
    /\ SeqOK(s)
    /\ LET asked(h) == \E i \in DOMAIN s : s[i] = Bare(h) IN
       \E wa \in (IF asked("A") THEN WkChoices("A") ELSE {WkDistinct("A")}),
          wb \in (IF asked("B") THEN WkChoices("B") ELSE {WkDistinct("B")}),
          wc \in (IF asked("C") THEN WkChoices("C") ELSE {WkDistinct("C")}) :
       LET wkf == [h \in Hosts |-> CASE h = "A" -> wa [] h = "B" -> wb [] OTHER -> wc]
           eff(i) == IF Fn!Plain(s[i]) /\ wkf[s[i].host].hon THEN wkf[s[i].host].target ELSE s[i]
           read(h) == \E i \in DOMAIN s : eff(i) = Bare(h)
           kinds(h) == IF read(h) THEN (IF Depth = "quick" /\ h = "C" THEN {"fed"} ELSE SrvKinds) ELSE {"fed"}
       IN
       \E ka \in kinds("A"), kb \in kinds("B"), kc \in kinds("C") :
          /\ world = [wk |-> wkf,
                      srv |-> [h \in Hosts |-> SrvOf(h, CASE h = "A" -> ka [] h = "B" -> kb [] OTHER -> kc)]]
          /\ reqs = s
          /\ Start

Init == InitSeq
Spec == Init /\ [][Next]_vars

SeqInvs == PerRequestTarget /\ OneEach /\ WellKnownPerName /\ CacheSound /\ TransportSound
Terminates == Len(conns) <= 4

\* oracle sanity: consequences of the property statement that must hold in every scenario
Sane == Done =>
    \A j \in DOMAIN reqs :
        LET n == reqs[j]  e == Expect(j)  w == world.wk[n.host] IN
        \* a literal / a name with a port goes exactly there, as itself
        /\ (~Fn!Plain(n) => e = Fn!Target(n.host, n.port, n))
        \* a port-less name with a document carries the identity of the name the document spells
        /\ (Fn!Plain(n) /\ w.hon => e.sni = w.target.host /\ e.host = Fn!HostPort(w.target.host, w.target.port))
        \* ... and without one, its own
        /\ (Fn!Plain(n) /\ ~w.hon => e.sni = n.host /\ e.host = Fn!HostPort(n.host, NoPort))
        \* the delegated name's own document plays no part
        /\ (Fn!Plain(n) /\ w.hon /\ Fn!Plain(w.target) =>
                e = Fn!NoWellKnown(w.target, world, Fn!StrictLat).result[1])

Emit == Done =>
    PrintT(ToJson([fam |-> "seq", world |-> world, reqs |-> reqs,
                   expect |-> [j \in DOMAIN reqs |->
                       [t |-> Expect(j),
                        wk |-> (IF Fn!AsksWellKnown(reqs[j]) THEN reqs[j].host ELSE ""),
                        first |-> FirstFor(j)]]]))
=============================================================================
