----------------------------- MODULE Ident_gen -----------------------------
(* Generation wrapper for Ident.tla: every judged string is printed as one *)
(* JSON record (elements + padding + the three-valued verdict of the four  *)
(* recognisers + expected parts + the canonical description used to name   *)
(* disagreements) for replay against spec.NewUserID / NewRoomID /          *)
(* ParseAndValidateServerName / gomatrixserverlib.SplitID.                 *)
EXTENDS Ident, Json

Emit == Done =>
          PrintT(ToJson([fam |-> Mode, s |-> out.s, padlen |-> padlen, bytes |-> out.bytes,
                         us |-> out.us, uh |-> out.uh, rm |-> out.rm, sn |-> out.sn,
                         cut |-> out.cut, pcut |-> out.pcut, port |-> out.port,
                         ku |-> out.ku, kh |-> out.kh, kr |-> out.kr, ks |-> out.ks]))
=============================================================================
