SPECIFICATION Spec
CONSTANTS
  Versions <- VersionsAll
  FullVersions <- VersionsAll
  Families <- FamBoth
  Kinds <- KindsExtra
  ChunkSize = 3
  MaxHist = 2
  FullOffsets <- OffNone
  LiteOffsets <- OffNone
  AllOnlyOffsets <- OffNone
INVARIANTS TypeOK PExact PIdempotent PHistory PCore PIdentity PModule PSanity Emit
CHECK_DEADLOCK FALSE
