SPECIFICATION Spec
CONSTANTS
  Versions <- VersionsAll
  FullVersions <- VersionsAll
  Families <- FamBoth
  Kinds <- KindsExtra
  ChunkSize = 3
  MaxHist = 2
  FullOffsets <- OffNone
  LiteOffsets <- OffNone
  AllOnlyOffsets <- OffNone
  RouteSteps = 0
  RouteFull = FALSE
INVARIANTS TypeOK PExact PIdempotent PHistory PCore PIdentity PRoute PModule PSanity Emit
CHECK_DEADLOCK FALSE
