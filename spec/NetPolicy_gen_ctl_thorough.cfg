SPECIFICATION Spec
CONSTANTS
  Family = "ctl"
  MaxAllow = 2
  MaxDeny = 3
INVARIANTS Sound DenyBeatsAllow OnlyAllowed OnlySafeNets BadEntriesInert ReachIrrelevant Emit
CHECK_DEADLOCK FALSE
