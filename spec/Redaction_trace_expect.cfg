SPECIFICATION Spec
INVARIANT EmitExpected
POSTCONDITION TraceAccepted
CHECK_DEADLOCK FALSE
