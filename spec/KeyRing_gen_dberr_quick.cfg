SPECIFICATION Spec
CONSTANTS
  Families = {"dberr"}
  Tier = "quick"
VIEW View
INVARIANTS OneResultEach Sound Complete SoundOnScenario OnlyNeeded InOrder NothingWithoutKeys StoredFetched NothingInvented TopErrOnlyDB ClassSane Emit
CHECK_DEADLOCK FALSE
