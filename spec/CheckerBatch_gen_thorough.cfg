SPECIFICATION Spec
CONSTANTS
  Versions <- VersionsMid
  ClearPer = "event"
  MaxBatch = 2
  Modes <- ModesAll
  FirstHows <- HowsAll
INVARIANTS BatchCoherent ModesAlike EmitPool Emit
CHECK_DEADLOCK FALSE
