----------------------------- MODULE CanonJSON -----------------------------
(***************************************************************************)
(* C01 - Canonical JSON (json.go: CanonicalJSON, CanonicalJSONAssumeValid, *)
(* EnforcedCanonicalJSON; eventversion.go: CheckCanonicalJSON).            *)
(*                                                                         *)
(* Written from the Matrix specification (appendix "Canonical JSON", room  *)
(* version 6 "Canonical JSON" for the enforced variant) and RFC 8259, not  *)
(* from the code.                                                          *)
(*                                                                         *)
(* A JSON *text* is a sequence of abstract tokens (integers, section 1).   *)
(* The Go harness renders a token sequence to bytes with a table that      *)
(* mirrors section 8 (Bytes); nothing else of the harness is trusted.      *)
(*   section 2  abstract values                                            *)
(*   section 3  number literals (RFC 8259 grammar, integer literal, range) *)
(*   section 3b what a number reader would make of the characters of a      *)
(*              STRING (a classification that nothing may depend on)       *)
(*   section 4  Canon: the canonical text of a value  (the oracle)         *)
(*   section 5  Parse: a total, validating reader token text -> value      *)
(*   section 6  the canonical form as a *predicate* on texts               *)
(*   section 7  the writer state machine: every presentation of a value,   *)
(*              and Corrupt actions that make the text invalid             *)
(*   section 8  concrete syntax (bytes), used by trace validation          *)
(*   section 8b the order of object keys: code points = UTF-8 bytes, and   *)
(*              where UTF-16 code units order differently                  *)
(*   section 9  properties                                                 *)
(*                                                                         *)
(* Interpretation (DESIGN.md, C01): number literals are literals modulo    *)
(* negative zero: the literal -0 is written 0, every other literal is      *)
(* preserved verbatim.  What becomes of other negative-zero spellings      *)
(* (-0.0, -0e1) is not fixed by the property statement: the oracle admits  *)
(* both the verbatim literal (Canon) and the one without sign (CanonAlt).  *)
(***************************************************************************)
EXTENDS Integers, Sequences, FiniteSets, TLC

\* ------------------------------------------------------------------------
\* 1. Tokens
\* ------------------------------------------------------------------------
LBrace == 1    RBrace == 2    LBrack == 3    RBrack == 4
Colon  == 5    Comma  == 6    Quote  == 7
TNull  == 8    TTrue  == 9    TFalse == 10
WsSp   == 11   WsTab  == 12   WsNl   == 13   WsCr == 14
Bare   == 20       \* corrupt only: the letter x outside a string
BadEsc == 21       \* corrupt only: \x inside a string
BadHex == 22       \* corrupt only: \u00G0 inside a string

WsToks == {WsSp, WsTab, WsNl, WsCr}

NumTok(b) == 200 + b                   \* one ASCII byte of a number literal
IsNumTok(t) == t >= 200 /\ t < 328
NumByte(t) == t - 200

\* one character of a string: code point cp written with spelling sp
SpRaw == 0   SpShort == 1   SpULower == 2   SpUUpper == 3   SpPairLower == 4   SpPairUpper == 5
SpMixed == 6         \* hex digits of mixed case: \uXxXx (digits 1, 3 upper, 2, 4 lower); a pair as \uXXXX\uxxxx
ChTok(cp, sp) == 1000 + cp * 8 + sp
IsChTok(t) == t >= 1000
TokCp(t) == (t - 1000) \div 8
TokSp(t) == (t - 1000) % 8

MaxCp == 1114111
IsSurr(cp) == cp >= 55296 /\ cp <= 57343
IsHighSurr(cp) == cp >= 55296 /\ cp <= 56319
IsLowSurr(cp)  == cp >= 56320 /\ cp <= 57343
ShortSet == {34, 92, 47, 8, 9, 10, 12, 13}        \* " \ / \b \t \n \f \r
HexLetter(n) == \E d \in {n % 16, (n \div 16) % 16, (n \div 256) % 16, (n \div 4096) % 16} : d >= 10
OddHexLetter(n)  == (n \div 4096) % 16 >= 10 \/ (n \div 16) % 16 >= 10      \* digit 1 or 3 is a letter
EvenHexLetter(n) == (n \div 256) % 16 >= 10 \/ n % 16 >= 10                \* digit 2 or 4 is a letter

\* RFC 8259 section 7: which spellings of a code point are grammatical inside a string
SpellingOK(cp, sp) ==
    CASE sp = SpRaw   -> cp >= 32 /\ cp <= MaxCp /\ cp \notin {34, 92} /\ ~IsSurr(cp)
      [] sp = SpShort -> cp \in ShortSet
      [] sp \in {SpULower, SpUUpper} -> cp >= 0 /\ cp <= 65535
      [] sp \in {SpPairLower, SpPairUpper} -> cp >= 65536 /\ cp <= MaxCp
      [] sp = SpMixed -> cp >= 0 /\ cp <= MaxCp
      [] OTHER -> FALSE

\* the grammatical spellings with pairwise different renderings
IsSpelling(cp, sp) == /\ SpellingOK(cp, sp)
                      /\ (sp = SpUUpper => HexLetter(cp))
                      /\ (sp = SpMixed /\ cp <= 65535 => OddHexLetter(cp) /\ EvenHexLetter(cp))
Spellings(cp) == {sp \in 0..6 : IsSpelling(cp, sp)}

\* length in bytes of a spelling
SpLen(cp, sp) ==
    CASE sp = SpRaw -> (IF cp < 128 THEN 1 ELSE IF cp < 2048 THEN 2 ELSE IF cp < 65536 THEN 3 ELSE 4)
      [] sp = SpShort -> 2
      [] sp \in {SpULower, SpUUpper} -> 6
      [] sp = SpMixed -> (IF cp <= 65535 THEN 6 ELSE 12)
      [] OTHER -> 12

\* ------------------------------------------------------------------------
\* 2. Values.  One record shape for every kind so that TLC can compare them:
\*    k  kind;  s  number literal (ASCII bytes) or string (code points);
\*    c  children as [key, val] records (key = <<>> for array elements).
\*    An object is a *sequence* of members; two values are the same value iff
\*    their normal forms (members sorted, -0 read as 0) are equal.
\* ------------------------------------------------------------------------
VNull     == [k |-> "null",  s |-> <<>>, c |-> <<>>]
VTrue     == [k |-> "true",  s |-> <<>>, c |-> <<>>]
VFalse    == [k |-> "false", s |-> <<>>, c |-> <<>>]
VNum(l)   == [k |-> "num",   s |-> l,    c |-> <<>>]
VStr(s)   == [k |-> "str",   s |-> s,    c |-> <<>>]
Mem(key, v) == [key |-> key, val |-> v]
VArr(es)  == [k |-> "arr", s |-> <<>>, c |-> [i \in 1..Len(es) |-> Mem(<<>>, es[i])]]
VObj(ms)  == [k |-> "obj", s |-> <<>>, c |-> ms]

\* code point order on strings (= byte order of their UTF-8)
RECURSIVE LexLess(_, _)
LexLess(a, b) ==
    IF b = <<>> THEN FALSE
    ELSE IF a = <<>> THEN TRUE
    ELSE IF Head(a) # Head(b) THEN Head(a) < Head(b)
    ELSE LexLess(Tail(a), Tail(b))
KeyLess(x, y) == LexLess(x.key, y.key)

\* ------------------------------------------------------------------------
\* 3. Number literals (sequences of ASCII bytes)
\* ------------------------------------------------------------------------
IsDigit(b) == b >= 48 /\ b <= 57
IsDigit19(b) == b >= 49 /\ b <= 57
IsE(b) == b = 101 \/ b = 69

\* RFC 8259 section 6:  number = [ minus ] int [ frac ] [ exp ],  int = zero / ( digit1-9 {DIGIT} )
NumStep(st, b) ==
    CASE st = "start" -> (IF b = 45 THEN "neg" ELSE IF b = 48 THEN "zero" ELSE IF IsDigit19(b) THEN "int" ELSE "bad")
      [] st = "neg"   -> (IF b = 48 THEN "zero" ELSE IF IsDigit19(b) THEN "int" ELSE "bad")
      [] st = "zero"  -> (IF b = 46 THEN "dot" ELSE IF IsE(b) THEN "e" ELSE "bad")
      [] st = "int"   -> (IF IsDigit(b) THEN "int" ELSE IF b = 46 THEN "dot" ELSE IF IsE(b) THEN "e" ELSE "bad")
      [] st = "dot"   -> (IF IsDigit(b) THEN "frac" ELSE "bad")
      [] st = "frac"  -> (IF IsDigit(b) THEN "frac" ELSE IF IsE(b) THEN "e" ELSE "bad")
      [] st = "e"     -> (IF b \in {43, 45} THEN "esign" ELSE IF IsDigit(b) THEN "exp" ELSE "bad")
      [] st = "esign" -> (IF IsDigit(b) THEN "exp" ELSE "bad")
      [] st = "exp"   -> (IF IsDigit(b) THEN "exp" ELSE "bad")
      [] OTHER        -> "bad"
RECURSIVE NumRun(_, _, _)
NumRun(l, i, st) == IF i > Len(l) THEN st ELSE NumRun(l, i + 1, NumStep(st, l[i]))
NumFinal(l) == NumRun(l, 1, "start")

IsNumLit(l) == NumFinal(l) \in {"zero", "int", "frac", "exp"}
IsIntLit(l) == NumFinal(l) \in {"zero", "int"}             \* [ minus ] int

\* |n| <= 2^53 - 1 for an integer literal, decided on the digits (TLC integers are 32 bit)
MaxSafe == <<57,48,48,55,49,57,57,50,53,52,55,52,48,57,57,49>>       \* 9007199254740991
Digits(l) == IF l # <<>> /\ l[1] = 45 THEN Tail(l) ELSE l
InRange(l) == LET d == Digits(l) IN
    Len(d) < 16 \/ (Len(d) = 16 /\ (d = MaxSafe \/ LexLess(d, MaxSafe)))

\* what the room-version-6 rule admits: an integer literal within +/-(2^53-1)
NumAdmissible(l) == IsIntLit(l) /\ InRange(l)

NegZeroLit == <<45, 48>>                                  \* the literal -0
Zero == <<48>>
\* other spellings of negative zero: a sign, then a mantissa made of zeros only
RECURSIVE MantissaZero(_, _)
MantissaZero(l, i) ==
    IF i > Len(l) \/ IsE(l[i]) THEN TRUE
    ELSE IF l[i] = 46 \/ l[i] = 48 THEN MantissaZero(l, i + 1) ELSE FALSE
NegZeroLoose(l) == Len(l) > 2 /\ l[1] = 45 /\ MantissaZero(l, 2)

\* ------------------------------------------------------------------------
\* 3b. Kinds do not cross.  The room-version-6 rule speaks of NUMBERS: values
\*    written by the number production of the grammar.  A string (or an
\*    object key) is a string whatever its characters are: "1e400",
\*    "18446744073709551616", "Infinity" are not numbers, nothing of the rule
\*    applies to them and they are canonicalised as any other string.
\*    NumLook(s) is what a number reader applied to the CHARACTERS of s would
\*    find (the JSON number grammar first, then the lenient spellings that
\*    strtod / ParseFloat / ECMAScript Number() accept).  No operator of the
\*    oracle reads it; it exists so that the scenarios cover every class of it
\*    (CanonJSON_gen: families numstr / lenient / keynum), so that a
\*    disagreement can name the class, and so that KindsDoNotCross (section 9)
\*    can say it has no effect.
\* ------------------------------------------------------------------------
LowerB(b) == IF b >= 65 /\ b <= 90 THEN b + 32 ELSE b
LowerS(s) == [i \in 1..Len(s) |-> LowerB(s[i])] \o <<>>
\* surrounding blanks and one sign are what lenient readers skip
RECURSIVE TrimL(_)
TrimL(s) == IF s # <<>> /\ Head(s) \in {32, 9, 10, 13} THEN TrimL(Tail(s)) ELSE s
RECURSIVE TrimR(_)
TrimR(s) == IF s # <<>> /\ s[Len(s)] \in {32, 9, 10, 13} THEN TrimR(SubSeq(s, 1, Len(s) - 1)) ELSE s
Unsigned(s) == IF s # <<>> /\ Head(s) \in {43, 45} THEN Tail(s) ELSE s
NoUnderscore(s) == SelectSeq(s, LAMBDA b : b # 95)
InfNanWords == { <<105,110,102>>, <<105,110,102,105,110,105,116,121>>, <<110,97,110>> }      \* inf infinity nan
IsHexDigit(b) == IsDigit(b) \/ (b >= 97 /\ b <= 102)
\* 0x, hex digits with at most one point, optionally p [sign] digits (letters already in lower case)
HexFloatLook(u) ==
    /\ Len(u) > 2 /\ u[1] = 48 /\ u[2] = 120
    /\ LET body == SubSeq(u, 3, Len(u))
           ps   == {i \in DOMAIN body : body[i] = 112}
       IN /\ Cardinality(ps) <= 1
          /\ LET pe   == IF ps = {} THEN Len(body) + 1 ELSE CHOOSE i \in ps : TRUE
                 mant == SubSeq(body, 1, pe - 1)
                 ex   == Unsigned(SubSeq(body, pe + 1, Len(body)))
             IN /\ \E i \in DOMAIN mant : IsHexDigit(mant[i])
                /\ \A i \in DOMAIN mant : IsHexDigit(mant[i]) \/ mant[i] = 46
                /\ Cardinality({i \in DOMAIN mant : mant[i] = 46}) <= 1
                /\ (ps # {} => ex # <<>> /\ \A i \in DOMAIN ex : IsDigit(ex[i]))
\* a decimal spelling outside the JSON grammar: leading + or zeros, a point without digits on one side, underscores
LenientStep(st, b) ==
    CASE st = "start" -> (IF IsDigit(b) THEN "int" ELSE IF b = 46 THEN "dot0" ELSE "bad")
      [] st = "int"   -> (IF IsDigit(b) THEN "int" ELSE IF b = 46 THEN "frac" ELSE IF IsE(b) THEN "e" ELSE "bad")
      [] st = "dot0"  -> (IF IsDigit(b) THEN "frac" ELSE "bad")
      [] st = "frac"  -> (IF IsDigit(b) THEN "frac" ELSE IF IsE(b) THEN "e" ELSE "bad")
      [] st = "e"     -> (IF b \in {43, 45} THEN "esign" ELSE IF IsDigit(b) THEN "exp" ELSE "bad")
      [] st = "esign" -> (IF IsDigit(b) THEN "exp" ELSE "bad")
      [] st = "exp"   -> (IF IsDigit(b) THEN "exp" ELSE "bad")
      [] OTHER        -> "bad"
RECURSIVE LenientRun(_, _, _)
LenientRun(l, i, st) == IF i > Len(l) THEN st ELSE LenientRun(l, i + 1, LenientStep(st, l[i]))
LenientDecLook(u) == LenientRun(u, 1, "start") \in {"int", "frac", "exp"}

LitLook(l) == IF NumAdmissible(l) THEN "integer-in-range"
              ELSE IF IsIntLit(l) THEN "integer-out-of-range"
              ELSE "fraction-or-exponent"
NumLook(s) ==
    IF IsNumLit(s) THEN LitLook(s)
    ELSE LET t == TrimR(TrimL(s))
             u == LowerS(Unsigned(t))
         IN IF u \in InfNanWords THEN "inf-nan-word"
            ELSE IF HexFloatLook(NoUnderscore(u)) THEN "hex-float"
            ELSE IF LenientDecLook(NoUnderscore(u)) /\ u # <<>> /\ u[1] # 95 /\ u[Len(u)] # 95
                 THEN (IF t # s THEN "number-in-blanks" ELSE "lenient-decimal")
            ELSE "none"

\* ------------------------------------------------------------------------
\* 4. Canon(v): the canonical text of a value  (Matrix appendix "Canonical
\*    JSON": keys sorted by code point, no insignificant whitespace, strings
\*    escape only " \ and the control characters, those with the two-character
\*    escape where one exists and \u00xx in lower case otherwise; -0 is 0)
\* ------------------------------------------------------------------------
CanonSp(cp) == IF cp \in {34, 92, 8, 9, 10, 12, 13} THEN SpShort
               ELSE IF cp < 32 THEN SpULower ELSE SpRaw

StrToks(s) == <<Quote>> \o [i \in 1..Len(s) |-> ChTok(s[i], CanonSp(s[i]))] \o <<Quote>>
NumToks(l) == [i \in 1..Len(l) |-> NumTok(l[i])]

CanonNum(l, strip) == IF l = NegZeroLit THEN Zero
                      ELSE IF strip /\ NegZeroLoose(l) THEN Tail(l) ELSE l

RECURSIVE JoinComma(_, _)
JoinComma(parts, i) ==
    IF i > Len(parts) THEN <<>>
    ELSE IF i = Len(parts) THEN parts[i]
    ELSE parts[i] \o <<Comma>> \o JoinComma(parts, i + 1)

RECURSIVE CanonV(_, _)
CanonV(v, strip) ==
    CASE v.k = "null"  -> <<TNull>>
      [] v.k = "true"  -> <<TTrue>>
      [] v.k = "false" -> <<TFalse>>
      [] v.k = "num"   -> NumToks(CanonNum(v.s, strip))
      [] v.k = "str"   -> StrToks(v.s)
      [] v.k = "arr"   -> <<LBrack>> \o JoinComma([i \in 1..Len(v.c) |-> CanonV(v.c[i].val, strip)], 1) \o <<RBrack>>
      [] v.k = "obj"   -> LET m == SortSeq(v.c, KeyLess) IN
                          <<LBrace>> \o JoinComma([i \in 1..Len(m) |->
                                StrToks(m[i].key) \o <<Colon>> \o CanonV(m[i].val, strip)], 1) \o <<RBrace>>

Canon(v)    == CanonV(v, FALSE)
CanonAlt(v) == CanonV(v, TRUE)       \* differs from Canon only on -0.0 / -0e1 ... literals

\* the normal form of a value: what "denotes the same value" compares
RECURSIVE Norm(_)
Norm(v) ==
    CASE v.k = "num" -> VNum(CanonNum(v.s, FALSE))
      [] v.k = "arr" -> [v EXCEPT !.c = [i \in 1..Len(v.c) |-> Mem(<<>>, Norm(v.c[i].val))] \o <<>>]
      [] v.k = "obj" -> LET m == SortSeq(v.c, KeyLess) IN
                        [v EXCEPT !.c = [i \in 1..Len(m) |-> Mem(m[i].key, Norm(m[i].val))] \o <<>>]
      [] OTHER -> v
SameValue(a, b) == Norm(a) = Norm(b)

\* all number literals of a value, in document order
RECURSIVE LitsOf(_)
RECURSIVE LitsOfSeq(_, _)
LitsOfSeq(c, i) == IF i > Len(c) THEN <<>> ELSE LitsOf(c[i].val) \o LitsOfSeq(c, i + 1)
LitsOf(v) == IF v.k = "num" THEN <<v.s>> ELSE LitsOfSeq(v.c, 1)

InadmissibleLits(v) == SelectSeq(LitsOf(v), LAMBDA l : ~NumAdmissible(l))
HasNegZeroLit(v) == \E i \in DOMAIN LitsOf(v) : LitsOf(v)[i] = NegZeroLit

\* every string of a value (object keys and string values), in document order, and the number looks among them
RECURSIVE StrsOf(_)
RECURSIVE StrsOfSeq(_, _)
StrsOfSeq(c, i) == IF i > Len(c) THEN <<>>
                   ELSE (IF c[i].key # <<>> THEN <<c[i].key>> ELSE <<>>) \o StrsOf(c[i].val) \o StrsOfSeq(c, i + 1)
StrsOf(v) == IF v.k = "str" THEN <<v.s>> ELSE StrsOfSeq(v.c, 1)
LooksOf(v) == LET ss == StrsOf(v) IN SelectSeq([i \in DOMAIN ss |-> NumLook(ss[i])], LAMBDA x : x # "none")

\* the same document with every number written between quotes: the characters stay, the kind changes
RECURSIVE Quoted(_)
Quoted(v) ==
    CASE v.k = "num" -> VStr(v.s)
      [] v.k \in {"arr", "obj"} -> [v EXCEPT !.c = [i \in 1..Len(v.c) |-> Mem(v.c[i].key, Quoted(v.c[i].val))] \o <<>>]
      [] OTHER -> v

RECURSIVE HasDupKeys(_)
HasDupKeys(v) ==
    \/ v.k = "obj" /\ \E i, j \in DOMAIN v.c : i < j /\ v.c[i].key = v.c[j].key
    \/ \E i \in DOMAIN v.c : HasDupKeys(v.c[i].val)

\* ------------------------------------------------------------------------
\* 5. Parse: a total validating reader (RFC 8259 grammar on tokens)
\*    result [ok, ill, v, p]: ok grammatical; ill some string holds a lone
\*    surrogate (grammatical, but not well-formed Unicode); p next index
\* ------------------------------------------------------------------------
Fail == [ok |-> FALSE, ill |-> FALSE, v |-> VNull, p |-> 0]
Okay(v, p, ill) == [ok |-> TRUE, ill |-> ill, v |-> v, p |-> p]

RECURSIVE SkipWs(_, _)
SkipWs(T, i) == IF i <= Len(T) /\ T[i] \in WsToks THEN SkipWs(T, i + 1) ELSE i

\* \uXXXX escapes denote UTF-16 code units (RFC 8259 section 7): an escaped high surrogate directly followed by
\* an escaped low surrogate is the supplementary code point, however the two escapes were tokenised; any other
\* surrogate is unpaired and makes the string ill-formed.
PushCp(acc, cp) ==
    IF IsLowSurr(cp) /\ acc # <<>> /\ IsHighSurr(acc[Len(acc)])
    THEN SubSeq(acc, 1, Len(acc) - 1) \o <<65536 + (acc[Len(acc)] - 55296) * 1024 + (cp - 56320)>>
    ELSE Append(acc, cp)
RECURSIVE PStr(_, _, _, _)      \* i: just after the opening quote
PStr(T, i, acc, ill) ==
    IF i > Len(T) THEN Fail
    ELSE IF T[i] = Quote THEN Okay(VStr(acc), i + 1, ill \/ \E j \in DOMAIN acc : IsSurr(acc[j]))
    ELSE IF IsChTok(T[i]) /\ SpellingOK(TokCp(T[i]), TokSp(T[i]))
         THEN PStr(T, i + 1, PushCp(acc, TokCp(T[i])), ill)
    ELSE Fail

RECURSIVE NumEnd(_, _)
NumEnd(T, i) == IF i <= Len(T) /\ IsNumTok(T[i]) THEN NumEnd(T, i + 1) ELSE i
PNum(T, i) == LET j == NumEnd(T, i)
                  l == [n \in 1..(j - i) |-> NumByte(T[i + n - 1])] \o <<>>
              IN IF IsNumLit(l) THEN Okay(VNum(l), j, FALSE) ELSE Fail

RECURSIVE PVal(_, _)
RECURSIVE PElems(_, _, _, _)
RECURSIVE PMembers(_, _, _, _)
PVal(T, i0) ==
    LET i == SkipWs(T, i0) IN
    IF i > Len(T) THEN Fail
    ELSE LET t == T[i] IN
      CASE t = TNull  -> Okay(VNull, i + 1, FALSE)
        [] t = TTrue  -> Okay(VTrue, i + 1, FALSE)
        [] t = TFalse -> Okay(VFalse, i + 1, FALSE)
        [] t = Quote  -> PStr(T, i + 1, <<>>, FALSE)
        [] IsNumTok(t) -> PNum(T, i)
        [] t = LBrack -> (LET j == SkipWs(T, i + 1) IN
                          IF j <= Len(T) /\ T[j] = RBrack THEN Okay(VArr(<<>>), j + 1, FALSE)
                          ELSE PElems(T, i + 1, <<>>, FALSE))
        [] t = LBrace -> (LET j == SkipWs(T, i + 1) IN
                          IF j <= Len(T) /\ T[j] = RBrace THEN Okay(VObj(<<>>), j + 1, FALSE)
                          ELSE PMembers(T, i + 1, <<>>, FALSE))
        [] OTHER -> Fail
PElems(T, i, acc, ill) ==
    LET r == PVal(T, i) IN
    IF ~r.ok THEN Fail
    ELSE LET j == SkipWs(T, r.p)
             acc2 == Append(acc, Mem(<<>>, r.v))
             ill2 == ill \/ r.ill
         IN IF j > Len(T) THEN Fail
            ELSE IF T[j] = Comma THEN PElems(T, j + 1, acc2, ill2)
            ELSE IF T[j] = RBrack THEN Okay([k |-> "arr", s |-> <<>>, c |-> acc2], j + 1, ill2)
            ELSE Fail
PMembers(T, i0, acc, ill) ==
    LET i == SkipWs(T, i0) IN
    IF i > Len(T) \/ T[i] # Quote THEN Fail
    ELSE LET key == PStr(T, i + 1, <<>>, FALSE) IN
      IF ~key.ok THEN Fail
      ELSE LET c == SkipWs(T, key.p) IN
        IF c > Len(T) \/ T[c] # Colon THEN Fail
        ELSE LET r == PVal(T, c + 1) IN
          IF ~r.ok THEN Fail
          ELSE LET j == SkipWs(T, r.p)
                   acc2 == Append(acc, Mem(key.v.s, r.v))
                   ill2 == ill \/ key.ill \/ r.ill
               IN IF j > Len(T) THEN Fail
                  ELSE IF T[j] = Comma THEN PMembers(T, j + 1, acc2, ill2)
                  ELSE IF T[j] = RBrace THEN Okay(VObj(acc2), j + 1, ill2)
                  ELSE Fail

Parse(T) == LET r == PVal(T, 1) IN
            IF r.ok /\ SkipWs(T, r.p) = Len(T) + 1 THEN r ELSE Fail

\* the class of a text with respect to the property statement
\*   valid      valid JSON, well-formed Unicode, no duplicate keys: everything is demanded
\*   invalid    not JSON: must be refused
\*   illformed / dupkeys   grammatical but outside "valid": only "no panic" is demanded
StatusOf(r) == IF ~r.ok THEN "invalid" ELSE IF r.ill THEN "illformed"
               ELSE IF HasDupKeys(r.v) THEN "dupkeys" ELSE "valid"
Status(T) == StatusOf(Parse(T))

\* ------------------------------------------------------------------------
\* 6. The canonical form as a predicate on texts (independent of Canon)
\* ------------------------------------------------------------------------
ShortestSp(cp, sp) == /\ IsSpelling(cp, sp)
                      /\ \A o \in Spellings(cp) : SpLen(cp, sp) <= SpLen(cp, o)
                      /\ sp \notin {SpUUpper, SpMixed}    \* the Matrix grammar spells \u00xx in lower case
RECURSIVE KeysAscending(_)
KeysAscending(v) ==
    /\ v.k = "obj" => \A i \in 1..(Len(v.c) - 1) : LexLess(v.c[i].key, v.c[i + 1].key)
    /\ \A i \in DOMAIN v.c : KeysAscending(v.c[i].val)
IsCanonicalText(T) ==
    LET r == Parse(T) IN
    /\ StatusOf(r) = "valid"
    /\ \A i \in DOMAIN T : T[i] \notin WsToks
    /\ \A i \in DOMAIN T : IsChTok(T[i]) => ShortestSp(TokCp(T[i]), TokSp(T[i]))
    /\ KeysAscending(r.v)                               \* members in text order
    /\ ~HasNegZeroLit(r.v)

\* Texts outside "valid" that the library accepts anyway (unpaired surrogate escapes, duplicate keys): the statement
\* does not fix their output, but the output must not *invent* a value: every supplementary code point in it must
\* be one the text really holds (a raw one or a genuine escaped pair).  In particular a text with an invalid pair
\* (low-high, high-high, high + other) can never canonicalise to the bytes of the text with a genuine pair.
RECURSIVE AstralOf(_)
RECURSIVE AstralOfSeq(_, _)
AstralOfSeq(c, i) == IF i > Len(c) THEN <<>>
                     ELSE SelectSeq(c[i].key, LAMBDA x : x >= 65536) \o AstralOf(c[i].val) \o AstralOfSeq(c, i + 1)
AstralOf(v) == IF v.k = "str" THEN SelectSeq(v.s, LAMBDA x : x >= 65536) ELSE AstralOfSeq(v.c, 1)
\* supplementary code points in UTF-8 bytes (4-byte sequences)
RECURSIVE AstralInBytes(_, _)
AstralInBytes(b, i) ==
    IF i > Len(b) THEN <<>>
    ELSE IF b[i] >= 240 /\ i + 3 <= Len(b)
         THEN <<(b[i] - 240) * 262144 + (b[i + 1] - 128) * 4096 + (b[i + 2] - 128) * 64 + (b[i + 3] - 128)>>
              \o AstralInBytes(b, i + 4)
    ELSE AstralInBytes(b, i + 1)
CountIn(s, x) == Cardinality({i \in DOMAIN s : s[i] = x})
BagIncluded(s, t) == \A i \in DOMAIN s : CountIn(s, s[i]) <= CountIn(t, s[i])
NoInventedAstral(outBytes, v) == BagIncluded(AstralInBytes(outBytes, 1), AstralOf(v))

\* the enforced variant (room version 6 and later): refuse iff some number is not admissible
EnforcedMustReject(v) == InadmissibleLits(v) # <<>>

\* ------------------------------------------------------------------------
\* 7. The writer: a state machine that writes one value token by token and
\*    chooses the presentation.  A scenario fixes the value and the budget of
\*    presentation freedom:
\*       ws    how many whitespace tokens may be inserted
\*       sp    how many characters / zeros may be written in a non canonical spelling
\*       perm  whether object members may be written in any order
\*       cor   whether one Corrupt action may be taken
\* ------------------------------------------------------------------------
CONSTANT Scenarios          \* set of [fam, v, ws, sp, perm, cor]

VARIABLES scen,     \* history: the scenario (value to write and budget)
          todo,     \* work stack: what remains to be written
          text,     \* tokens written so far
          status,   \* "valid" | "invalid" | "illformed" | "dupkeys": class of the text once finished
          bud,      \* remaining budget
          cor,      \* history: the Corrupt action taken, or "none"
          nums,     \* history: the literals written AS NUMBERS (by EmitNumber), in text order; what EmitChar writes
                    \* between quotes never gets here, whatever the characters are
          phase     \* "start" | "writing" | "done"
vars == <<scen, todo, text, status, bud, cor, nums, phase>>

It(k, v, s)  == [k |-> k, v |-> v, s |-> s]
ValItem(v)   == It("val", v, <<>>)
KeyItem(s)   == It("key", VNull, s)
TokItem(t)   == It("tok", VNull, <<t>>)
ChrItem(cp)  == It("chr", VNull, <<cp>>)
CloseQuote   == It("cq", VNull, <<>>)

Top == Head(todo)
Writing == phase = "writing"
InString == todo # <<>> /\ Top.k \in {"chr", "cq"}
NoBudget == [ws |-> 0, sp |-> 0, perm |-> FALSE, cor |-> FALSE]

InitWith(S) == /\ scen \in S
               /\ todo = <<ValItem(scen.v)>>
               /\ text = <<>>
               /\ status = (IF HasDupKeys(scen.v) THEN "dupkeys" ELSE "valid")
               /\ bud = [ws |-> scen.ws, sp |-> scen.sp, perm |-> scen.perm, cor |-> scen.cor]
               /\ cor = "none"
               /\ nums = <<>>
               /\ phase = "start"
Init == InitWith(Scenarios)

Start == /\ phase = "start"
         /\ phase' = "writing"
         /\ UNCHANGED <<scen, todo, text, status, bud, cor, nums>>

\* write(ts, rest): append tokens ts, continue with the work stack rest
WriteN(ts, rest, ns) == /\ text' = text \o ts
                        /\ todo' = rest
                        /\ nums' = nums \o ns
                        /\ UNCHANGED <<scen, status, cor, phase>>
Write(ts, rest) == WriteN(ts, rest, <<>>)

\* insignificant whitespace: between any two tokens, before the first and after the last
EmitWs(w) == /\ Writing /\ ~InString /\ bud.ws > 0
             /\ bud' = [bud EXCEPT !.ws = @ - 1]
             /\ Write(<<w>>, todo)

EmitFixed == /\ Writing /\ todo # <<>> /\ Top.k = "tok"
             /\ Write(Top.s, Tail(todo)) /\ UNCHANGED bud

EmitScalar == /\ Writing /\ todo # <<>> /\ Top.k = "val" /\ Top.v.k \in {"null", "true", "false"}
              /\ Write(<<CASE Top.v.k = "null" -> TNull [] Top.v.k = "true" -> TTrue [] OTHER -> TFalse>>, Tail(todo))
              /\ UNCHANGED bud

\* a number is written as its literal; zero may also be written -0
EmitNumber(l) == /\ Writing /\ todo # <<>> /\ Top.k = "val" /\ Top.v.k = "num"
                 /\ \/ l = Top.v.s /\ UNCHANGED bud
                    \/ Top.v.s = Zero /\ l = NegZeroLit /\ bud.sp > 0 /\ bud' = [bud EXCEPT !.sp = @ - 1]
                 /\ WriteN(NumToks(l), Tail(todo), <<l>>)

RECURSIVE ElemItems(_, _)
ElemItems(c, i) == IF i > Len(c) THEN <<>>
                   ELSE <<ValItem(c[i].val)>> \o (IF i < Len(c) THEN <<TokItem(Comma)>> ELSE <<>>) \o ElemItems(c, i + 1)
BeginArray == /\ Writing /\ todo # <<>> /\ Top.k = "val" /\ Top.v.k = "arr"
              /\ Write(<<LBrack>>, ElemItems(Top.v.c, 1) \o <<TokItem(RBrack)>> \o Tail(todo))
              /\ UNCHANGED bud

\* p: a permutation of the member indices
RECURSIVE MemberItems(_, _, _)
MemberItems(c, p, i) == IF i > Len(c) THEN <<>>
                        ELSE <<KeyItem(c[p[i]].key), TokItem(Colon), ValItem(c[p[i]].val)>>
                             \o (IF i < Len(c) THEN <<TokItem(Comma)>> ELSE <<>>) \o MemberItems(c, p, i + 1)
Identity(n) == [i \in 1..n |-> i]
Orders(n) == IF bud.perm /\ n > 1 THEN Permutations(1..n) ELSE {Identity(n)}
ChooseKeyOrder(p) == /\ Writing /\ todo # <<>> /\ Top.k = "val" /\ Top.v.k = "obj"
                     /\ p \in Orders(Len(Top.v.c))
                     /\ Write(<<LBrace>>, MemberItems(Top.v.c, p, 1) \o <<TokItem(RBrace)>> \o Tail(todo))
                     /\ UNCHANGED bud

StringOf(item) == IF item.k = "key" THEN item.s ELSE item.v.s
BeginString == /\ Writing /\ todo # <<>> /\ (Top.k = "key" \/ (Top.k = "val" /\ Top.v.k = "str"))
               /\ Write(<<Quote>>, [i \in 1..Len(StringOf(Top)) |-> ChrItem(StringOf(Top)[i])] \o <<CloseQuote>> \o Tail(todo))
               /\ UNCHANGED bud

EmitChar(sp) == /\ Writing /\ todo # <<>> /\ Top.k = "chr"
                /\ LET cp == Top.s[1] IN
                   /\ \/ sp = CanonSp(cp) /\ UNCHANGED bud
                      \* (= TRUE: evaluated as a value; as a conjunct of the action TLC would branch on the \E / \/ inside it
                      \*  and produce the same successor several times)
                      \/ sp # CanonSp(cp) /\ bud.sp > 0 /\ IsSpelling(cp, sp) = TRUE /\ bud' = [bud EXCEPT !.sp = @ - 1]
                   /\ Write(<<ChTok(cp, sp)>>, Tail(todo))

CloseString == /\ Writing /\ todo # <<>> /\ Top.k = "cq"
               /\ Write(<<Quote>>, Tail(todo)) /\ UNCHANGED bud

Finish == /\ Writing /\ todo = <<>>
          /\ phase' = "done"
          /\ UNCHANGED <<scen, todo, text, status, bud, cor, nums>>

\* --- Corrupt: at most one per text; afterwards the rest is written plainly ---
Spoil(kind, st, ts, rest) == /\ Writing /\ bud.cor /\ cor = "none"
                             /\ cor' = kind /\ status' = st /\ bud' = NoBudget
                             /\ text' = text \o ts /\ todo' = rest
                             /\ UNCHANGED <<scen, nums, phase>>

BadNums == { <<48,49>>, <<43,49>>, <<46,53>>, <<49,46>>, <<45>>, <<49,101>>, <<49,101,43>>,
             <<45,48,49>>, <<49,46,101,50>>, <<48,48>>, <<45,46,53>> }
          \* 01 +1 .5 1. - 1e 1e+ -01 1.e2 00 -.5
LoneSurrogates == {55296, 56319, 56320, 57343}            \* D800 DBFF DC00 DFFF
Garbage == {RBrack, RBrace, Comma, Colon, Bare, Quote, TNull}

CorTruncate      == todo # <<>> /\ Spoil("truncate", "invalid", <<>>, <<>>)
CorTrailingComma == todo # <<>> /\ Top.k = "tok" /\ Top.s[1] \in {RBrack, RBrace}
                    /\ Spoil("trailing_comma", "invalid", <<Comma>>, todo)
CorDoubleComma   == todo # <<>> /\ Top.k = "tok" /\ Top.s[1] = Comma
                    /\ Spoil("double_comma", "invalid", <<Comma, Comma>>, Tail(todo))
CorDropColon     == todo # <<>> /\ Top.k = "tok" /\ Top.s[1] = Colon
                    /\ Spoil("drop_colon", "invalid", <<>>, Tail(todo))
CorBadEscape(t)  == InString /\ Spoil("bad_escape", "invalid", <<t>>, todo)
CorRawControl(c) == InString /\ Spoil("raw_control", "invalid", <<ChTok(c, SpRaw)>>, todo)
CorBadNumber(l)  == todo # <<>> /\ Top.k = "val" /\ Top.v.k = "num"
                    /\ Spoil("bad_number", "invalid", NumToks(l), Tail(todo))
CorUnquotedKey   == todo # <<>> /\ Top.k = "key" /\ Spoil("unquoted_key", "invalid", <<Bare>>, Tail(todo))
CorBareValue     == todo # <<>> /\ Top.k = "val" /\ Top.v.k \in {"null", "true", "false"}
                    /\ Spoil("bare_value", "invalid", <<Bare>>, Tail(todo))
CorLoneSurrogate(c, sp) == InString /\ Spoil("lone_surrogate", "illformed", <<ChTok(c, sp)>>, todo)
\* two escapes that are not a pair: low-high, high-high, high + U+0200, low-low, high + escaped quote; the second
\* halves share their low ten bits with DE00, the low half of the genuine pair D83D DE00 = U+1F600
BadPairs == { <<56832, 55357>>, <<55357, 55808>>, <<55357, 512>>, <<56832, 56832>>, <<55357, 34>> }
CorBadPair(p, sp) == InString /\ Spoil("bad_pair", "illformed", <<ChTok(p[1], sp), ChTok(p[2], sp)>>, todo)
CorTrailingGarbage(t) == todo = <<>> /\ Spoil("trailing_garbage", "invalid", <<t>>, todo)

\* (the guard of Spoil, once for all the disjuncts: most scenarios have no Corrupt budget)
Corrupt == /\ Writing /\ bud.cor /\ cor = "none"
           /\ \/ CorTruncate \/ CorTrailingComma \/ CorDoubleComma \/ CorDropColon
              \/ \E t \in {BadEsc, BadHex} : CorBadEscape(t)
              \/ \E c \in {0, 10, 31} : CorRawControl(c)
              \/ \E l \in BadNums : CorBadNumber(l)
              \/ CorUnquotedKey \/ CorBareValue
              \/ \E c \in LoneSurrogates, sp \in {SpULower, SpUUpper} : CorLoneSurrogate(c, sp)
              \/ \E p \in BadPairs, sp \in {SpULower, SpUUpper} : CorBadPair(p, sp)
              \/ \E t \in Garbage : CorTrailingGarbage(t)

TopIs(k) == todo # <<>> /\ Top.k = "val" /\ Top.v.k = k
Next == \/ Start
        \/ \E w \in (IF bud.ws > 0 THEN WsToks ELSE {}) : EmitWs(w)
        \/ EmitFixed \/ EmitScalar
        \/ \E l \in (IF TopIs("num") THEN {Top.v.s, NegZeroLit} ELSE {}) : EmitNumber(l)
        \/ BeginArray
        \/ \E p \in (IF TopIs("obj") THEN Orders(Len(Top.v.c)) ELSE {}) : ChooseKeyOrder(p)
        \/ BeginString
        \/ \E sp \in (IF todo # <<>> /\ Top.k = "chr" THEN 0..6 ELSE {}) : EmitChar(sp)
        \/ CloseString
        \/ Corrupt
        \/ Finish

Spec == Init /\ [][Next]_vars

\* ------------------------------------------------------------------------
\* 8. Concrete syntax: the bytes of a token text (UTF-8).  The Go renderer
\*    (harness/cmd/c01/render.go) is the same table; trace validation checks
\*    one against the other and compares the library's output with
\*    Bytes(Canon(..)).
\* ------------------------------------------------------------------------
FixedBytes(t) ==
    CASE t = LBrace -> <<123>> [] t = RBrace -> <<125>> [] t = LBrack -> <<91>> [] t = RBrack -> <<93>>
      [] t = Colon -> <<58>> [] t = Comma -> <<44>> [] t = Quote -> <<34>>
      [] t = TNull -> <<110,117,108,108>> [] t = TTrue -> <<116,114,117,101>> [] t = TFalse -> <<102,97,108,115,101>>
      [] t = WsSp -> <<32>> [] t = WsTab -> <<9>> [] t = WsNl -> <<10>> [] t = WsCr -> <<13>>
      [] t = Bare -> <<120>> [] t = BadEsc -> <<92,120>> [] t = BadHex -> <<92,117,48,48,71,48>>

UTF8(cp) ==
    IF cp < 128 THEN <<cp>>
    ELSE IF cp < 2048 THEN <<192 + cp \div 64, 128 + (cp % 64)>>
    ELSE IF cp < 65536 THEN <<224 + cp \div 4096, 128 + ((cp \div 64) % 64), 128 + (cp % 64)>>
    ELSE <<240 + cp \div 262144, 128 + ((cp \div 4096) % 64), 128 + ((cp \div 64) % 64), 128 + (cp % 64)>>

HexDigit(d, up) == IF d < 10 THEN 48 + d ELSE IF up THEN 55 + d ELSE 87 + d
UEscape(n, up) == <<92, 117, HexDigit((n \div 4096) % 16, up), HexDigit((n \div 256) % 16, up),
                    HexDigit((n \div 16) % 16, up), HexDigit(n % 16, up)>>
UEscapeMixed(n) == <<92, 117, HexDigit((n \div 4096) % 16, TRUE), HexDigit((n \div 256) % 16, FALSE),
                      HexDigit((n \div 16) % 16, TRUE), HexDigit(n % 16, FALSE)>>
ShortLetter(cp) == CASE cp = 34 -> 34 [] cp = 92 -> 92 [] cp = 47 -> 47 [] cp = 8 -> 98 [] cp = 9 -> 116
                     [] cp = 10 -> 110 [] cp = 12 -> 102 [] cp = 13 -> 114
HighSurr(cp) == 55296 + (cp - 65536) \div 1024
LowSurr(cp)  == 56320 + ((cp - 65536) % 1024)
ChBytes(cp, sp) ==
    CASE sp = SpRaw -> UTF8(cp)
      [] sp = SpShort -> <<92, ShortLetter(cp)>>
      [] sp = SpULower -> UEscape(cp, FALSE)
      [] sp = SpUUpper -> UEscape(cp, TRUE)
      [] sp = SpPairLower -> UEscape(HighSurr(cp), FALSE) \o UEscape(LowSurr(cp), FALSE)
      [] sp = SpPairUpper -> UEscape(HighSurr(cp), TRUE) \o UEscape(LowSurr(cp), TRUE)
      [] sp = SpMixed -> (IF cp <= 65535 THEN UEscapeMixed(cp)
                          ELSE UEscape(HighSurr(cp), TRUE) \o UEscape(LowSurr(cp), FALSE))

TokBytes(t) == IF IsChTok(t) THEN ChBytes(TokCp(t), TokSp(t))
               ELSE IF IsNumTok(t) THEN <<NumByte(t)>> ELSE FixedBytes(t)
RECURSIVE BytesFrom(_, _, _)
BytesFrom(T, i, acc) == IF i > Len(T) THEN acc ELSE BytesFrom(T, i + 1, acc \o TokBytes(T[i]))
Bytes(T) == BytesFrom(T, 1, <<>>)

\* ------------------------------------------------------------------------
\* 8b. The order of object keys.  "Sorted by code point" (Matrix appendix
\*    "Canonical JSON") is the order LexLess of section 2 on the DECODED keys.
\*    Three orders are in sight of an implementation:
\*      code points            LexLess            the Matrix order
\*      bytes of the UTF-8     ByteLess           the same order (KeyOrderIsByteOrder)
\*      UTF-16 code units      UnitLess           RFC 8785 / ECMAScript: NOT the Matrix order
\*    The first two agree on every pair of strings; the third differs from them
\*    exactly where the first differing characters are a supplementary-plane
\*    character (its leading surrogate is D800..DBFF) and a BMP character above
\*    the surrogates (E000..FFFF) (UnitOrderDiffersExactly).  CpClass names the
\*    classes of characters an ordering can tell apart: the UTF-8 length classes,
\*    the BMP split at the surrogates, and the supplementary planes.
\* ------------------------------------------------------------------------
CpClass(cp) == IF cp < 128 THEN "ascii"
               ELSE IF cp < 2048 THEN "two-byte"
               ELSE IF cp < 55296 THEN "bmp-below-surrogates"
               ELSE IF cp < 65536 THEN "bmp-above-surrogates"
               ELSE "astral"
CpClasses == <<"ascii", "two-byte", "bmp-below-surrogates", "bmp-above-surrogates", "astral">>

RECURSIVE UTF8Str(_)
UTF8Str(s) == IF s = <<>> THEN <<>> ELSE UTF8(Head(s)) \o UTF8Str(Tail(s))
RECURSIVE UTF16Str(_)
UTF16Str(s) == IF s = <<>> THEN <<>>
               ELSE (IF Head(s) >= 65536 THEN <<HighSurr(Head(s)), LowSurr(Head(s))>> ELSE <<Head(s)>>) \o UTF16Str(Tail(s))
ByteLess(a, b) == LexLess(UTF8Str(a), UTF8Str(b))
UnitLess(a, b) == LexLess(UTF16Str(a), UTF16Str(b))

\* the classes of the two characters at the first position where two strings differ ("end": the string ends there)
RECURSIVE DiffClasses(_, _)
DiffClasses(a, b) ==
    IF a = <<>> \/ b = <<>>
    THEN <<IF a = <<>> THEN "end" ELSE CpClass(Head(a)), IF b = <<>> THEN "end" ELSE CpClass(Head(b))>>
    ELSE IF Head(a) # Head(b) THEN <<CpClass(Head(a)), CpClass(Head(b))>>
    ELSE DiffClasses(Tail(a), Tail(b))
AcrossSurrogateGap(a, b) == DiffClasses(a, b) \in {<<"astral", "bmp-above-surrogates">>, <<"bmp-above-surrogates", "astral">>}

\* every object of a value (at any depth), and the ordered pairs of keys that are members of one object
RECURSIVE ObjsOf(_)
ObjsOf(v) == (IF v.k = "obj" THEN {v} ELSE {}) \cup UNION {ObjsOf(v.c[i].val) : i \in DOMAIN v.c}
SiblingKeys(v) == UNION {{<<o.c[i].key, o.c[j].key>> : i, j \in DOMAIN o.c} : o \in ObjsOf(v)}

\* ------------------------------------------------------------------------
\* 9. Properties.  The library is not part of this module: these state what
\*    the oracle must satisfy (so that a mistake in Canon / Parse / the writer
\*    is found by TLC and not blamed on the code), over the history variables
\*    scen (the value) and text (its presentation).
\* ------------------------------------------------------------------------
TypeOK == /\ phase \in {"start", "writing", "done"}
          /\ status \in {"valid", "invalid", "illformed", "dupkeys"}
          /\ bud.ws >= 0 /\ bud.sp >= 0
          /\ (cor = "none") = (status \in {"valid", "dupkeys"})

\* value-only facts, checked once per scenario (in the state that follows Start)
AtStart == phase = "writing" /\ text = <<>> /\ todo = <<ValItem(scen.v)>> /\ ~HasDupKeys(scen.v)
\* Parse(Canon(v)) = v: canonicalisation denotes the same value, and is valid JSON
CanonDenotesValue == AtStart => LET r == Parse(Canon(scen.v)) IN
                                StatusOf(r) = "valid" /\ SameValue(r.v, scen.v)
\* Canon is a fixed point: canonicalising the canonical text changes nothing
CanonFixedPoint   == AtStart => Canon(Parse(Canon(scen.v)).v) = Canon(scen.v)
\* Canon(v) is in the one canonical form (predicate of section 6, independent of CanonV)
CanonIsCanonical  == AtStart => IsCanonicalText(Canon(scen.v))
AltIsCanonical    == AtStart => /\ IsCanonicalText(CanonAlt(scen.v))
                                /\ (Canon(scen.v) # CanonAlt(scen.v) => \E i \in DOMAIN LitsOf(scen.v) : NegZeroLoose(LitsOf(scen.v)[i]))

\* Key order (section 8b), for the keys that meet in one object of the scenario's value.
\* (1) the Matrix order of keys - by code point - is the order of the bytes of their UTF-8
KeyOrderIsByteOrder == AtStart => \A p \in SiblingKeys(scen.v) : LexLess(p[1], p[2]) <=> ByteLess(p[1], p[2])
\* (2) it is not the order of UTF-16 code units, and the two differ exactly across the surrogate gap
UnitOrderDiffersExactly == AtStart => \A p \in SiblingKeys(scen.v) :
                               p[1] # p[2] => ((LexLess(p[1], p[2]) # UnitLess(p[1], p[2])) <=> AcrossSurrogateGap(p[1], p[2]))
\* (3) the members of every object of the canonical text, as its reader finds them, ascend in byte order
\*     (stated on UTF-8 bytes: independent of the comparison CanonV sorts with)
CanonKeysInByteOrder == AtStart => \A o \in ObjsOf(Parse(Canon(scen.v)).v) :
                            \A i \in 1..(Len(o.c) - 1) : ByteLess(o.c[i].key, o.c[i + 1].key)

\* facts about finished texts
Done == phase = "done"
\* the status the writer tracked is the status the validating reader derives from the text alone
WriterStatusSound == Done => status = Status(text)
\* a valid presentation denotes the scenario's value
PresentationDenotesValue == Done /\ status = "valid" => SameValue(Parse(text).v, scen.v)
\* uniqueness: every presentation of a value has the same canonical text
CanonUnique == Done /\ status = "valid" => Canon(Parse(text).v) = Canon(scen.v)
\* a text that is its own canonical form is exactly a text satisfying the predicate
CanonicalIffFixed == Done /\ status = "valid" => (IsCanonicalText(text) <=> text = Canon(scen.v))

\* Kinds do not cross (section 3b).
\* (1) the numbers the reader finds in a finished text are exactly the literals the writer wrote as numbers, in order:
\*     nothing written between quotes is ever a number, so the enforced verdict is a function of nums alone
KindsDoNotCross == Done /\ status = "valid" =>
                       LET v == Parse(text).v IN
                       /\ LitsOf(v) = nums
                       /\ EnforcedMustReject(v) <=> \E i \in DOMAIN nums : ~NumAdmissible(nums[i])
\* (2) the document with every number between quotes holds no number at all: every room version accepts it, the
\*     literals are kept character by character as strings, and the looks of its strings include the looks of the
\*     literals (so the families built with Quoted cover every class the number families cover; the Quoted
\*     documents of the num family are scenarios themselves - numstr A -, so CanonDenotesValue ... CanonIsCanonical
\*     are checked for them as for every scenario)
RECURSIVE CharsKept(_, _)
CharsKept(lits, strs) == lits = <<>> \/ (\E i \in DOMAIN strs : strs[i] = Head(lits) /\ CharsKept(Tail(lits), SubSeq(strs, i + 1, Len(strs))))
QuotedIsNoNumber == AtStart => LET q     == Quoted(scen.v)
                                   lits  == LitsOf(scen.v)
                                   looks == LooksOf(q)
                                   lset  == {looks[j] : j \in DOMAIN looks}
                               IN /\ LitsOf(q) = <<>> /\ ~EnforcedMustReject(q)
                                  /\ CharsKept(lits, StrsOf(q))
                                  /\ \A i \in DOMAIN lits : LitLook(lits[i]) \in lset
=============================================================================
