SPECIFICATION FormSpec
CONSTANTS
  Entities <- GenEntities
  KeyIDs <- FormKeyIDs
  Keys <- GenKeys
  PlainMembers <- GenPlain
  NestedMembers <- GenNested
  Vals <- GenVals
  NVals <- GenNVals
  UVals <- GenUVals
  Presentations <- GenPres
  ForeignForms <- GenForms
  EntityForms <- GenEntForms
  Starts <- StartsFormThorough
  MaxLen = 4
  MaxSigns = 4
INVARIANTS TypeOK Complete CompleteNet Sound SoundTamper OneKey SignPreserves UncoveredFree EditsKeepSignatures ForeignEntryLocal ForeignEntityLocal FormsIrrelevant Emit
CHECK_DEADLOCK FALSE
