SPECIFICATION GenSpec
CONSTANTS
  Tier = "quick"
  Scenarios = {}
INVARIANTS TypeOK CanonDenotesValue CanonFixedPoint CanonIsCanonical AltIsCanonical
           WriterStatusSound PresentationDenotesValue CanonUnique CanonicalIffFixed
           KindsDoNotCross QuotedIsNoNumber
           KeyOrderIsByteOrder UnitOrderDiffersExactly CanonKeysInByteOrder Emit
CHECK_DEADLOCK FALSE
