SPECIFICATION GenSpec
CONSTANTS
  Tier = "quick"
  Scenarios = {}
INVARIANTS TypeOK CanonDenotesValue CanonFixedPoint CanonIsCanonical AltIsCanonical
           WriterStatusSound PresentationDenotesValue CanonUnique CanonicalIffFixed
           KindsDoNotCross QuotedIsNoNumber Emit
CHECK_DEADLOCK FALSE
