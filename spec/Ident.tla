------------------------------- MODULE Ident -------------------------------
(***************************************************************************)
(* C17 (first sentence) - Matrix identifier grammars and the base64 codec. *)
(*                                                                         *)
(* Written from the Matrix specification (appendices "Server name",        *)
(* "User identifiers", "Room IDs", "Unpadded Base64"), not from the code:  *)
(* every grammar is a declarative recogniser ("there is a split such that  *)
(* the left part is a localpart and the right part is a server name"),     *)
(* over strings represented as sequences of characters.                    *)
(*                                                                         *)
(* A string is a sequence of one-character elements.  Four elements stand  *)
(* for something that cannot be written as a TLA+ character:               *)
(*    "sp"  U+0020      "nul" U+0000                                       *)
(*    "lf"  U+000A      "cr"  U+000D      "tab" U+0009                     *)
(*    "u2"  a 2-byte code point      "u4"  a 4-byte code point             *)
(* and "PAD" stands for `padlen` copies of the letter p (so that total     *)
(* lengths 254 / 255 / 256 are reached without 256-element sequences).     *)
(*                                                                         *)
(* The speller is a state machine that emits a string atom by atom         *)
(* (Spell), fixes the padding (Close) and judges it (Judge).  Atoms are    *)
(* single characters or multi-character units where enumerating the        *)
(* characters would be pointless: an IPv4 literal, a table of valid and    *)
(* invalid IPv6 bodies, port strings, 42/43/44-character opaque IDs.       *)
(*                                                                         *)
(* Verdicts are three-valued: "acc" (the grammar demands acceptance),      *)
(* "rej" (demands refusal), "free" (the property statement does not        *)
(* decide: the strict and the lax reading of a contested clause differ).   *)
(* Contested clauses (lax = TRUE admits them):                             *)
(*   L1  '+' in a strict localpart (added to the grammar in later          *)
(*       revisions of the specification);                                  *)
(*   L2  the empty localpart in historical mode (the property says         *)
(*       "non-empty parts", DESIGN.md fixes "empty admitted");             *)
(*   L3  NUL in the opaque part of a room ID;                              *)
(*   L4  bracketed bodies made of IPv6 characters (2..45 of them) that     *)
(*       are in neither table (the tables are not the RFC 3513 grammar);   *)
(*   L5  more than 255 bytes but at most 255 code points (unit of the      *)
(*       "length limit").                                                  *)
(* Interpretation fixed in DESIGN.md: strict localpart = [0-9a-z_\-=./]+,  *)
(* historical localpart = any characters except ':'.                       *)
(*                                                                         *)
(* Mode "stray": WHERE a stray byte is and WHICH one.  Line feed, carriage *)
(* return, tab, space and NUL are in no alphabet of any grammar except the *)
(* two "any character" parts (historical localpart, opaque part of a room  *)
(* ID with a domain): put anywhere into a server name or a domainless room *)
(* ID they make it invalid - also where a lenient decoder of some other    *)
(* format (base64 readers skip CR / LF) would not notice them.  Init takes *)
(* a valid identifier of each kind and inserts one such byte at every      *)
(* position (before and after the sigil, inside, at the very end), puts it *)
(* in the place of every character, or inserts a run of them (two, CR LF,  *)
(* as many as fill the identifier to 255 / 256 bytes) at the ends and in   *)
(* the middle.                                                             *)
(***************************************************************************)
EXTENDS Integers, Sequences, FiniteSets, TLC

CONSTANTS Mode,        \* "free": every sequence over FreeAlphabet up to FreeLen atoms;
                       \* "struct": grammar-guided positions with at most MaxDev deviations
                       \* "stray": valid identifiers with a stray byte / a run of stray bytes at every place
                       \* "stray7": the same, the single stray byte at the 3 first, the 3 last and every 7th position
          FreeLen,
          MaxDev

\* --------------------------------------------------------------------------
\* characters
\* --------------------------------------------------------------------------
Digits   == {"0", "1", "2", "3", "4", "5", "6", "7", "8", "9"}
HexLower == {"a", "b", "c", "d", "e", "f"}
HexUpper == {"A", "B", "C", "D", "E", "F"}
Lowers   == HexLower \cup {"g", "p", "z", "PAD"}
Uppers   == HexUpper \cup {"G", "Z"}
Puncts   == {"@", "!", "$", "#", ":", "[", "]", ".", "-", "_", "=", "/", "+", "%"}
Specials == {"sp", "nul", "u2", "u4", "lf", "cr", "tab"}
StrayBytes == {"lf", "cr", "tab", "sp", "nul"}
KnownChars == Digits \cup Lowers \cup Uppers \cup Puncts \cup Specials

IsDigit(c) == c \in Digits
IsAlpha(c) == c \in Lowers \cup Uppers
DnsChar(c) == IsDigit(c) \/ IsAlpha(c) \/ c \in {"-", "."}
StrictLocalChar(c) == IsDigit(c) \/ c \in Lowers \/ c \in {"_", "-", "=", ".", "/"}
UrlSafeChar(c) == IsDigit(c) \/ IsAlpha(c) \/ c \in {"-", "_"}
V6Char(c) == IsDigit(c) \/ c \in HexLower \cup HexUpper \cup {":", "."}

CharClass(c) == CASE c \in Digits -> "digit" [] c \in Lowers -> "lower" [] c \in Uppers -> "upper" [] OTHER -> c

DigitVal(c) == CASE c = "0" -> 0 [] c = "1" -> 1 [] c = "2" -> 2 [] c = "3" -> 3 [] c = "4" -> 4
                 [] c = "5" -> 5 [] c = "6" -> 6 [] c = "7" -> 7 [] c = "8" -> 8 [] c = "9" -> 9

Rep(c, k) == [i \in 1..k |-> c]
All(s, P(_)) == \A i \in 1..Len(s) : P(s[i])
Tail2(s) == SubSeq(s, 2, Len(s))

\* --------------------------------------------------------------------------
\* atoms
\* --------------------------------------------------------------------------
V6OkAtoms == {"v6ok1", "v6ok2", "v6ok3", "v6ok4", "v6ok5", "v6ok6", "v6ok7", "v6ok8", "v6ok9", "v6ok10",
              "v6ok11", "v6ok12", "v6ok13", "v6ok14", "v6ok15"}
V6NoAtoms == {"v6no1", "v6no2", "v6no3", "v6no4", "v6no5", "v6no6", "v6no7", "v6no8", "v6no9", "v6no10",
              "v6no11", "v6no12", "v6no13", "v6no14", "v6no15", "v6no16", "v6no17", "v6no18"}
V6Atoms == V6OkAtoms \cup V6NoAtoms
PortAtoms == {"p0", "p80", "p65535", "p65536", "p99999", "p000080", "p00080", "p+80", "p-1"}
OpaqueAtoms == {"b43", "b42", "b44", "b43std", "b43pad"}

Chars(a) ==
  CASE a = "ipv4" -> <<"1", ".", "2", ".", "3", ".", "4">>
  [] a = "ipv4big" -> <<"1", ".", "2", ".", "3", ".", "2", "5", "6">>     \* not an IPv4 literal, still a DNS name
  [] a = "p0" -> <<"0">>
  [] a = "p80" -> <<"8", "0">>
  [] a = "p65535" -> <<"6", "5", "5", "3", "5">>
  [] a = "p65536" -> <<"6", "5", "5", "3", "6">>
  [] a = "p99999" -> <<"9", "9", "9", "9", "9">>
  [] a = "p000080" -> <<"0", "0", "0", "0", "8", "0">>
  [] a = "p00080" -> <<"0", "0", "0", "8", "0">>
  [] a = "p+80" -> <<"+", "8", "0">>
  [] a = "p-1" -> <<"-", "1">>
  [] a = "ipv4lz" -> <<"0", "1", ".", "2", ".", "3", ".", "4">>               \* leading zero in an octet (1*3DIGIT allows it)
  [] a = "ipv4max" -> <<"2", "5", "5", ".", "2", "5", "5", ".", "2", "5", "5", ".", "2", "5", "5">>
  [] a = "b43" -> Rep("A", 20) \o <<"-", "_">> \o Rep("a", 10) \o Rep("7", 11)
  [] a = "b42" -> Rep("A", 19) \o <<"-", "_">> \o Rep("a", 10) \o Rep("7", 11)
  [] a = "b44" -> Rep("A", 21) \o <<"-", "_">> \o Rep("a", 10) \o Rep("7", 11)
  [] a = "b43std" -> Rep("A", 20) \o <<"+", "/">> \o Rep("a", 10) \o Rep("7", 11)
  [] a = "b43pad" -> Rep("A", 20) \o <<"-", "_">> \o Rep("a", 10) \o Rep("7", 10) \o <<"=">>
  [] a = "v6ok1" -> <<":", ":">>
  [] a = "v6ok2" -> <<":", ":", "1">>
  [] a = "v6ok3" -> <<"1", ":", ":">>
  [] a = "v6ok4" -> <<"2", "0", "0", "1", ":", "d", "b", "8", ":", ":", "1">>
  [] a = "v6ok5" -> <<"1", ":", "2", ":", "3", ":", "4", ":", "5", ":", "6", ":", "7", ":", "8">>
  [] a = "v6ok6" -> <<"f", "e", "8", "0", ":", ":", "1">>
  [] a = "v6ok7" -> <<":", ":", "f", "f", "f", "f", ":", "1", ".", "2", ".", "3", ".", "4">>
  [] a = "v6ok8" -> <<"1", ":", "2", ":", "3", ":", "4", ":", "5", ":", "6", ":", "1", ".", "2", ".", "3", ".", "4">>
  [] a = "v6ok9" -> <<"A", "B", "C", "D", ":", "E", "F", "0", "1", ":", "2", "3", "4", "5", ":", "6", "7", "8", "9", ":",
                      "A", "B", "C", "D", ":", "E", "F", "0", "1", ":", "2", "3", "4", "5", ":", "6", "7", "8", "9">>
  [] a = "v6ok10" -> <<"2", "0", "0", "1", ":", "D", "B", "8", ":", "0", ":", "0", ":", "8", ":", "8", "0", "0", ":",
                       "2", "0", "0", "C", ":", "4", "1", "7", "A">>
  [] a = "v6ok11" -> <<":", ":", "1", ".", "2", ".", "3", ".", "4">>
  [] a = "v6ok12" -> <<"f", "f", "0", "1", ":", ":", "1", "0", "1">>
  [] a = "v6ok13" -> <<"0", ":", "0", ":", "0", ":", "0", ":", "0", ":", "0", ":", "0", ":", "1">>
  [] a = "v6ok14" -> <<"1", ":", ":", "8">>
  [] a = "v6ok15" -> <<"2", "0", "0", "1", ":", "0", "d", "b", "8", ":", "0", "0", "0", "0", ":", "0", "0", "0", "0", ":",
                       "0", "0", "0", "0", ":", "0", "0", "0", "0", ":", "0", "0", "0", "0", ":", "0", "0", "0", "1">>
  [] a = "v6no1" -> <<>>                                                    \* "[]"
  [] a = "v6no2" -> <<"1">>
  [] a = "v6no3" -> <<":", ":", ":">>
  [] a = "v6no4" -> <<"1", ":", "2", ":", "3", ":", "4", ":", "5", ":", "6", ":", "7", ":", "8", ":", "9">>
  [] a = "v6no5" -> <<"g", ":", ":", "1">>
  [] a = "v6no6" -> <<"1", ":", ":", "2", ":", ":", "3">>
  [] a = "v6no7" -> <<"1", "2", "3", "4", "5", ":", ":", "1">>
  [] a = "v6no8" -> <<":", ":", "1", "%", "e">>                             \* zone
  [] a = "v6no9" -> <<"1", ".", "2", ".", "3", ".", "4">>                   \* a bracketed IPv4 literal
  [] a = "v6no10" -> <<":", "1">>
  [] a = "v6no11" -> <<"1", ":">>
  [] a = "v6no12" -> <<"1", ":", "2", ":", "3", ":", "4", ":", "5", ":", "6", ":", "7">>
  [] a = "v6no13" -> <<":", ":", "1", ".", "2", ".", "3">>
  [] a = "v6no14" -> <<":", ":", "1", ".", "2", ".", "3", ".", "2", "5", "6">>
  [] a = "v6no15" -> <<"1", ":", "2", ":", "3", ":", "4", ":", "5", ":", "6", ":", "7", ":", "1", ".", "2", ".", "3", ".", "4">>
  [] a = "v6no16" -> <<":", ":", "1", "]">>
  [] a = "v6no17" -> <<"[", ":", ":", "1">>
  [] a = "v6no18" -> <<":", ":", "sp", "1">>
  [] OTHER -> <<a>>                                                         \* a single character is its own atom

ValidV6   == {Chars(a) : a \in V6OkAtoms}     \* RFC 3513 section 2.2 text forms
InvalidV6 == {Chars(a) : a \in V6NoAtoms}

RECURSIVE Flatten(_)
Flatten(as) == IF as = <<>> THEN <<>> ELSE Chars(Head(as)) \o Flatten(Tail(as))

\* --------------------------------------------------------------------------
\* speller state
\* --------------------------------------------------------------------------
VARIABLES atoms,     \* atoms emitted so far
          pos,       \* grammar position of the speller
          n,         \* atoms emitted at this position
          dev,       \* deviations from the canonical skeleton "@a:a" / "!a:a" / "a" spent so far
          phase,     \* "spell" | "closed" | "done"
          padlen,    \* number of p's the PAD element stands for (0: no PAD in the string)
          out        \* the judgement (history variable written by Judge)

vars == <<atoms, pos, n, dev, phase, padlen, out>>

\* lengths (functions of the state because of PAD)
BaseWidth(c) == CASE c = "u2" -> 2 [] c = "u4" -> 4 [] OTHER -> 1
Width(c) == IF c = "PAD" THEN padlen ELSE BaseWidth(c)
Count(c) == IF c = "PAD" THEN padlen ELSE 1
ByteLen(s) == LET f[i \in 0..Len(s)] == IF i = 0 THEN 0 ELSE f[i - 1] + Width(s[i]) IN f[Len(s)]
CpLen(s)   == LET f[i \in 0..Len(s)] == IF i = 0 THEN 0 ELSE f[i - 1] + Count(s[i]) IN f[Len(s)]

\* --------------------------------------------------------------------------
\* grammars
\* --------------------------------------------------------------------------
\* value of a digit string of at most 6 digits (longer ones are only ever compared with 65535)
Val(p) == IF Len(p) > 6 THEN 999999
          ELSE LET f[i \in 0..Len(p)] == IF i = 0 THEN 0 ELSE f[i - 1] * 10 + DigitVal(p[i]) IN f[Len(p)]

\* port = 1*5DIGIT, at most 65535
PortOK(p) == Len(p) \in 1..5 /\ All(p, IsDigit) /\ Val(p) <= 65535

\* IPv4address = 1*3DIGIT "." 1*3DIGIT "." 1*3DIGIT "." 1*3DIGIT, each in 0..255
Octet(o) == Len(o) \in 1..3 /\ All(o, IsDigit) /\ Val(o) <= 255
IPv4OK(h) == /\ Len(h) \in 7..15 /\ All(h, LAMBDA c : IsDigit(c) \/ c = ".")
             /\ \E i, j, k \in 1..Len(h) :
                /\ i < j /\ j < k /\ h[i] = "." /\ h[j] = "." /\ h[k] = "."
                /\ Octet(SubSeq(h, 1, i - 1)) /\ Octet(SubSeq(h, i + 1, j - 1))
                /\ Octet(SubSeq(h, j + 1, k - 1)) /\ Octet(SubSeq(h, k + 1, Len(h)))

\* dns-name = 1*255dns-char
DnsOK(h) == Len(h) >= 1 /\ All(h, DnsChar) /\ CpLen(h) <= 255

\* "[" IPv6address "]", IPv6address = 2*45IPv6char that is an RFC 3513 text form
V6Shape(b) == Len(b) \in 2..45 /\ All(b, V6Char)
V6OK(b, lax) == b \in ValidV6 \/ (lax /\ b \notin InvalidV6 /\ V6Shape(b))          \* L4
BracketOK(h, lax) == Len(h) >= 2 /\ h[1] = "[" /\ h[Len(h)] = "]" /\ V6OK(SubSeq(h, 2, Len(h) - 1), lax)

HostOK(h, lax) == IPv4OK(h) \/ DnsOK(h) \/ BracketOK(h, lax)

\* server_name = hostname [ ":" port ];  split 0 = no port, split j = the port colon is element j
SNSplits(s, lax) == {j \in 0..Len(s) : IF j = 0 THEN HostOK(s, lax)
                                       ELSE /\ s[j] = ":"
                                            /\ HostOK(SubSeq(s, 1, j - 1), lax)
                                            /\ PortOK(SubSeq(s, j + 1, Len(s)))}
ServerNameOK(s, lax) == SNSplits(s, lax) # {}

\* length limit of user and room IDs: 255 (bytes; L5: code points)
LimitOK(s, lax) == IF lax THEN CpLen(s) <= 255 ELSE ByteLen(s) <= 255

\* user_id = "@" localpart ":" server_name
LocalOK(l, mode, lax) ==
    IF mode = "strict"
    THEN Len(l) >= 1 /\ All(l, LAMBDA c : StrictLocalChar(c) \/ (lax /\ c = "+"))    \* L1
    ELSE All(l, LAMBDA c : c # ":") /\ (lax \/ Len(l) >= 1)                          \* L2
USplits(s, mode, lax) == {i \in 2..Len(s) : /\ s[i] = ":"
                                            /\ LocalOK(SubSeq(s, 2, i - 1), mode, lax)
                                            /\ ServerNameOK(SubSeq(s, i + 1, Len(s)), lax)}
UserIDOK(s, mode, lax) == Len(s) >= 1 /\ s[1] = "@" /\ LimitOK(s, lax) /\ USplits(s, mode, lax) # {}

\* room_id = "!" opaque_id ":" server_name   |   "!" 43 URL-safe base64 characters (room version 12)
OpaqueOK(o, lax) == Len(o) >= 1 /\ All(o, LAMBDA c : c # ":") /\ (lax \/ All(o, LAMBDA c : c # "nul"))   \* L3
RSplits(s, lax) == {i \in 2..Len(s) : /\ s[i] = ":"
                                      /\ OpaqueOK(SubSeq(s, 2, i - 1), lax)
                                      /\ ServerNameOK(SubSeq(s, i + 1, Len(s)), lax)}
DomainlessOK(s) == All(s, LAMBDA c : c # ":") /\ CpLen(Tail2(s)) = 43 /\ All(Tail2(s), UrlSafeChar)
RoomIDOK(s, lax) == Len(s) >= 1 /\ s[1] = "!" /\ LimitOK(s, lax) /\ (RSplits(s, lax) # {} \/ DomainlessOK(s))

Verdict(strictReading, laxReading) == IF strictReading THEN "acc" ELSE IF laxReading THEN "free" ELSE "rej"

\* --------------------------------------------------------------------------
\* canonical description of a string (only used to name disagreements)
\* --------------------------------------------------------------------------
FirstColon(s) == IF \E i \in 1..Len(s) : s[i] = ":" THEN CHOOSE i \in 1..Len(s) : s[i] = ":" /\ \A k \in 1..(i - 1) : s[k] # ":" ELSE 0
LastColon(s) == IF \E i \in 1..Len(s) : s[i] = ":" THEN CHOOSE i \in 1..Len(s) : s[i] = ":" /\ \A k \in (i + 1)..Len(s) : s[k] # ":" ELSE 0

HostForm(h) ==
    CASE Len(h) = 0 -> "empty"
      [] IPv4OK(h) -> "ipv4"
      [] DnsOK(h) -> "dns"
      [] All(h, DnsChar) -> "dns>255"
      [] Len(h) >= 2 /\ h[1] = "[" /\ h[Len(h)] = "]" ->
            LET b == SubSeq(h, 2, Len(h) - 1) IN
            IF b \in ValidV6 THEN "[v6]"
            ELSE IF IPv4OK(b) THEN "[ipv4]"
            ELSE IF b \in InvalidV6 THEN "[v6bad]"
            ELSE IF V6Shape(b) THEN "[v6unlisted]" ELSE "[other]"
      [] h[1] = "[" -> "unclosed"
      [] h \in ValidV6 -> "v6-unbracketed"
      [] OTHER -> "badchar"
PortForm(p) ==
    CASE Len(p) = 0 -> "empty"
      [] ~All(p, IsDigit) -> "nondigit"
      [] Len(p) > 5 -> ">5digits"
      [] Val(p) > 65535 -> ">65535"
      [] OTHER -> "ok"
\* (host, port) as a reader would take them: the port is what follows the last colon outside brackets
CandSplit(s) == IF s[Len(s)] = "]" \/ s \in ValidV6 THEN 0 ELSE LastColon(s)      \* a bare IPv6 literal has no port
CandHost(s) == LET j == CandSplit(s) IN IF j = 0 THEN s ELSE SubSeq(s, 1, j - 1)
CandPort(s) == LET j == CandSplit(s) IN IF j = 0 THEN <<"none">> ELSE SubSeq(s, j + 1, Len(s))
HostGood(f) == f \in {"ipv4", "dns", "[v6]", "[v6unlisted]"}
\* full description, and the clauses at fault (those that fail even in the lax reading)
SNForm(s) == IF Len(s) = 0 THEN "empty"
             ELSE "host=" \o HostForm(CandHost(s)) \o ",port=" \o (IF CandPort(s) = <<"none">> THEN "none" ELSE PortForm(CandPort(s)))
SNFault(s) == IF Len(s) = 0 THEN "empty;"
              ELSE (IF HostGood(HostForm(CandHost(s))) THEN "" ELSE "host=" \o HostForm(CandHost(s)) \o ";")
                   \o (IF CandPort(s) = <<"none">> \/ PortForm(CandPort(s)) = "ok" THEN "" ELSE "port=" \o PortForm(CandPort(s)) \o ";")
FirstBad(l, P(_)) == CharClass(l[CHOOSE i \in 1..Len(l) : ~P(l[i]) /\ \A k \in 1..(i - 1) : P(l[k])])
LocalFault(l, kind) ==
    CASE kind = "strict" -> IF Len(l) = 0 THEN "local=empty;"
                            ELSE IF All(l, LAMBDA c : StrictLocalChar(c) \/ c = "+") THEN ""
                            ELSE "local=has:" \o FirstBad(l, LAMBDA c : StrictLocalChar(c) \/ c = "+") \o ";"
      [] kind = "hist" -> ""
      [] kind = "room" -> IF Len(l) = 0 THEN "opaque=empty;" ELSE ""
LocalForm(l, kind) ==
    IF Len(l) = 0 THEN "empty"
    ELSE IF kind = "strict" THEN (IF All(l, StrictLocalChar) THEN "ok" ELSE "has:" \o FirstBad(l, StrictLocalChar))
    ELSE IF All(l, LAMBDA c : c # "nul") THEN "ok" ELSE "has:nul"
DomainlessForm(s) == "domainless,n" \o (IF CpLen(Tail2(s)) < 43 THEN "<43" ELSE IF CpLen(Tail2(s)) = 43 THEN "=43" ELSE ">43")
                     \o (IF All(Tail2(s), UrlSafeChar) THEN "" ELSE ",has:" \o FirstBad(Tail2(s), UrlSafeChar))
\* kind: "strict" | "hist" (user IDs), "room"
IDSigil(kind) == IF kind = "room" THEN "!" ELSE "@"
IDForm(s, kind) ==
    IF Len(s) = 0 THEN "empty"
    ELSE IF s[1] # IDSigil(kind) THEN "sigil=" \o CharClass(s[1])
    ELSE LET i == FirstColon(s) IN
         IF i = 0 THEN (IF kind = "room" THEN DomainlessForm(s) ELSE "nocolon")
         ELSE "local=" \o LocalForm(SubSeq(s, 2, i - 1), kind) \o "," \o SNForm(SubSeq(s, i + 1, Len(s)))
IDFault(s, kind) ==
    IF Len(s) = 0 THEN "empty;"
    ELSE IF s[1] # IDSigil(kind) THEN "sigil=" \o CharClass(s[1]) \o ";"
    ELSE LET i == FirstColon(s) IN
         (IF i = 0 THEN (IF kind = "room" THEN (IF DomainlessOK(s) THEN "" ELSE DomainlessForm(s) \o ";") ELSE "nocolon;")
          ELSE LocalFault(SubSeq(s, 2, i - 1), kind) \o SNFault(SubSeq(s, i + 1, Len(s))))
         \o (IF CpLen(s) > 255 THEN "len>255;" ELSE "")
\* name of a disagreement: the faults when the grammar refuses, the whole description when it accepts
KeyOf(form, fault) == IF fault = "" THEN "valid:" \o form ELSE "fault:" \o fault

\* --------------------------------------------------------------------------
\* the speller
\* --------------------------------------------------------------------------
FreeAlphabet == {"@", "!", "$", ":", "[", "]", ".", "-", "7", "a", "A", "_", "=", "/", "+", "sp", "nul", "u2", "u4"}
LocalAtoms == {"a", "A", "7", "_", "=", "/", "+", ".", "-", "sp", "nul", "u2", "u4", "[", "PAD", "@", "!"}   \* incl. a sigil inside the localpart
HostAtoms  == {"a", "A", "7", ".", "-", "_", "u2", "PAD"}
TailAtoms  == {":", "a", "]"}
UnbracketedV6 == {"v6ok2", "v6ok5", "v6ok7", "v6ok11"}     \* IPv6 literals written without their brackets (never a host)

\* atoms that may follow at a position, with the position they lead to and their cost in deviations
Moves(p, k) ==
    CASE p = "free"     -> {[a |-> a, to |-> "free", cost |-> 0] : a \in FreeAlphabet}
      [] p = "start"    -> {[a |-> a, to |-> "local", cost |-> IF a \in {"$", "#"} THEN 1 ELSE 0] : a \in {"@", "!", "$", "#"}}   \* "#": a room alias shape
      [] p = "local"    -> (IF k < 2 THEN {[a |-> a, to |-> "local", cost |-> IF k = 0 /\ a = "a" THEN 0 ELSE 1] : a \in LocalAtoms} ELSE {})
                           \cup {[a |-> ":", to |-> "host", cost |-> 0]}
                           \cup (IF k = 0 THEN {[a |-> a, to |-> "end", cost |-> 1] : a \in OpaqueAtoms} ELSE {})
      [] p = "host"     -> (IF k < 2 THEN {[a |-> a, to |-> "host", cost |-> IF k = 0 /\ a = "a" THEN 0 ELSE 1] : a \in HostAtoms} ELSE {})
                           \cup (IF k = 0 THEN {[a |-> a, to |-> "hostdone", cost |-> 1] : a \in {"ipv4", "ipv4big", "ipv4lz", "ipv4max"} \cup UnbracketedV6}
                                               \cup {[a |-> "[", to |-> "v6", cost |-> 1]} ELSE {})
                           \cup {[a |-> ":", to |-> "port", cost |-> 0]}
      [] p = "v6"       -> {[a |-> a, to |-> "v6close", cost |-> 0] : a \in V6Atoms}
      [] p = "v6close"  -> {[a |-> "]", to |-> "hostdone", cost |-> 0], [a |-> ":", to |-> "port", cost |-> 0]}
      [] p = "hostdone" -> {[a |-> ":", to |-> "port", cost |-> 0]}
      [] p = "port"     -> {[a |-> a, to |-> "end", cost |-> 1] : a \in PortAtoms}
      [] p = "end"      -> {[a |-> a, to |-> "stop", cost |-> 1] : a \in TailAtoms}
      [] OTHER          -> {}

HasPad == \E i \in 1..Len(atoms) : atoms[i] = "PAD"

Spell(m) ==
    /\ phase = "spell"
    /\ m \in Moves(pos, n)
    /\ IF Mode = "free" THEN Len(atoms) < FreeLen ELSE dev + m.cost <= MaxDev
    /\ ~(m.a = "PAD" /\ HasPad)                   \* at most one PAD
    /\ atoms' = Append(atoms, m.a)
    /\ pos' = m.to
    /\ n' = IF m.to = pos THEN n + 1 ELSE 0
    /\ dev' = dev + m.cost
    /\ UNCHANGED <<phase, padlen, out>>

\* every prefix is a string of its own: close it (choosing the total byte length when it contains PAD)
Close(total) ==
    /\ phase = "spell"
    /\ IF HasPad THEN total \in {254, 255, 256} ELSE total = 0
    /\ LET cs == SelectSeq(Flatten(atoms), LAMBDA c : c # "PAD")
           rest == LET f[i \in 0..Len(cs)] == IF i = 0 THEN 0 ELSE f[i - 1] + BaseWidth(cs[i]) IN f[Len(cs)]
       IN  padlen' = IF HasPad THEN total - rest ELSE 0
    /\ phase' = "closed"
    /\ UNCHANGED <<atoms, pos, n, dev, out>>

Judge ==
    /\ phase = "closed"
    /\ LET s == Flatten(atoms)
           fc == FirstColon(s)
           sn == SNSplits(s, FALSE)
           j == IF sn = {} THEN 0 ELSE CHOOSE x \in sn : TRUE
       IN out' = [ s  |-> s,
                   us |-> Verdict(UserIDOK(s, "strict", FALSE), UserIDOK(s, "strict", TRUE)),
                   uh |-> Verdict(UserIDOK(s, "hist", FALSE), UserIDOK(s, "hist", TRUE)),
                   rm |-> Verdict(RoomIDOK(s, FALSE), RoomIDOK(s, TRUE)),
                   sn |-> Verdict(ServerNameOK(s, FALSE), ServerNameOK(s, TRUE)),
                   \* expected parts: the ID separator is element `cut` (0: domainless), the port colon element `pcut`
                   cut |-> fc,
                   pcut |-> j,
                   port |-> IF j = 0 THEN -1 ELSE Val(SubSeq(s, j + 1, Len(s))),
                   nsplit |-> Cardinality(SNSplits(s, TRUE)),
                   bytes |-> ByteLen(s),
                   fu |-> IDFault(s, "strict"), fh |-> IDFault(s, "hist"), fr |-> IDFault(s, "room"), fs |-> SNFault(s),
                   ku |-> KeyOf(IDForm(s, "strict"), IDFault(s, "strict")), kh |-> KeyOf(IDForm(s, "hist"), IDFault(s, "hist")),
                   kr |-> KeyOf(IDForm(s, "room"), IDFault(s, "room")), ks |-> KeyOf(SNForm(s), SNFault(s)) ]
    /\ phase' = "done"
    /\ UNCHANGED <<atoms, pos, n, dev, padlen>>

NoOut == [s |-> <<>>]

\* --- mode "stray" ---------------------------------------------------------------
\* valid identifiers of every kind, as sequences of single characters (all ASCII: elements = bytes)
StrayBases == { <<"!">> \o Chars("b43"),                                        \* domainless room ID
                <<"!", "a", "A", ":", "a", ".", "a", ":", "8", "0">>,            \* room ID with a domain
                <<"@", "a", "7", ":", "a", ".", "a", ":", "8", "0">>,            \* user ID
                <<"a", "-", "a", ".", "a", ":", "8", "0">>,                      \* server name with a port
                <<"[", ":", ":", "1", "]", ":", "8", "0">>,                      \* IPv6 literal with a port
                <<"1", ".", "2", ".", "3", ".", "4">> }                          \* IPv4 literal
Ins(base, i, x) == SubSeq(base, 1, i) \o x \o SubSeq(base, i + 1, Len(base))       \* x after element i (0: in front)
Repl(base, i, c) == [base EXCEPT ![i] = c]
\* short runs: two of a kind, CR LF; long runs: as many as fill the identifier to exactly 255 bytes (and, for
\* the line feed, to 256)
ShortRuns == {<<c, c>> : c \in StrayBytes} \cup {<<"cr", "lf">>}
\* (long strings are costly to judge: for the domainless room ID and the server name with a port only)
LongBases == {<<"!">> \o Chars("b43"), <<"a", "-", "a", ".", "a", ":", "8", "0">>}
LongRuns(base) == IF base \in LongBases THEN {Rep(c, 255 - Len(base)) : c \in StrayBytes} \cup {Rep("lf", 256 - Len(base))} ELSE {}
Spots(base) == {0, 1, Len(base) \div 2, Len(base) - 1, Len(base)}
EndSpots(base) == {1, Len(base)}                 \* right after the sigil / first character, and at the very end
IsStray == Mode \in {"stray", "stray7"}
StrayStride == IF Mode = "stray7" THEN 7 ELSE 1
Sampled(base) == {i \in 0..Len(base) : i <= 2 \/ i >= Len(base) - 2 \/ i % StrayStride = 0}
StrayStrings == UNION {   {Ins(base, i, <<c>>) : i \in Sampled(base), c \in StrayBytes}
                     \cup {Repl(base, i, c) : i \in Sampled(base) \ {0}, c \in StrayBytes}
                     \cup {Ins(base, i, x) : i \in Spots(base), x \in ShortRuns}
                     \cup {Ins(base, i, x) : i \in EndSpots(base), x \in LongRuns(base)}
                     \cup {base}
                   : base \in StrayBases }

Init == /\ n = 0 /\ dev = 0 /\ phase = "spell" /\ padlen = 0 /\ out = NoOut
        /\ IF IsStray THEN atoms \in StrayStrings /\ pos = "stop"
           ELSE atoms = <<>> /\ pos \in (IF Mode = "free" THEN {"free"} ELSE {"start", "host"})

Next == \/ \E m \in Moves(pos, n) : Spell(m)
        \/ \E t \in {0, 254, 255, 256} : Close(t)
        \/ Judge

Spec == Init /\ [][Next]_vars

(***************************************************************************)
(* The property of the grammars themselves (oracle sanity), stated over    *)
(* the judgement.                                                          *)
(***************************************************************************)
Done == phase = "done"
S == out.s

TypeOK == /\ All(Flatten(atoms), LAMBDA c : c \in KnownChars)
          /\ padlen >= 0
          /\ (phase # "spell" /\ HasPad) => padlen >= 200

\* the lax reading only ever admits more
LaxAdmitsMore == Done => /\ (UserIDOK(S, "strict", FALSE) => UserIDOK(S, "strict", TRUE))
                         /\ (UserIDOK(S, "hist", FALSE) => UserIDOK(S, "hist", TRUE))
                         /\ (RoomIDOK(S, FALSE) => RoomIDOK(S, TRUE))
                         /\ (ServerNameOK(S, FALSE) => ServerNameOK(S, TRUE))
\* every strictly valid user ID is historically valid
StrictWithinHistorical == Done => (out.us = "acc" => out.uh = "acc")
\* the grammars are unambiguous: at most one way to split
Unambiguous == Done => /\ out.nsplit <= 1
                       /\ Cardinality(USplits(S, "hist", TRUE)) <= 1
                       /\ Cardinality(RSplits(S, TRUE)) <= 1
\* accepted identifiers: sigil, both parts non-empty (strict reading), parts re-concatenate, domain is a server name, length
AcceptedShape ==
    Done => /\ (out.us = "acc" \/ out.uh = "acc") =>
                 /\ S[1] = "@" /\ out.cut >= 3 /\ out.cut < Len(S) /\ ByteLen(S) <= 255
                 /\ <<"@">> \o SubSeq(S, 2, out.cut - 1) \o <<":">> \o SubSeq(S, out.cut + 1, Len(S)) = S
                 /\ ServerNameOK(SubSeq(S, out.cut + 1, Len(S)), FALSE)
            /\ (out.rm = "acc" /\ out.cut > 0) =>
                 /\ S[1] = "!" /\ out.cut >= 3 /\ out.cut < Len(S) /\ ByteLen(S) <= 255
                 /\ ServerNameOK(SubSeq(S, out.cut + 1, Len(S)), FALSE)
            /\ (out.rm = "acc" /\ out.cut = 0) => Len(S) = 44
            /\ (out.sn = "acc") => /\ Len(S) >= 1
                                   /\ (out.pcut > 0 => out.port \in 0..65535 /\ Len(S) - out.pcut \in 1..5)
                                   /\ (out.pcut = 0 => out.port = -1)
\* the clause-by-clause description used to name disagreements agrees with the recognisers
FaultAgrees == Done => /\ (out.us = "acc" => out.fu = "") /\ (out.us = "rej" => out.fu # "")
                       /\ (out.uh = "acc" => out.fh = "") /\ (out.uh = "rej" => out.fh # "")
                       /\ (out.rm = "acc" => out.fr = "") /\ (out.rm = "rej" => out.fr # "")
                       /\ (out.sn = "acc" => out.fs = "") /\ (out.sn = "rej" => out.fs # "")
\* no identifier is valid for two kinds; IPv4 literals are DNS names as well
KindsDisjoint == Done => ~(out.rm # "rej" /\ out.uh # "rej")
\* a stray byte (LF, CR, TAB, space, NUL) is in no server name, no strict user ID and no domainless room ID,
\* wherever it is and however many there are; where the grammar admits any character it changes nothing else
HasStray(s) == \E i \in 1..Len(s) : s[i] \in StrayBytes
StrayRefused == Done /\ HasStray(S) => /\ out.sn = "rej" /\ out.us = "rej"
                                       /\ (FirstColon(S) = 0 => out.rm = "rej" /\ out.uh = "rej")
                                       /\ (FirstColon(S) > 0 /\ HasStray(SubSeq(S, FirstColon(S) + 1, Len(S))) => out.rm = "rej" /\ out.uh = "rej")
\* the bases of mode "stray" are valid, each for its own kind
StrayBasesValid == \A b \in StrayBases : \/ RoomIDOK(b, FALSE) \/ UserIDOK(b, "strict", FALSE) \/ ServerNameOK(b, FALSE)
IPv4WithinDns == Done => (IPv4OK(S) => DnsOK(S))

(***************************************************************************)
(* Unpadded base64 (appendix "Unpadded Base64" + the URL-safe variant used *)
(* by event IDs of room version 4+).  Encoding is written out; decoding is *)
(* its inverse.                                                            *)
(***************************************************************************)
B64Common == <<"A", "B", "C", "D", "E", "F", "G", "H", "I", "J", "K", "L", "M", "N", "O", "P", "Q", "R", "S", "T", "U", "V",
               "W", "X", "Y", "Z", "a", "b", "c", "d", "e", "f", "g", "h", "i", "j", "k", "l", "m", "n", "o", "p", "q", "r",
               "s", "t", "u", "v", "w", "x", "y", "z", "0", "1", "2", "3", "4", "5", "6", "7", "8", "9">>
StdAlphabet == B64Common \o <<"+", "/">>
UrlAlphabet == B64Common \o <<"-", "_">>

RECURSIVE Sextets(_)
Sextets(b) ==
    CASE Len(b) = 0 -> <<>>
      [] Len(b) = 1 -> <<b[1] \div 4, (b[1] % 4) * 16>>
      [] Len(b) = 2 -> <<b[1] \div 4, (b[1] % 4) * 16 + b[2] \div 16, (b[2] % 16) * 4>>
      [] OTHER -> <<b[1] \div 4, (b[1] % 4) * 16 + b[2] \div 16, (b[2] % 16) * 4 + b[3] \div 64, b[3] % 64>>
                  \o Sextets(SubSeq(b, 4, Len(b)))
Encode(b, alphabet) == LET x == Sextets(b) IN [i \in 1..Len(x) |-> alphabet[x[i] + 1]]
\* decoding over a universe U of byte strings: the byte string whose encoding is the spelling, if any
Decodable(sp, alphabet, U) == \E b \in U : Encode(b, alphabet) = sp
Decode(sp, alphabet, U) == CHOOSE b \in U : Encode(b, alphabet) = sp
=============================================================================
