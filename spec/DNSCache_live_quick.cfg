SPECIFICATION FairSpec
CONSTANTS
  Procs = {"c1", "c2"}
  Hosts = {"a", "b"}
  Size = 1
  MaxCalls = 1
  MaxExpire = 1
  Kinds = {"lookup", "dial"}
  ZeroDuration = FALSE
  Faults = TRUE
INVARIANTS TypeOK SizeBound
PROPERTIES EveryCallReturns
