SPECIFICATION Spec
CONSTANTS
  Instants <- InstantsQ
  Durations <- DurationsQ
INVARIANTS BoundedByReceipt NoDurationNotSticky StablePreferred Emit
CHECK_DEADLOCK FALSE
