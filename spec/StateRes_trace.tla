--------------------------- MODULE StateRes_trace ---------------------------
(***************************************************************************)
(* Trace validation (code -> spec) for StateRes.tla.  Each line is one     *)
(* real call of ResolveConflictsNew on a room grown by the Go driver (real *)
(* events, real auth checks, real resolution at forks): the room in the    *)
(* abstract vocabulary, the state sets, and the IDs the library returned.  *)
(* A line is explained iff StateRes!Resolve derives exactly that state.    *)
(***************************************************************************)
EXTENDS StateRes, Json, IOUtils

Trace == ndJsonDeserialize(IOEnv.TRACE_FILE)

VARIABLES l, bad
vars == <<l, bad>>

\* JSON -> event store
EOf(r) == [i \in 1..Len(r.events) |->
             LET e == r.events[i] IN
             [type |-> e.type, sender |-> e.sender, skey |-> e.skey, membership |-> e.membership,
              plu |-> [u \in Users |-> e.plu[u]], jr |-> e.jr, prev |-> ToSet(e.prev), auth |-> ToSet(e.auth),
              depth |-> e.depth, ts |-> e.ts, idr |-> e.idr, sha |-> e.sha, rejected |-> FALSE, addl |-> ToSet(e.addl),
              pud |-> e.pud, spell |-> e.spell]]
SetsOf(r) == [k \in 1..Len(r.sets) |-> ToSet(r.sets[k])]

\* (the spelling of the levels of a power-levels event is logged and must be one the room version reads; the
\* definition reads the same levels from every spelling)
Explains(r) == /\ \A i \in DOMAIN EOf(r) : SpellAdmitted(r.ver, EOf(r)[i].spell)
               /\ Resolve(EOf(r), r.ver, SetsOf(r)) = ToSet(r.got)

Init == l = 1 /\ bad = <<>>
Step == /\ l <= Len(Trace)
        /\ bad' = IF Explains(Trace[l]) THEN bad ELSE Append(bad, l)
        /\ l' = l + 1
Next == Step
Spec == Init /\ [][Next]_vars

Report == (l = Len(Trace) + 1 /\ bad # <<>>) => PrintT("TRACE_REJECTED " \o ToJson(bad))
TraceAccepted == TLCGet("stats").diameter - 1 = Len(Trace)
=============================================================================
