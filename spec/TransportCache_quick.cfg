SPECIFICATION Spec
CONSTANTS
  Procs = {"c1", "c2"}
  Names = {"a", "b"}
  MaxCalls = 2
  MaxAge = 2
  MaxReap = 2
  Faults = TRUE
VIEW View
INVARIANTS TypeOK OneTransportPerName IdentitiesNeverReused NeverHalfInitialised BoundedRetries OnlyAgedAreReaped
