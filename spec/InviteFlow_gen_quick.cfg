SPECIFICATION Spec
CONSTANTS
  VerSet <- VersQuick
  Budget = 2
  Fault = "none"
  Repair = FALSE
INVARIANTS TypeOK Sanity AllowedOnly ReturnedIsTheInvite SentIsTheInvite NoLeak CheckBeforeSend References EnvErrors Complete WhySound Emit
CHECK_DEADLOCK FALSE
