SPECIFICATION Spec
CONSTANTS
  VerSet <- VersFault
  Budget = 2
  Fault = "skip_state_check"
  Strict = FALSE
INVARIANTS TypeOK StateChecked
CHECK_DEADLOCK FALSE
