SPECIFICATION GSpec
CONSTANTS
  Procs = {"c1"}
  Names = {"a", "b"}
  MaxCalls = 3
  MaxAge = 2
  MaxReap = 2
  Faults = TRUE
  SplitGet = FALSE
INVARIANTS TypeOK OneTransportPerName CallersShareTheCachedTransport SameNameSameTransport IdentitiesNeverReused NeverHalfInitialised BoundedRetries OnlyAgedAreReaped Emit
CHECK_DEADLOCK FALSE
