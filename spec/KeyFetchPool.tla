---------------------------- MODULE KeyFetchPool ----------------------------
(* C19 - keyring.go DirectKeyFetcher.FetchKeys as it is.                        *)
(*                                                                              *)
(* The requested servers are queued on a closed channel (`pending`; Go map       *)
(* iteration makes the order arbitrary), min(64, #servers) workers take servers  *)
(* from it; for each server a worker asks the server directly (GetServerKeys +   *)
(* CheckKeys), on any failure asks the server as its own notary                  *)
(* (LookupServerKeys + CheckKeys) and on success merges the server's keys into   *)
(* the shared result map under resultsMutex (one critical section = one action). *)
(* Keys of local servers are put into the map before the workers start.  The     *)
(* caller returns the map after wait.Wait().                                     *)
(*                                                                              *)
(* Faults: every outcome other than "ok" is a failure of that stage ("err": the  *)
(* client returns an error, "bad": the response fails CheckKeys, "missing": the   *)
(* notary response has no entry for the server); the harness realises each.       *)
(*                                                                              *)
(* Property (over the history variable `succ`, never read by the mechanics): the  *)
(* returned map is exactly the local keys plus the union of the keys of the       *)
(* servers one of whose stages succeeded - for every completion order and fault   *)
(* pattern - and every call returns.                                             *)
EXTENDS Integers, FiniteSets, TLC

CONSTANTS Servers, NWorkers, KeyIds, DirectOutcomes, NotaryOutcomes, HasLocal

Workers == 1..NWorkers
KeysOf(s) == {<<s, k>> : k \in KeyIds}
LocalKeys == IF HasLocal THEN {<<"local", k>> : k \in KeyIds} ELSE {}

VARIABLES pending,   \* servers still on the channel
          w,         \* per worker: [pc, s]
          results,   \* the shared map (as the set of its keys; values are determined by the key)
          returned, out,
          succ,      \* history: servers whose direct or notary fetch succeeded
          taken      \* history: how often each server was taken from the channel

vars == <<pending, w, results, returned, out, succ, taken>>
mech == <<pending, w, results, returned, out>>

Init ==
  /\ pending = Servers
  /\ w = [i \in Workers |-> [pc |-> "take", s |-> ""]]
  /\ results = LocalKeys
  /\ returned = FALSE
  /\ out = {}
  /\ succ = {}
  /\ taken = [s \in Servers |-> 0]

Take(i) ==
  /\ w[i].pc = "take"
  /\ \/ /\ pending # {}
        /\ \E s \in pending :
             /\ pending' = pending \ {s}
             /\ w' = [w EXCEPT ![i] = [pc |-> "direct", s |-> s]]
             /\ taken' = [taken EXCEPT ![s] = @ + 1]
     \/ /\ pending = {}
        /\ w' = [w EXCEPT ![i] = [pc |-> "exit", s |-> ""]]
        /\ UNCHANGED <<pending, taken>>
  /\ UNCHANGED <<results, returned, out, succ>>

Direct(i, o) ==
  /\ w[i].pc = "direct"
  /\ o \in DirectOutcomes
  /\ IF o = "ok"
     THEN w' = [w EXCEPT ![i].pc = "merge"] /\ succ' = succ \cup {w[i].s}
     ELSE w' = [w EXCEPT ![i].pc = "notary"] /\ UNCHANGED succ
  /\ UNCHANGED <<pending, results, returned, out, taken>>

Notary(i, o) ==
  /\ w[i].pc = "notary"
  /\ o \in NotaryOutcomes
  /\ IF o = "ok"
     THEN w' = [w EXCEPT ![i].pc = "merge"] /\ succ' = succ \cup {w[i].s}
     ELSE w' = [w EXCEPT ![i] = [pc |-> "take", s |-> ""]] /\ UNCHANGED succ
  /\ UNCHANGED <<pending, results, returned, out, taken>>

(* resultsMutex.Lock(); for req, keys := range serverResults { results[req] = keys }; resultsMutex.Unlock() *)
Merge(i) ==
  /\ w[i].pc = "merge"
  /\ results' = results \cup KeysOf(w[i].s)
  /\ w' = [w EXCEPT ![i] = [pc |-> "take", s |-> ""]]
  /\ UNCHANGED <<pending, returned, out, succ, taken>>

(* wait.Wait(); return results *)
Return ==
  /\ ~returned
  /\ \A i \in Workers : w[i].pc = "exit"
  /\ returned' = TRUE
  /\ out' = results
  /\ UNCHANGED <<pending, w, results, succ, taken>>

Done == returned /\ UNCHANGED vars

WStep(i) == Take(i) \/ Merge(i) \/ (\E o \in DirectOutcomes : Direct(i, o)) \/ (\E o \in NotaryOutcomes : Notary(i, o))
Next == (\E i \in Workers : WStep(i)) \/ Return \/ Done

Spec == Init /\ [][Next]_vars
FairSpec == Spec /\ \A i \in Workers : WF_vars(WStep(i)) /\ WF_vars(Return)
View == mech

TypeOK ==
  /\ pending \subseteq Servers
  /\ \A i \in Workers : w[i].pc \in {"take", "direct", "notary", "merge", "exit"}
  /\ results \subseteq (LocalKeys \cup UNION {KeysOf(s) : s \in Servers})

ExactUnion == returned => out = LocalKeys \cup UNION {KeysOf(s) : s \in succ}
EachServerOnce == \A s \in Servers : taken[s] <= 1 /\ (returned => taken[s] = 1)
NothingEarly == ~returned => out = {}
Returns == <>returned
=============================================================================
