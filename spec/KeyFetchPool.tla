---------------------------- MODULE KeyFetchPool ----------------------------
(* C19 - keyring.go DirectKeyFetcher.FetchKeys as it is.                        *)
(*                                                                              *)
(* The worker pool is explicit.  The caller creates a job queue (`pending`, a     *)
(* buffered channel of capacity Q), sends every requested server to it (Go map    *)
(* iteration makes the order arbitrary; a send blocks while the queue holds Q     *)
(* servers), closes it, THEN starts W workers and waits for them.  In the code      *)
(* Q = #servers and W = min(64, #servers); Q, W and the order "fill before start"   *)
(* (StartFirst = FALSE) are constants so that the design requirement is visible:    *)
(* with fill-before-start a queue of capacity Q < #servers blocks the caller on     *)
(* send number Q+1 before any worker exists (KeyFetchPool_smallqueue.cfg: TLC       *)
(* reports the deadlock), whereas Q >= #servers - or starting the workers first -   *)
(* is deadlock free for every W >= 1.                                              *)
(* A worker receives from the queue (blocks while it is empty and open, exits when  *)
(* it is empty and closed); for each server it asks the server directly (GetServerKeys + *)
(* CheckKeys), on any failure asks the server as its own notary                  *)
(* (LookupServerKeys + CheckKeys) and on success merges the server's keys into   *)
(* the shared result map under resultsMutex (one critical section = one action). *)
(* Keys of local servers are put into the map before the workers start.  The     *)
(* caller returns the map after wait.Wait().                                     *)
(*                                                                              *)
(* Faults: every outcome other than "ok" is a failure of that stage ("err": the  *)
(* client returns an error, "bad": the response fails CheckKeys, "missing": the   *)
(* notary response has no entry for the server); the harness realises each.       *)
(*                                                                              *)
(* The caller's context: FetchKeys is handed a context that is live, already       *)
(* cancelled, already past its deadline, or cancelled at an arbitrary moment while  *)
(* the batch is being handed out / fetched (CtxModes lists the cases a cfg explores; *)
(* Cancel is an environment action).  The code never looks at the context itself:    *)
(* it passes it to the KeyClient, whose calls fail ("ctx") once it is done; servers   *)
(* keep being handed to the workers and each of them fails quickly.  A fetch that      *)
(* completed before the cancellation counts.  StopOnDone = TRUE is the design that      *)
(* stops handing out servers once the context is done WITHOUT closing the queue        *)
(* (KeyFetchPool_stopondone.cfg: the workers wait for a queue that is never closed,      *)
(* the caller waits for the workers - TLC reports the deadlock).                        *)
(*                                                                              *)
(* Property (over the history variable `succ`, never read by the mechanics): the  *)
(* returned map is exactly the local keys plus the union of the keys of the       *)
(* servers one of whose stages succeeded - for every completion order and fault   *)
(* pattern - and every call returns: no reachable state is a deadlock (TLC         *)
(* deadlock check; the only terminal state is "returned") and <>returned under     *)
(* weak fairness.                                                                  *)
EXTENDS Integers, FiniteSets, TLC

CONSTANTS Servers, NWorkers, Q, StartFirst, KeyIds, DirectOutcomes, NotaryOutcomes, HasLocal, CtxModes, StopOnDone

Workers == 1..NWorkers
KeysOf(s) == {<<s, k>> : k \in KeyIds}
LocalKeys == IF HasLocal THEN {<<"local", k>> : k \in KeyIds} ELSE {}

VARIABLES caller,    \* the caller of FetchKeys: "fill", "start", "wait"
          tosend,    \* servers the caller has not yet sent to the queue
          closed,    \* close(pending) has happened
          pending,   \* servers in the queue (at most Q)
          w,         \* per worker: [pc, s]
          results,   \* the shared map (as the set of its keys; values are determined by the key)
          returned, out,
          mode,      \* how the caller's context behaves: "live", "before" (cancelled before the call), "deadline" (its
                     \* deadline passed before the call), "mid" (cancelled at some moment during the call)
          ctx,       \* "live" or "done"
          succ,      \* history: servers whose direct or notary fetch succeeded
          taken      \* history: how often each server was taken from the channel

vars == <<caller, tosend, closed, pending, w, results, returned, out, mode, ctx, succ, taken>>
mech == <<caller, tosend, closed, pending, w, results, returned, out, mode, ctx>>

Init ==
  /\ caller = IF StartFirst THEN "start" ELSE "fill"
  /\ tosend = Servers
  /\ closed = FALSE
  /\ pending = {}
  /\ w = [i \in Workers |-> [pc |-> "unstarted", s |-> ""]]
  /\ results = LocalKeys
  /\ returned = FALSE
  /\ out = {}
  /\ mode \in CtxModes
  /\ ctx = IF mode \in {"before", "deadline"} THEN "done" ELSE "live"
  /\ succ = {}
  /\ taken = [s \in Servers |-> 0]

(* for serverName := range byServer { pending <- serverName }: a send blocks while the queue is full *)
Send(s) ==
  /\ caller = "fill"
  /\ s \in tosend
  /\ Cardinality(pending) < Q
  /\ tosend' = tosend \ {s}
  /\ pending' = pending \cup {s}
  /\ UNCHANGED <<caller, closed, w, results, returned, out, mode, ctx, succ, taken>>

(* close(pending) *)
Close ==
  /\ caller = "fill"
  /\ tosend = {}
  /\ closed' = TRUE
  /\ caller' = IF StartFirst THEN "wait" ELSE "start"
  /\ UNCHANGED <<tosend, pending, w, results, returned, out, mode, ctx, succ, taken>>

(* for i := 0; i < numWorkers; i++ { go worker(pending) } *)
StartWorkers ==
  /\ caller = "start"
  /\ w' = [i \in Workers |-> [pc |-> "take", s |-> ""]]
  /\ caller' = IF StartFirst THEN "fill" ELSE "wait"
  /\ UNCHANGED <<tosend, closed, pending, results, returned, out, mode, ctx, succ, taken>>

Take(i) ==
  /\ w[i].pc = "take"
  /\ \/ /\ pending # {}
        /\ \E s \in pending :
             /\ pending' = pending \ {s}
             /\ w' = [w EXCEPT ![i] = [pc |-> "direct", s |-> s]]
             /\ taken' = [taken EXCEPT ![s] = @ + 1]
     \/ /\ pending = {}
        /\ closed
        /\ w' = [w EXCEPT ![i] = [pc |-> "exit", s |-> ""]]
        /\ UNCHANGED <<pending, taken>>
  /\ UNCHANGED <<caller, tosend, closed, results, returned, out, mode, ctx, succ>>

Direct(i, o) ==
  /\ w[i].pc = "direct"
  /\ o \in (IF ctx = "done" THEN {"ctx"} ELSE DirectOutcomes)
  /\ IF o = "ok"
     THEN w' = [w EXCEPT ![i].pc = "merge"] /\ succ' = succ \cup {w[i].s}
     ELSE w' = [w EXCEPT ![i].pc = "notary"] /\ UNCHANGED succ
  /\ UNCHANGED <<caller, tosend, closed, pending, results, returned, out, mode, ctx, taken>>

Notary(i, o) ==
  /\ w[i].pc = "notary"
  /\ o \in (IF ctx = "done" THEN {"ctx"} ELSE NotaryOutcomes)
  /\ IF o = "ok"
     THEN w' = [w EXCEPT ![i].pc = "merge"] /\ succ' = succ \cup {w[i].s}
     ELSE w' = [w EXCEPT ![i] = [pc |-> "take", s |-> ""]] /\ UNCHANGED succ
  /\ UNCHANGED <<caller, tosend, closed, pending, results, returned, out, mode, ctx, taken>>

(* resultsMutex.Lock(); for req, keys := range serverResults { results[req] = keys }; resultsMutex.Unlock() *)
Merge(i) ==
  /\ w[i].pc = "merge"
  /\ results' = results \cup KeysOf(w[i].s)
  /\ w' = [w EXCEPT ![i] = [pc |-> "take", s |-> ""]]
  /\ UNCHANGED <<caller, tosend, closed, pending, returned, out, mode, ctx, succ, taken>>

(* wait.Wait(); return results *)
Return ==
  /\ ~returned
  /\ caller = "wait"
  /\ \A i \in Workers : w[i].pc = "exit"
  /\ returned' = TRUE
  /\ out' = results
  /\ UNCHANGED <<caller, tosend, closed, pending, w, results, mode, ctx, succ, taken>>

(* environment: the caller's context is cancelled at an arbitrary moment of the call *)
Cancel ==
  /\ mode = "mid"
  /\ ctx = "live"
  /\ ~returned
  /\ ctx' = "done"
  /\ UNCHANGED <<caller, tosend, closed, pending, w, results, returned, out, mode, succ, taken>>

(* only with StopOnDone: the caller stops handing out servers once the context is done and goes on WITHOUT close(pending) *)
Abandon ==
  /\ StopOnDone
  /\ caller = "fill"
  /\ ctx = "done"
  /\ caller' = IF StartFirst THEN "wait" ELSE "start"
  /\ UNCHANGED <<tosend, closed, pending, w, results, returned, out, mode, ctx, succ, taken>>

Done == returned /\ UNCHANGED vars

WStep(i) == Take(i) \/ Merge(i) \/ (\E o \in DirectOutcomes \cup {"ctx"} : Direct(i, o)) \/ (\E o \in NotaryOutcomes \cup {"ctx"} : Notary(i, o))
CStep == (\E s \in Servers : Send(s)) \/ Close \/ Abandon \/ StartWorkers \/ Return
Next == (\E i \in Workers : WStep(i)) \/ CStep \/ Cancel \/ Done

Spec == Init /\ [][Next]_vars
FairSpec == Spec /\ (\A i \in Workers : WF_vars(WStep(i))) /\ WF_vars(CStep)
View == mech

TypeOK ==
  /\ pending \subseteq Servers /\ tosend \subseteq Servers
  /\ caller \in {"fill", "start", "wait"}
  /\ \A i \in Workers : w[i].pc \in {"unstarted", "take", "direct", "notary", "merge", "exit"}
  /\ results \subseteq (LocalKeys \cup UNION {KeysOf(s) : s \in Servers})
  /\ mode \in {"live", "before", "deadline", "mid"} /\ ctx \in {"live", "done"}

ExactUnion == returned => out = LocalKeys \cup UNION {KeysOf(s) : s \in succ}
EachServerOnce == \A s \in Servers : taken[s] <= 1 /\ (returned => taken[s] = 1)
NothingEarly == ~returned => out = {}
(* a caller whose context was done before the call gets the local keys and nothing else - and it does get them *)
GoneBeforeTheCall == (returned /\ mode \in {"before", "deadline"}) => out = LocalKeys
QueueBound == Cardinality(pending) <= Q
Returns == <>returned
=============================================================================
