------------------------------ MODULE Handshake ------------------------------
(***************************************************************************)
(* C15 - join, leave and invite handshakes over federation                 *)
(* (handlejoin.go, handleleave.go, handleinvite.go, invite.go,             *)
(* performjoin.go).  Written from the property statement and the Matrix    *)
(* server-server specification, not from the code.                         *)
(*                                                                         *)
(* Two roles and a network:                                                *)
(*   R  the local ("resident") server that runs the Handle... functions;   *)
(*   J  the requesting server (runs PerformJoin; sends make_leave and      *)
(*      invite requests);   X is any third server;                         *)
(*   the network holds one message at a time and is adversarial:           *)
(*   Forge(f, v, resign) rewrites one field of the message in flight.      *)
(*   resign = TRUE models a malicious requester that signs what it forges, *)
(*   resign = FALSE a third party that cannot (the signature no longer     *)
(*   covers the event).                                                    *)
(*                                                                         *)
(* One action per protocol step:                                           *)
(*   MakeJoinReq  MakeJoinResp  BuildJoin  SendJoinReq  SendJoinResp       *)
(*   JoinDone     MakeLeaveReq  MakeLeaveResp  InviteReq  InviteResp       *)
(*   Forge                                                                 *)
(* The handlers are written as ordered sequences of checks (first failing  *)
(* check decides the error class: the mechanics).  The property is stated  *)
(* separately, over the history variable `hist`, as plain conjunctions     *)
(* (section "The property").                                               *)
(*                                                                         *)
(* Abstract vocabulary.  Servers "R","J","X" (and in the guard products    *)
(* "N","M": names extending J's; "K": J's name in another letter case).    *)
(* The joining / leaving user U belongs to server J; A is a user of R       *)
(* (candidate authoriser of                                                *)
(* restricted joins, inviter), B a second user of R with no power.         *)
(*   facts  sc  (R's world: room state and querier answers)                *)
(*     ver      room version ("1","6","10","12",...)                       *)
(*     rv       "known" | "unknown": the version R has on record exists    *)
(*     inRoom   R has a joined user in the room                            *)
(*     jr       join rule: none public invite knock restricted             *)
(*              knock_restricted                                           *)
(*     mem      U's current membership: none leave invite join ban         *)
(*              (invite flow: membership of the invited user)              *)
(*     pending  answer of the InvitePending querier                        *)
(*     allow    the allow list of the join rule, one class per entry:      *)
(*                nonres    R is not in that room                          *)
(*                info_err  the querier fails for that room                *)
(*                nouser    R is in it, U is not                           *)
(*                empty     U is in it, no local user listed               *)
(*                listedB   only B listed            listed   A listed     *)
(*                listed2   B then A listed                                *)
(*                othertype not an m.room_membership entry                 *)
(*                badid     unparsable room ID                             *)
(*     apl      A's standing for invites in the joined room: ok low        *)
(*              creator (v12 creator, absent from the power-level event)   *)
(*     aHere    A is joined to the joined room                             *)
(*     tb       behaviour of the caller's template builder: ok err nilev   *)
(*              nilstate wrongtype nocreate (state without create event)   *)
(*     qerr     querier failure: none jr_err pending_err pl_missing        *)
(*     known    (invite) R already knows the room                          *)
(*     uq       answer of the user-ID-for-sender querier: ok err nil       *)
(*     map      (pseudo-ID rooms) the mxid_mapping of the join: ok |       *)
(*              missing | unsigned | wrongkey (signed under the user's     *)
(*              server's name with another key) | other (validly signed,   *)
(*              but only by another server)                                *)
(*     stripped (invite) the request carries invite_room_state: "given",   *)
(*              or "none" (the handler derives it from its own state).     *)
(*              No conjunct reads it: in particular "target not already    *)
(*              joined" must hold whichever way the state arrives.         *)
(*     fam      tag of the generating family (Handshake_gen)               *)
(*     extra    content the event carries besides what the handshake       *)
(*              needs: none | tpi (a third_party_invite block) | unknown   *)
(*              (an unknown key) | unsigned (an unsigned block).  No       *)
(*              conjunct reads it.                                         *)
(*     env      see SJEnvOK / InvEnvOK                                     *)
(*     oth      what R's tables (membership, pending invites, membership   *)
(*              of the allowed rooms) hold under every identity OTHER than *)
(*              the sender ID of the member the request is about: none |   *)
(*              ban | invite | join (section "Who a fact is about").  No   *)
(*              conjunct reads it.                                         *)
(*     fb       forgery budget of the scenario (besides MaxForge)          *)
(*     retry    J calls PerformJoin again after a refused attempt          *)
(***************************************************************************)
EXTENDS Integers, Sequences, FiniteSets, TLC

CONSTANTS MaxForge,      \* bound on Forge actions per behaviour
          ScenarioSet    \* name of the initial scenario set (see Scenarios)

VARIABLES sc,      \* facts (constant along a behaviour)
          flow,    \* "join" | "leave" | "invite" | "product" (single handler call, used by Handshake_gen)
          phase,   \* protocol progress
          net,     \* message in flight ([k |-> "none"] when there is none)
          jev,     \* the join event J built (BuildJoin)
          hist,    \* history: one record per action taken
          nforge,  \* number of Forge actions so far
          pj       \* outcome of PerformJoin: "" | "ok" | "refused"

vars == <<sc, flow, phase, net, jev, hist, nforge, pj>>

NoMsg == [k |-> "none"]
NoEv  == [type |-> "none"]

(***************************************************************************)
(* Room version features                                                   *)
(***************************************************************************)
RestrictedRules        == {"restricted", "knock_restricted"}
AllVersions == {"1", "2", "3", "4", "5", "6", "7", "8", "9", "10", "11", "12",
                "org.matrix.msc3667", "org.matrix.msc3787", "org.matrix.msc4014", "org.matrix.hydra.11"}
PseudoIDs(v)           == v = "org.matrix.msc4014"  \* senders are per-room keys, mapped to users by signed mxid_mappings
RestrictedSupported(v) == v \in {"8", "9", "10", "11", "12", "org.matrix.msc3787", "org.matrix.msc4014", "org.matrix.hydra.11"}
FormatV1(v)            == v \in {"1", "2"}          \* event ID carried inside the event
PrivCreators(v)        == v \in {"12", "org.matrix.hydra.11"}
DomainlessRoom(v)      == v \in {"12", "org.matrix.hydra.11"}    \* room ID = create event ID
\* join_authorised_via_users_server survives redaction (is covered by the signatures)
ViaSigned(v)           == v \in {"9", "10", "11", "12", "org.matrix.msc3787", "org.matrix.msc4014", "org.matrix.hydra.11"}

(***************************************************************************)
(* Signature classes of an event, relative to its sender's server S.       *)
(* A message is validly signed by S if at least one signature under S's    *)
(* name verifies with a key of S that was valid at the event's time.       *)
(*   valid        one signature, key valid                                 *)
(*   vu_eq        ... key's valid_until_ts = the event's origin_server_ts  *)
(*   ex_m1        ... key's expired_ts = origin_server_ts + 1              *)
(*   two_keys     two key IDs under S: one verifies, one is garbage        *)
(*   plus_other   also validly signed by a third server                    *)
(*   presigned    also already validly signed by the local server R        *)
(*   presigned_bad  also carrying a garbage signature under R's name       *)
(* everything else is not a valid signature of S: none, wrongkey, other    *)
(* (only another server), tampered, expired (valid_until_ts before the     *)
(* event's time), vu_p1 (one millisecond before), revoked (expired_ts      *)
(* before it), ex_eq (expired_ts = origin_server_ts).  The handlers        *)
(* countersign: they apply the strict validity rule in every room version. *)
(***************************************************************************)
GoodSigs == {"valid", "vu_eq", "ex_m1", "two_keys", "plus_other", "presigned", "presigned_bad"}
SigOK(x) == x \in GoodSigs

(***************************************************************************)
(* Ownership: "the user (sender) belongs to the requesting server".        *)
(* Server names are identities: signing keys are published and looked up   *)
(* under the exact name, so they are compared exactly.  "K" is a server    *)
(* whose name is J's name in another letter case (J "j.test", K "J.TEST"): *)
(* another server with its own keys.  The relation of a user's server u to *)
(* the requesting server o has three values:                               *)
(*   own      the same name                                                *)
(*   casevar  the same name in another letter case                         *)
(*   other    anything else (also names that extend o's name: N, M)        *)
(* Only "own" satisfies the conjunct, in every handler.  The signature     *)
(* class "casevar" (the only signature stands under the case partner's     *)
(* name, made with the partner's key) is not a signature of S.             *)
(***************************************************************************)
CasePartner(x) == CASE x = "J" -> "K" [] x = "K" -> "J" [] OTHER -> "none"
Ownership(o, u) == IF o = u THEN "own" ELSE IF CasePartner(o) = u THEN "casevar" ELSE "other"
Belongs(o, u)   == Ownership(o, u) = "own"

(***************************************************************************)
(* Authorisation rules for U's own join / leave (Matrix specification,     *)
(* "authorization rules", membership = join / leave with sender = target,  *)
(* with the documented departures A1, A5, A7, A14 of DESIGN.md 5.1).       *)
(*   st = [create, jr, mem, aHere, aOK]                                    *)
(***************************************************************************)
JoinAuth(v, st, via) ==
    /\ st.create
    /\ st.mem # "ban"
    /\ ~(st.jr \in RestrictedRules /\ ~RestrictedSupported(v))          \* A14
    /\ \/ st.mem \in {"invite", "join"}                                  \* A5
       \/ st.jr = "public"
       \/ /\ st.jr \in RestrictedRules
          /\ via = "A" /\ st.aHere /\ st.aOK

LeaveAuth(st) == st.create /\ st.mem # "ban"                             \* A1: absent = leave, leave -> leave passes

APowerOK(s) == s.apl = "ok" \/ (s.apl = "creator" /\ PrivCreators(s.ver))

StateOf(s) == [create |-> s.tb # "nocreate", jr |-> s.jr, mem |-> s.mem, aHere |-> s.aHere, aOK |-> APowerOK(s)]

(***************************************************************************)
(* Who a fact is about.  R's queriers (membership, pending invites,        *)
(* membership of the allowed rooms) are tables keyed by the identity a     *)
(* member has IN THE ROOM: its sender ID.  The person behind it has a      *)
(* second name, the user ID; in the room versions whose sender IDs are     *)
(* user IDs the two are one string, in pseudo-ID rooms they are not.  And  *)
(* the tables have rows for other members.  Keys:                          *)
(*   "sid"   the sender ID of the member the request is about (the join's  *)
(*           sender = state key; the invited user's sender ID)             *)
(*   "uid"   that member's user ID, where it is another string             *)
(*   "peer"  another member of the room                                    *)
(* mem / pending / allow are the rows under "sid" (the property speaks of  *)
(* "the target", "the user": the member, as the room knows it).  sc.oth is *)
(* the row under every other key:                                          *)
(*   none    nothing recorded                                              *)
(*   ban     banned; no invite pending; in none of the allowed rooms       *)
(*   invite  invited, the invite is pending; joined to the allowed rooms   *)
(*   join    joined; no invite pending; joined to the allowed rooms        *)
(* AskKey is the design decision: the key the handlers put their questions *)
(* under.  View(s, k) is the facts as the tables answer under key k; the   *)
(* mechanics read Asked(s), the property reads s (the rows of the member). *)
(* A design that asks under another key (cfg: AskKey <- AskUid / AskPeer)  *)
(* is refuted by the ...Exact invariants and by OtherIdentitiesIrrelevant. *)
(***************************************************************************)
IdKeys(v) == IF PseudoIDs(v) THEN {"sid", "uid", "peer"} ELSE {"sid", "peer"}
AskKey  == "sid"
AskUid  == "uid"
AskPeer == "peer"

OthInAllowed(s) == s.oth \in {"invite", "join"}
OthAllow(s) ==
    [i \in DOMAIN s.allow |->
        IF OthInAllowed(s) THEN (IF s.allow[i] = "nouser" THEN "listed" ELSE s.allow[i])
        ELSE (IF s.allow[i] \in {"empty", "listedB", "listed", "listed2"} THEN "nouser" ELSE s.allow[i])]
View(s, k) ==
    IF k = "sid" \/ k \notin IdKeys(s.ver) THEN s      \* where the user ID is the sender ID, asking under it is asking under "sid"
    ELSE [s EXCEPT !.mem = s.oth, !.pending = (s.oth = "invite"), !.allow = OthAllow(s)]
Asked(s) == View(s, AskKey)

(***************************************************************************)
(* Restricted joins: can R vouch for U?  Result:                           *)
(*   "none"  no authoriser needed     "A"  A authorises                    *)
(*   "unable" R is not in every allowed room and found nobody              *)
(*   "forbidden" R is in all of them and U qualifies nowhere               *)
(*   "error"  a querier failed                                             *)
(***************************************************************************)
RestrictedVia(s) ==
    IF ~RestrictedSupported(s.ver) THEN "none"
    ELSE IF s.qerr = "jr_err" THEN "error"
    ELSE IF s.jr \notin RestrictedRules THEN "none"
    ELSE IF s.qerr = "pending_err" THEN "error"
    ELSE IF s.pending THEN "none"
    ELSE IF s.qerr \in {"pl_missing", "pl_err"} THEN "error"
    ELSE IF PrivCreators(s.ver) /\ s.qerr \in {"create_err", "create_nil"} THEN "error"
    ELSE IF APowerOK(s) /\ (\E i \in DOMAIN s.allow : s.allow[i] \in {"listed", "listed2"}) THEN "A"
    ELSE IF \E i \in DOMAIN s.allow : s.allow[i] \in {"nonres", "info_err", "info_nil"} THEN "unable"
    ELSE "forbidden"

(***************************************************************************)
(* Mechanics: a handler is a sequence of checks; the first failing one     *)
(* decides the error class.  check = [c |-> name, ok |-> BOOLEAN,          *)
(* code |-> error class]                                                   *)
(***************************************************************************)
Chk(c, ok, code) == [c |-> c, ok |-> ok, code |-> code]

Decide(checks) ==
    LET bad == {i \in DOMAIN checks : ~checks[i].ok} IN
    IF bad = {} THEN [res |-> "ok", code |-> "", why |-> {}]
    ELSE LET i == CHOOSE i \in bad : \A j \in bad : i <= j
         IN [res |-> "refused", code |-> checks[i].code, why |-> {checks[j].c : j \in bad}]

\* --- make_join ----------------------------------------------------------
\* the restricted-join questions go to the queriers (asked under AskKey); the auth check runs on the room state
MJChecks(q, s) ==
    LET via == RestrictedVia(Asked(s)) IN
    << Chk("ver",        q.vers = "has",                         "M_INCOMPATIBLE_ROOM_VERSION"),
       Chk("user",       q.usrv = q.origin,                      "M_FORBIDDEN"),
       Chk("inroom",     s.inRoom /\ q.room = "main",            "M_NOT_FOUND"),
       Chk("restricted", via \in {"none", "A"},
                         IF via = "unable" THEN "M_UNABLE_TO_AUTHORISE_JOIN"
                         ELSE IF via = "forbidden" THEN "M_FORBIDDEN" ELSE "internal"),
       Chk("builder",    s.tb \in {"ok", "nocreate"},            "internal"),
       Chk("auth",       JoinAuth(s.ver, StateOf(s), via),       "M_FORBIDDEN") >>

\* auth: what the event's own auth_events cover: "full" create and A's membership, "base" create only, "nocreate"
AuthOf(via) == IF via = "local" THEN "full" ELSE "base"

Template(q, s, mship) ==
    LET via == IF mship = "join" /\ RestrictedVia(Asked(s)) = "A" THEN "local" ELSE "none" IN
    [type |-> "member", room |-> q.room, ssrv |-> q.usrv, skey |-> "sender", mship |-> mship,
     via |-> via, auth |-> AuthOf(via)]

\* --- make_leave ---------------------------------------------------------
MLChecks(q, s) ==
    << Chk("user",    q.usrv = q.origin,               "M_FORBIDDEN"),
       Chk("inroom",  s.inRoom /\ q.room = "main",     "M_NOT_FOUND"),
       Chk("builder", s.tb \in {"ok", "nocreate"},     "internal"),
       Chk("auth",    LeaveAuth(StateOf(s)),           "M_FORBIDDEN") >>

\* --- the environment of send_join / invite: a verifier or a querier that fails leaves a conjunct unestablished ---
\*  env: ok | kr_err (the key ring fails) | memq_err (membership querier) | rq_err (room querier)
SJEnvOK(s)   == s.env \notin {"kr_err", "memq_err"}
InvEnvOK(s)  == s.env \notin {"kr_err", "rq_err"} /\ ~(s.env = "memq_err" /\ s.known)
Inv3EnvOK(s) == s.env # "rq_err" /\ ~(s.env = "memq_err" /\ s.known)

\* --- send_join ----------------------------------------------------------
\*  q = [origin, room, eid, ev]   ev = [type, mship, ssrv, skey, room, via, sig, auth]
\*  ev.sig describes the signatures relative to the sender's server:
\*    valid none wrongkey other (only another server signed) tampered
\*    expired / revoked (really signed, but the key's valid_until_ts / expired_ts lies before the event's time)
SJChecks(q, s) ==
    LET e == q.ev IN
    << Chk("rv",        s.rv = "known",                            "M_UNSUPPORTED_ROOM_VERSION"),
       Chk("skey",      e.skey = "sender",                         "M_BAD_JSON"),
       \* in pseudo-ID rooms the sender is tied to its user (hence to a server) by a mapping that server signed
       Chk("mapping",   PseudoIDs(s.ver) => s.map = "ok",          "M_FORBIDDEN"),
       Chk("origin",    s.uq = "ok" /\ e.ssrv = q.origin,          "M_FORBIDDEN"),
       Chk("room",      e.room = q.room,                           "M_BAD_JSON"),
       Chk("eid",       q.eid = "match",                           "M_BAD_JSON"),
       Chk("isjoin",    e.type = "member" /\ e.mship = "join",     "M_BAD_JSON"),
       Chk("sig",       SigOK(e.sig),                              "M_FORBIDDEN"),
       Chk("notbanned", Asked(s).mem # "ban",                      "M_FORBIDDEN"),
       Chk("via",       e.via \in {"none", "local"},               "M_BAD_JSON"),
       Chk("env",       SJEnvOK(s),                                "internal") >>

\* --- invite -------------------------------------------------------------
\*  q = [room, ev]    ev.skey: "invitee" "otherlocal" "sender" "absent"
InvChecks(q, s) ==
    LET e == q.ev IN
    << Chk("rv",        s.rv = "known",                            "M_UNSUPPORTED_ROOM_VERSION"),
       Chk("room",      e.room = q.room,                           "M_BAD_JSON"),
       Chk("isinvite",  e.type = "member" /\ e.mship = "invite" /\ e.skey = "invitee", "M_BAD_JSON"),
       Chk("sig",       s.uq = "ok" /\ SigOK(e.sig),               "M_FORBIDDEN"),
       Chk("notjoined", ~(s.known /\ Asked(s).mem = "join"),       "M_FORBIDDEN"),
       Chk("env",       InvEnvOK(s),                               "internal") >>

\* --- invite, v3 endpoint (the local server completes and signs a template itself) ------------------
\*  q = [room (path), proom (room named by the template)]
Inv3Checks(q, s) ==
    << Chk("rv",        s.rv = "known",                            "M_UNSUPPORTED_ROOM_VERSION"),
       Chk("room",      q.proom = q.room,                          "M_BAD_JSON"),
       Chk("notjoined", ~(s.known /\ Asked(s).mem = "join"),       "M_FORBIDDEN"),
       Chk("env",       Inv3EnvOK(s),                              "internal") >>

(***************************************************************************)
(* What a handler returns with an accepted event: the event as received    *)
(* plus R's signature.                                                     *)
(***************************************************************************)
Countersigned(ev) == [ev |-> ev, rsig |-> TRUE]
NoRet == [ev |-> NoEv, rsig |-> FALSE]

(***************************************************************************)
(* J's side: the checks on the send_join response                          *)
(*   m = [res, ev, jret, create, st, jrsig, ban]                           *)
(*     create  "ok" | "missing" | "unknownver" | "badsig"                  *)
(*             | "nochain" (empty auth chain)                              *)
(*     st      "ok" | "dup" (a state tuple twice) | "dupmem" (two member   *)
(*             events of U) | "nokey" (an event without state key) |       *)
(*             "nocreate" (the state list lacks the create event)          *)
(*     jrsig   "ok" | "bad": signature on the join-rules event             *)
(*     ban     "yes": a (validly signed) ban of U is in the returned state *)
(*     jret    the join event in the response: "signed" | "absent" |       *)
(*             "notjoin" | "malformed" (ignored by J)                      *)
(***************************************************************************)
RespState(m, s) ==
    [create |-> m.create = "ok" /\ m.st # "nocreate",
     jr     |-> IF m.jrsig = "bad" THEN "none" ELSE s.jr,        \* an event with a bad signature is discarded
     mem    |-> IF m.ban = "yes" THEN "ban" ELSE s.mem,
     aHere  |-> s.aHere, aOK |-> APowerOK(s)]

\* what the join event's own auth events amount to (looked up by ID among the events of the response that survived)
AuthEvState(m, e, s) ==
    [create |-> e.auth # "nocreate" /\ m.create = "ok",
     jr     |-> IF m.jrsig = "bad" THEN "none" ELSE s.jr,
     mem    |-> s.mem,
     aHere  |-> s.aHere /\ e.auth = "full", aOK |-> APowerOK(s)]

\* J adopts the join event of the response if it looks like its own join (it may carry more signatures)
WellFormedRet(e) == e.type # "none" /\ e.mship = "join" /\ e.room = "main" /\ e.skey = "sender" /\ e.ssrv = "J"
Adopted(m, e) == IF m.jret = "signed" /\ WellFormedRet(m.ev) THEN m.ev ELSE e
ViaOf(e) == IF e.via = "local" THEN "A" ELSE e.via

PJChecks(m, e0, s) ==
    LET e == Adopted(m, e0) IN
    << Chk("accepted", m.res = "ok",                                "remote"),
       Chk("create",   m.create \in {"ok", "badsig"},               "nocreate"),     \* present, known version
       Chk("shape",    m.st \in {"ok", "nocreate"},                 "state"),
       Chk("authev",   e.type = "member" /\ JoinAuth(s.ver, AuthEvState(m, e, s), ViaOf(e)), "auth"),  \* allowed by its auth events
       Chk("auth",     e.type = "member" /\ JoinAuth(s.ver, RespState(m, s), ViaOf(e)),      "auth") >>

(***************************************************************************)
(* Scenario sets                                                           *)
(***************************************************************************)
Base(v) == [ver |-> v, rv |-> "known", inRoom |-> TRUE, jr |-> "public", mem |-> "none", pending |-> FALSE,
            allow |-> <<>>, apl |-> "ok", aHere |-> TRUE, tb |-> "ok", qerr |-> "none", known |-> TRUE,
            uq |-> "ok", map |-> "ok", stripped |-> "none", fam |-> "e2e", extra |-> "none", env |-> "ok", oth |-> "none",
            fb |-> 9, retry |-> FALSE]

E2EJoin(vs) ==
    UNION {{[Base(v) EXCEPT !.jr = jr, !.mem = mem, !.inRoom = ir, !.pending = (mem = "invite"), !.allow = al] :
               al \in (IF jr = "restricted" /\ mem = "none" THEN {<<"listed">>, <<"nouser">>, <<"nonres", "listed">>}
                       ELSE IF jr = "restricted" THEN {<<"listed">>} ELSE {<<>>})} :
           v \in vs, jr \in {"public", "invite", "restricted"}, mem \in {"none", "invite", "ban"}, ir \in BOOLEAN}
\* quick tier: two forgeries only where the handshake can get past make_join without them
E2EJoinR(vs) == {[s EXCEPT !.retry = (s.inRoom /\ s.mem = "none" /\ s.jr \in {"public", "restricted"}
                                        /\ s.allow \in {<<>>, <<"listed">>}),
                           !.fb = IF ScenarioSet \in {"e2e_quick", "e2e_three"} /\ ~(s.inRoom /\ s.mem # "ban") THEN 1 ELSE 9] : s \in E2EJoin(vs)}
\* the three-forgery configuration: one room version, no retries (the two-forgery configurations have them)
E2EJoin3(vs) == {[s EXCEPT !.retry = FALSE] : s \in E2EJoinR(vs)}
E2ELeave(vs)  == {[Base(v) EXCEPT !.mem = mem, !.inRoom = ir] : v \in vs, mem \in {"join", "ban"}, ir \in BOOLEAN}
E2EInvite(vs) == {[Base(v) EXCEPT !.mem = mem, !.known = kn, !.stripped = st] :
                      v \in vs, mem \in {"none", "join"}, kn \in BOOLEAN, st \in {"none", "given"}}

\* every registered room version (user IDs as sender IDs): a few scenarios each, at most one forgery
E2EVersions == AllVersions \ {"org.matrix.msc4014"}
AllVerJoin ==
    {[Base(v) EXCEPT !.jr = x[1], !.mem = x[2], !.pending = (x[2] = "invite"), !.allow = x[3], !.fb = 1] :
        v \in E2EVersions, x \in {<<"public", "none", <<>>>>, <<"invite", "invite", <<>>>>, <<"knock", "none", <<>>>>,
                                  <<"restricted", "none", <<"listed">>>>, <<"knock_restricted", "none", <<"nouser">>>>}}
AllVerLeave  == {[Base(v) EXCEPT !.mem = "join", !.fb = 1] : v \in E2EVersions}
AllVerInvite == {[Base(v) EXCEPT !.mem = mem, !.stripped = "given", !.fb = 1] : v \in E2EVersions, mem \in {"none", "join"}}

Scenarios(flw) ==
    LET vs == CASE ScenarioSet = "e2e_quick" -> {"10"}
                [] ScenarioSet = "e2e_thorough" -> {"1", "6", "10", "11", "12"}
                [] OTHER -> {"10"}
        ok(s) == (s.jr \in RestrictedRules => RestrictedSupported(s.ver))
        allv == ScenarioSet \in {"e2e_quick", "e2e_thorough"}
    IN  CASE flw = "join"   -> {s \in (IF ScenarioSet = "e2e_three" THEN E2EJoin3(vs) ELSE E2EJoinR(vs))
                                        \cup (IF allv THEN AllVerJoin ELSE {}) : ok(s)}
          [] flw = "leave"  -> E2ELeave(vs) \cup (IF allv THEN AllVerLeave ELSE {})
          [] flw = "invite" -> E2EInvite(vs) \cup (IF allv THEN AllVerInvite ELSE {})

Flows == {"join", "leave", "invite"}

Init ==
    /\ flow \in Flows
    /\ sc \in Scenarios(flow)
    /\ phase = "start" /\ net = NoMsg /\ jev = NoEv /\ hist = <<>> /\ nforge = 0 /\ pj = ""

Log(r) == hist' = Append(hist, r)
Entries(a) == {i \in DOMAIN hist : hist[i].a = a}
Next_(ph) == IF flow = "product" THEN "done" ELSE ph

(***************************************************************************)
(* Join handshake                                                          *)
(***************************************************************************)
MakeJoinReq ==
    /\ flow = "join" /\ phase = "start"
    /\ net' = [k |-> "mjreq", origin |-> "J", usrv |-> "J", vers |-> "has", room |-> "main"]
    /\ phase' = "mjreq"
    /\ Log([a |-> "MakeJoinReq", msg |-> net'])
    /\ UNCHANGED <<sc, flow, jev, nforge, pj>>

MakeJoinResp ==
    /\ phase = "mjreq" /\ net.k = "mjreq"
    /\ LET d == Decide(MJChecks(net, sc)) IN
       /\ net' = [k |-> "mjresp", res |-> d.res, ver |-> "same",
                  tmpl |-> IF d.res = "ok" THEN Template(net, sc, "join") ELSE NoEv]
       /\ Log([a |-> "MakeJoinResp", req |-> net, res |-> d.res, code |-> d.code, why |-> d.why,
               tmpl |-> net'.tmpl])
    /\ phase' = Next_("mjresp")
    /\ UNCHANGED <<sc, flow, jev, nforge, pj>>

\* J fills the template in: type, room, sender, state key and membership are J's own
BuildJoin ==
    /\ phase = "mjresp" /\ net.k = "mjresp"
    /\ IF net.res = "ok" /\ net.ver = "same"
       THEN /\ jev' = [type |-> "member", mship |-> "join", ssrv |-> "J", skey |-> "sender", room |-> "main",
                       via |-> net.tmpl.via, sig |-> "valid", auth |-> net.tmpl.auth]
            /\ phase' = "built" /\ pj' = pj
            /\ Log([a |-> "BuildJoin", built |-> TRUE, ev |-> jev'])
       ELSE /\ pj' = "refused" /\ phase' = "done" /\ jev' = jev
            /\ Log([a |-> "BuildJoin", built |-> FALSE, ev |-> NoEv])
    /\ net' = NoMsg
    /\ UNCHANGED <<sc, flow, nforge>>

SendJoinReq ==
    /\ phase = "built"
    /\ net' = [k |-> "sjreq", origin |-> "J", room |-> "main", eid |-> "match", ev |-> jev]
    /\ phase' = "sjreq"
    /\ Log([a |-> "SendJoinReq", msg |-> net'])
    /\ UNCHANGED <<sc, flow, jev, nforge, pj>>

SendJoinResp ==
    /\ phase = "sjreq" /\ net.k = "sjreq"
    /\ LET d == Decide(SJChecks(net, sc))
           ret == IF d.res = "ok" THEN Countersigned(net.ev) ELSE NoRet IN
       /\ net' = [k |-> "sjresp", res |-> d.res, ev |-> ret.ev,
                  jret |-> IF d.res = "ok" THEN "signed" ELSE "absent",
                  create |-> "ok", st |-> "ok", jrsig |-> "ok", ban |-> "no"]
       /\ Log([a |-> "SendJoinResp", req |-> net, res |-> d.res, code |-> d.code, why |-> d.why, ret |-> ret])
    /\ phase' = Next_("sjresp")
    /\ UNCHANGED <<sc, flow, jev, nforge, pj>>

JoinDone ==
    /\ phase = "sjresp" /\ net.k = "sjresp"
    /\ LET d == Decide(PJChecks(net, jev, sc)) IN
       /\ pj' = d.res
       /\ Log([a |-> "JoinDone", resp |-> net, jev |-> jev, res |-> d.res, code |-> d.code, why |-> d.why])
    /\ phase' = "done" /\ net' = NoMsg
    /\ UNCHANGED <<sc, flow, jev, nforge>>

\* J tries again after a refused attempt (the same PerformJoin input); the network leaves the second attempt alone
CanRetry == flow = "join" /\ phase = "done" /\ sc.retry /\ pj = "refused" /\ Entries("Retry") = {}
Retry ==
    /\ CanRetry
    /\ phase' = "start" /\ net' = NoMsg /\ jev' = NoEv /\ pj' = "" /\ nforge' = MaxForge
    /\ Log([a |-> "Retry"])
    /\ UNCHANGED <<sc, flow>>
Final == phase = "done" /\ ~CanRetry

(***************************************************************************)
(* Leave and invite handshakes (request, response)                         *)
(***************************************************************************)
MakeLeaveReq ==
    /\ flow = "leave" /\ phase = "start"
    /\ net' = [k |-> "mlreq", origin |-> "J", usrv |-> "J", room |-> "main"]
    /\ phase' = "mlreq"
    /\ Log([a |-> "MakeLeaveReq", msg |-> net'])
    /\ UNCHANGED <<sc, flow, jev, nforge, pj>>

MakeLeaveResp ==
    /\ phase = "mlreq" /\ net.k = "mlreq"
    /\ LET d == Decide(MLChecks(net, sc)) IN
       /\ net' = NoMsg
       /\ Log([a |-> "MakeLeaveResp", req |-> net, res |-> d.res, code |-> d.code, why |-> d.why,
               tmpl |-> IF d.res = "ok" THEN Template(net, sc, "leave") ELSE NoEv])
    /\ phase' = "done"
    /\ UNCHANGED <<sc, flow, jev, nforge, pj>>

InviteReq ==
    /\ flow = "invite" /\ phase = "start"
    /\ net' = [k |-> "invreq", room |-> "main",
               ev |-> [type |-> "member", mship |-> "invite", ssrv |-> "J", skey |-> "invitee", room |-> "main",
                       via |-> "none", sig |-> "valid", auth |-> "base"]]
    /\ phase' = "invreq"
    /\ Log([a |-> "InviteReq", msg |-> net'])
    /\ UNCHANGED <<sc, flow, jev, nforge, pj>>

InviteResp ==
    /\ phase = "invreq" /\ net.k = "invreq"
    /\ LET d == Decide(InvChecks(net, sc))
           ret == IF d.res = "ok" THEN Countersigned(net.ev) ELSE NoRet IN
       /\ net' = NoMsg
       /\ Log([a |-> "InviteResp", req |-> net, res |-> d.res, code |-> d.code, why |-> d.why, ret |-> ret])
    /\ phase' = "done"
    /\ UNCHANGED <<sc, flow, jev, nforge, pj>>

\* single handler call, only generated as a guard product
InviteV3Resp ==
    /\ phase = "inv3req" /\ net.k = "inv3req"
    /\ LET d == Decide(Inv3Checks(net, sc)) IN
       /\ net' = NoMsg
       /\ Log([a |-> "InviteV3Resp", req |-> net, res |-> d.res, code |-> d.code, why |-> d.why])
    /\ phase' = "done"
    /\ UNCHANGED <<sc, flow, jev, nforge, pj>>

(***************************************************************************)
(* The adversary.  ForgeTable: message kind -> field -> forged values.     *)
(* Fields of the carried event are written "ev.<field>".                   *)
(***************************************************************************)
ForgeTable ==
    [mjreq  |-> [origin |-> {"X"}, usrv |-> {"X", "R"}, vers |-> {"lacks", "none"}, room |-> {"other"}],
     mjresp |-> [res |-> {"ok"}, ver |-> {"unknown"}, t_type |-> {"other"}, t_mship |-> {"leave"},
                 t_ssrv |-> {"X"}, t_room |-> {"other"}, t_via |-> {"remote", "none", "local"},
                 t_auth |-> {"nocreate"}],
     sjreq  |-> [origin |-> {"X"}, room |-> {"other"}, eid |-> {"other"},
                 e_type |-> {"other"}, e_mship |-> {"leave"}, e_skey |-> {"other"}, e_ssrv |-> {"X"},
                 e_room |-> {"other"}, e_via |-> {"remote", "local"}, e_sig |-> {"none", "wrongkey", "other"}],
     sjresp |-> [create |-> {"missing", "unknownver", "badsig", "nochain"}, st |-> {"dup", "dupmem", "nokey", "nocreate"},
                 jrsig |-> {"bad"}, ban |-> {"yes"}, jret |-> {"absent", "notjoin", "malformed"}],
     mlreq  |-> [origin |-> {"X"}, usrv |-> {"X"}, room |-> {"other"}],
     invreq |-> [room |-> {"other"}, e_type |-> {"other"}, e_mship |-> {"join"}, e_skey |-> {"otherlocal", "sender"},
                 e_ssrv |-> {"R"},      \* the inviter is made a user of the invited user's own server
                 e_room |-> {"other"}, e_sig |-> {"none", "wrongkey", "other"}]]

EvField(f) == CASE f = "e_type" -> "type" [] f = "e_mship" -> "mship" [] f = "e_skey" -> "skey"
                [] f = "e_ssrv" -> "ssrv" [] f = "e_room" -> "room" [] f = "e_via" -> "via" [] f = "e_sig" -> "sig"

SetEv(e, f, v) ==
    CASE f = "e_type"  -> [e EXCEPT !.type = v]  [] f = "e_mship" -> [e EXCEPT !.mship = v]
      [] f = "e_skey"  -> [e EXCEPT !.skey = v]  [] f = "e_ssrv"  -> [e EXCEPT !.ssrv = v]
      [] f = "e_room"  -> [e EXCEPT !.room = v]  [] f = "e_via"   -> [e EXCEPT !.via = v]
      [] f = "e_sig"   -> [e EXCEPT !.sig = v]

\* a forged event field: either the event is re-signed by the server of its (new) sender - a malicious requester,
\* who then also names the new event ID in the request - or the signature is left behind.
ForgeEv(m, f, v, resign) ==
    LET e1 == SetEv(m.ev, f, v)
        e2 == IF f = "e_sig" THEN e1
              ELSE IF resign THEN [e1 EXCEPT !.sig = "valid", !.auth = IF @ = "nocreate" THEN @ ELSE AuthOf(e1.via)]
              ELSE [e1 EXCEPT !.sig = "tampered"]
    IN  IF m.k = "sjreq"
        \* the request names the event by ID: an ID computed from the content no longer matches a tampered event
        THEN [m EXCEPT !.ev = e2, !.eid = IF f # "e_sig" /\ ~resign /\ ~FormatV1(sc.ver) THEN "other" ELSE @]
        ELSE [m EXCEPT !.ev = e2]

ApplyForge(m, f, v, resign) ==
    CASE f \in {"e_type", "e_mship", "e_skey", "e_ssrv", "e_room", "e_via", "e_sig"} -> ForgeEv(m, f, v, resign)
      [] f = "origin" -> [m EXCEPT !.origin = v]
      [] f = "usrv"   -> [m EXCEPT !.usrv = v]
      [] f = "vers"   -> [m EXCEPT !.vers = v]
      [] f = "room"   -> [m EXCEPT !.room = v]
      [] f = "eid"    -> [m EXCEPT !.eid = v]
      [] f = "res"    -> [m EXCEPT !.res = v, !.tmpl = [type |-> "member", room |-> "main", ssrv |-> "J", skey |-> "sender",
                                                       mship |-> "join", via |-> "none", auth |-> "base"]]
      [] f = "ver"    -> [m EXCEPT !.ver = v]
      [] f = "t_type" -> [m EXCEPT !.tmpl.type = v]
      [] f = "t_mship" -> [m EXCEPT !.tmpl.mship = v]
      [] f = "t_ssrv" -> [m EXCEPT !.tmpl.ssrv = v]
      [] f = "t_room" -> [m EXCEPT !.tmpl.room = v]
      [] f = "t_via"  -> [m EXCEPT !.tmpl.via = v]
      [] f = "t_auth" -> [m EXCEPT !.tmpl.auth = v]
      [] f = "create" -> [m EXCEPT !.create = v]
      [] f = "st"     -> [m EXCEPT !.st = v]
      [] f = "jrsig"  -> [m EXCEPT !.jrsig = v]
      [] f = "ban"    -> [m EXCEPT !.ban = v]
      [] f = "jret"   -> [m EXCEPT !.jret = v]

CurrentValue(m, f) ==
    CASE f \in {"e_type", "e_mship", "e_skey", "e_ssrv", "e_room", "e_via", "e_sig"} -> m.ev[EvField(f)]
      [] f = "t_type" -> m.tmpl.type [] f = "t_mship" -> m.tmpl.mship [] f = "t_ssrv" -> m.tmpl.ssrv
      [] f = "t_room" -> m.tmpl.room [] f = "t_via" -> m.tmpl.via [] f = "t_auth" -> m.tmpl.auth
      [] OTHER -> m[f]

\* which forgeries make sense on the message as it is now
Forgeable(m, f) ==
    CASE f \in {"t_type", "t_mship", "t_ssrv", "t_room", "t_via", "ver"} -> m.res = "ok"
      [] f = "t_auth" -> m.res = "ok" /\ ~DomainlessRoom(sc.ver)      \* there the create event is implied by the room ID
      [] f = "res" -> m.res = "refused"
      [] f \in {"create", "st", "ban", "jret"} -> m.res = "ok"
      [] f = "jrsig" -> m.res = "ok" /\ sc.jr # "none"
      [] f = "e_via" -> ViaSigned(sc.ver)     \* elsewhere the key is not covered by the signature (redaction drops it)
      [] OTHER -> TRUE

ResignChoices(f) == IF f \in {"e_type", "e_mship", "e_skey", "e_ssrv", "e_room", "e_via"} THEN BOOLEAN ELSE {FALSE}

ForgeGuard(f, v, resign) ==
    /\ flow # "product"
    /\ net.k \in DOMAIN ForgeTable
    /\ nforge < MaxForge /\ nforge < sc.fb
    /\ f \in DOMAIN ForgeTable[net.k]
    /\ v \in ForgeTable[net.k][f]
    /\ resign \in ResignChoices(f)
    /\ Forgeable(net, f)
    \* content keys are covered by the signatures of membership events only
    /\ (f \in {"e_mship", "e_via"} /\ ~resign) => net.ev.type = "member"
    /\ CurrentValue(net, f) # v
    \* a make_join rewritten into a consistent request of another server for its own user is that server's handshake,
    \* not J's (the template would cite the other user's membership): covered by the guard products, excluded here
    /\ (net.k = "mjreq" /\ f \in {"origin", "usrv"}) =>
          LET m2 == ApplyForge(net, f, v, FALSE) IN ~(m2.origin = m2.usrv /\ m2.usrv # "J")
    \* one forgery per field of a message
    /\ \A i \in DOMAIN hist : hist[i].a = "Forge" => ~(hist[i].at = net.k /\ hist[i].f = f)

Forge(f, v, resign) ==
    /\ ForgeGuard(f, v, resign) = TRUE
    /\ net' = ApplyForge(net, f, v, resign)
    /\ nforge' = nforge + 1
    /\ Log([a |-> "Forge", at |-> net.k, f |-> f, v |-> v, resign |-> resign])
    /\ UNCHANGED <<sc, flow, phase, jev, pj>>

ForgeAny ==
    /\ net.k \in DOMAIN ForgeTable
    /\ \E f \in DOMAIN ForgeTable[net.k] : \E v \in ForgeTable[net.k][f] : \E r \in ResignChoices(f) : Forge(f, v, r)

Next ==
    \/ MakeJoinReq \/ MakeJoinResp \/ BuildJoin \/ SendJoinReq \/ SendJoinResp \/ JoinDone \/ Retry
    \/ MakeLeaveReq \/ MakeLeaveResp \/ InviteReq \/ InviteResp \/ InviteV3Resp
    \/ ForgeAny

Spec == Init /\ [][Next]_vars

(***************************************************************************)
(* The property, over the history (independent of the check sequences)     *)
(***************************************************************************)
\* 1. HandleMakeJoin / HandleMakeLeave return a template only if ...
MJConjuncts(q, s) ==
    /\ q.vers = "has"                                      \* the remote supports the room version
    /\ Belongs(q.origin, q.usrv)                           \* the user belongs to the requesting server
    /\ s.inRoom /\ q.room = "main"                         \* the local server is in the room
    /\ RestrictedVia(s) \in {"none", "A"}                  \* a restricted join can be authorised by an entitled local user
    /\ s.tb \in {"ok", "nocreate"}                         \* there is a resulting event ...
    /\ JoinAuth(s.ver, StateOf(s), RestrictedVia(s))       \* ... and it passes the auth rules

MLConjuncts(q, s) ==
    /\ Belongs(q.origin, q.usrv) /\ s.inRoom /\ q.room = "main"
    /\ s.tb \in {"ok", "nocreate"} /\ LeaveAuth(StateOf(s))

MakeJoinExact  == \A i \in Entries("MakeJoinResp")  : (hist[i].res = "ok") <=> MJConjuncts(hist[i].req, sc)
MakeLeaveExact == \A i \in Entries("MakeLeaveResp") : (hist[i].res = "ok") <=> MLConjuncts(hist[i].req, sc)

\* the template is a join (leave) of the requested user in the requested room, authorised by a local user when needed
TemplateShape ==
    \A i \in Entries("MakeJoinResp") \cup Entries("MakeLeaveResp") :
        hist[i].res = "ok" =>
            LET t == hist[i].tmpl IN
            /\ t.type = "member" /\ t.skey = "sender" /\ t.ssrv = hist[i].req.usrv /\ t.room = hist[i].req.room
            /\ t.mship = (IF hist[i].a = "MakeJoinResp" THEN "join" ELSE "leave")
            /\ t.via \in {"none", "local"}

\* ... authorised by a local user exactly when the joining member needs one (the member: the rows under its sender ID)
TemplateAuthoriser ==
    \A i \in Entries("MakeJoinResp") :
        hist[i].res = "ok" => (hist[i].tmpl.via = "local" <=> RestrictedVia(sc) = "A")

\* 2. HandleSendJoin / HandleInvite accept an event only if ...
SJConjuncts(q, s) ==
    LET e == q.ev IN
    /\ s.rv = "known"
    /\ e.type = "member" /\ e.mship = "join"               \* it is a join
    /\ e.skey = "sender"                                   \* whose sender equals its state key
    /\ e.room = q.room /\ q.eid = "match"                  \* whose room and event ID match the request
    /\ s.uq = "ok" /\ Belongs(q.origin, e.ssrv)            \* whose sender belongs to the requesting server
    /\ (PseudoIDs(s.ver) => s.map = "ok")                  \*   (pseudo IDs: by a mapping that server signed)
    /\ SigOK(e.sig) /\ s.env # "kr_err"                    \* which that server has validly signed
    /\ s.mem # "ban" /\ s.env # "memq_err"                 \* whose target (the state key: the sender ID) is not banned
    /\ e.via \in {"none", "local"}                         \* whose authorising user is local

InvConjuncts(q, s) ==
    LET e == q.ev IN
    /\ s.rv = "known"
    /\ e.type = "member" /\ e.mship = "invite" /\ e.skey = "invitee"   \* it is an invite of the invited user
    /\ e.room = q.room
    /\ s.uq = "ok" /\ SigOK(e.sig) /\ s.env # "kr_err"     \* validly signed by the sender's server
    /\ ~(s.known /\ s.mem = "join") /\ InvEnvOK(s)         \* target not already joined (as far as R can tell)

Inv3Conjuncts(q, s) == s.rv = "known" /\ q.proom = q.room /\ ~(s.known /\ s.mem = "join") /\ Inv3EnvOK(s)
InviteV3Exact == \A i \in Entries("InviteV3Resp") : (hist[i].res = "ok") <=> Inv3Conjuncts(hist[i].req, sc)

SendJoinExact == \A i \in Entries("SendJoinResp") : (hist[i].res = "ok") <=> SJConjuncts(hist[i].req, sc)
InviteExact   == \A i \in Entries("InviteResp")   : (hist[i].res = "ok") <=> InvConjuncts(hist[i].req, sc)

\* ... whatever they return additionally carries a valid signature of the local server over the unmodified event
ReturnsCountersigned ==
    \A i \in Entries("SendJoinResp") \cup Entries("InviteResp") :
        IF hist[i].res = "ok" THEN hist[i].ret.rsig /\ hist[i].ret.ev = hist[i].req.ev
        ELSE hist[i].ret = NoRet

\* 3. PerformJoin returns a join only if the remote's state passes the federation-response checks and
\*    contains a create event of a known room version
\*    (the join event J ends up with - the one of the response if it is J's join, else the one J sent - is allowed
\*    both by its own auth events and by the returned state, among the events that survive the signature checks)
FedChecksPass(m, e0, s) ==
    LET e == Adopted(m, e0) IN
    /\ m.st \in {"ok", "nocreate"}
    /\ e.type = "member"
    /\ JoinAuth(s.ver, AuthEvState(m, e, s), ViaOf(e))
    /\ JoinAuth(s.ver, RespState(m, s), ViaOf(e))

PerformJoinExact ==
    /\ pj = "ok" <=> \E i \in Entries("JoinDone") : hist[i].res = "ok"
    /\ \A i \in Entries("JoinDone") :
          (hist[i].res = "ok") <=> /\ hist[i].resp.res = "ok"
                                   /\ hist[i].resp.create \in {"ok", "badsig"}
                                   /\ FedChecksPass(hist[i].resp, hist[i].jev, sc)

\* 4. Every clause is about the member the request names, as the room knows it.  What R's tables hold under any
\*    other identity (the member's user ID where that is another string, another member) changes no decision and
\*    no template: the decision is the one taken in the world where those rows are empty.
HandlerActions == {"MakeJoinResp", "MakeLeaveResp", "SendJoinResp", "InviteResp", "InviteV3Resp"}
DecisionIn(a, q, s) ==
    CASE a = "MakeJoinResp"  -> Decide(MJChecks(q, s))
      [] a = "MakeLeaveResp" -> Decide(MLChecks(q, s))
      [] a = "SendJoinResp"  -> Decide(SJChecks(q, s))
      [] a = "InviteResp"    -> Decide(InvChecks(q, s))
      [] a = "InviteV3Resp"  -> Decide(Inv3Checks(q, s))
OtherIdentitiesIrrelevant ==
    \A i \in DOMAIN hist :
        hist[i].a \in HandlerActions =>
            LET s0 == [sc EXCEPT !.oth = "none"]
                d0 == DecisionIn(hist[i].a, hist[i].req, s0) IN
            /\ hist[i].res = d0.res /\ hist[i].why = d0.why
            /\ (hist[i].a = "MakeJoinResp" /\ d0.res = "ok") => hist[i].tmpl = Template(hist[i].req, s0, "join")

\* consequences that must hold (sanity of the specification itself)
NoJoinWithoutBothHandlers ==
    pj = "ok" => /\ \E i \in Entries("BuildJoin") : hist[i].built
                 /\ \E i \in Entries("SendJoinResp") : hist[i].res = "ok"
BannedNeverJoins == (flow = "join" /\ sc.mem = "ban") => pj # "ok"
RetrySucceedsWhereAFreshJoinWould ==
    (flow = "join" /\ phase = "done" /\ Entries("Retry") # {} /\ sc.inRoom /\ sc.jr = "public" /\ sc.mem # "ban") => pj = "ok"
UnforgedPublicJoinSucceeds ==
    (flow = "join" /\ phase = "done" /\ nforge = 0 /\ sc.inRoom /\ sc.jr = "public" /\ sc.mem # "ban") => pj = "ok"
UnforgedRestrictedJoinSucceeds ==
    (flow = "join" /\ phase = "done" /\ nforge = 0 /\ sc.inRoom /\ sc.jr = "restricted" /\ sc.mem # "ban"
       /\ RestrictedVia(sc) \in {"none", "A"}) => pj = "ok"
TamperedNeverAccepted ==
    \A i \in Entries("SendJoinResp") \cup Entries("InviteResp") : ~SigOK(hist[i].req.ev.sig) => hist[i].res = "refused"

\* a name in another letter case is another server: no handler takes a case variant for the requesting server,
\* and a signature under the case partner's name is not the sender's server's signature
CaseVariantIsAnotherServer ==
    /\ \A i \in Entries("MakeJoinResp") \cup Entries("MakeLeaveResp") :
          Ownership(hist[i].req.origin, hist[i].req.usrv) = "casevar" => hist[i].res = "refused"
    /\ \A i \in Entries("SendJoinResp") :
          Ownership(hist[i].req.origin, hist[i].req.ev.ssrv) = "casevar" => hist[i].res = "refused"
    /\ \A i \in Entries("SendJoinResp") \cup Entries("InviteResp") :
          hist[i].req.ev.sig = "casevar" => hist[i].res = "refused"
    /\ \A o \in {"R", "J", "X", "K", "N", "M"}, u \in {"R", "J", "X", "K", "N", "M"} : Belongs(o, u) <=> o = u

TypeOK == /\ nforge \in 0..MaxForge /\ pj \in {"", "ok", "refused"}
          /\ phase \in {"start", "mjreq", "mjresp", "built", "sjreq", "sjresp", "mlreq", "invreq", "inv3req", "done"}
=============================================================================
