SPECIFICATION GSpec
CONSTANTS
  Procs = {"c1"}
  Hosts = {"a", "b", "c"}
  Size = 2
  MaxCalls = 3
  MaxExpire = 1
  Kinds = {"dial"}
  ZeroDuration = FALSE
  Faults = TRUE
INVARIANTS TypeOK SizeBound ServedFreshAndSequential NoCrossHost RefinesSequential MissReturnsOwnAnswer Emit
CHECK_DEADLOCK FALSE
