------------------------- MODULE KeyFetchBatches_gen -------------------------
(* Schedules of overlapping batches for the replay against ONE real                *)
(* DirectKeyFetcher.  The yield points of the code are the KeyClient calls made     *)
(* under a live context (gated: the schedule releases each with the answer of the     *)
(* server), the start of a batch and the cancellation of a caller's context.  A        *)
(* KeyClient call made under a context that is done fails at once: it runs with          *)
(* priority, like merging and returning, and is not in `hist`.  A context that is         *)
(* done before its batch starts is either cancelled or past its deadline (o of the          *)
(* cancel step).                                                                       *)
EXTENDS KeyFetchBatches, Sequences, SequencesExt, Json

VARIABLE hist
gvars == <<vars, hist>>

Urgent(b, s) == f[b][s] \in {"merge"} \/ (ctx[b] = "done" /\ f[b][s] \in {"direct", "notary", "joined"})
Quiet == /\ \A b \in Batches, s \in Servers : ~Urgent(b, s)
         /\ \A b \in Batches : ~ENABLED Return(b)

St(b, s, stage, o) == [b |-> b, s |-> s, stage |-> stage, o |-> o]

GInit == Init /\ hist = << >>
GNext ==
  \/ \E b \in Batches, s \in Servers :
        (Merge(b, s) \/ Leave(b, s) \/ (ctx[b] = "done" /\ (Direct(b, s) \/ Notary(b, s)))) /\ UNCHANGED hist
  \/ \E b \in Batches : Return(b) /\ UNCHANGED hist
  \/ \E b \in Batches : Quiet /\ Start(b) /\ hist' = Append(hist, St(b, "", "start", ""))
  \/ \E b \in Batches : Quiet /\ Cancel(b) /\
        \E k \in (IF started[b] THEN {"cancel"} ELSE {"cancel", "deadline"}) : hist' = Append(hist, St(b, "", "cancel", k))
  \/ \E b \in Batches, s \in Servers :
        Quiet /\ ctx[b] = "live" /\ Direct(b, s) /\ hist' = Append(hist, St(b, s, "direct", DirectAnswer(s)))
  \/ \E b \in Batches, s \in Servers :
        Quiet /\ ctx[b] = "live" /\ Notary(b, s) /\ hist' = Append(hist, St(b, s, "notary", NotaryAnswer(s)))

GSpec == GInit /\ [][GNext]_gvars

Emit == AllReturned => PrintT(ToJson([req |-> [b \in Batches |-> SetToSeq(req[b])], answer |-> answer, steps |-> hist,
                                      out |-> [b \in Batches |-> SetToSeq(out[b])],
                                      live |-> [b \in Batches |-> ctx[b] = "live"]]))
=============================================================================
