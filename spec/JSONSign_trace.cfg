SPECIFICATION TSpec
CONSTANTS
  Entities = {"E1", "E2", "E3"}
  KeyIDs = {"K1", "K2", "K3", "KA"}
  Keys = {"P1", "P2", "P3", "P4"}
  PlainMembers = {}
  NestedMembers = {}
  Vals = {}
  NVals = {}
  UVals = {}
  Presentations = {}
  ForeignForms = {"padded", "text", "scalar", "object", "list", "blank"}
  EntityForms = {"blank"}
  Starts = {}
  MaxLen = 1000
  MaxSigns = 1000
INVARIANTS Report Complete CompleteNet Sound SoundTamper OneKey SignPreserves UncoveredFree ForeignEntryLocal ForeignEntityLocal
POSTCONDITION TraceAccepted
CHECK_DEADLOCK FALSE
