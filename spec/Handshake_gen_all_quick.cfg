SPECIFICATION GSpec
CONSTANTS
  Family = "all"
  Width = "quick"
  MaxForge = 2
  ScenarioSet = "e2e_quick"
INVARIANTS TypeOK CaseVariantIsAnotherServer MakeJoinExact MakeLeaveExact TemplateShape SendJoinExact InviteExact InviteV3Exact ReturnsCountersigned PerformJoinExact NoJoinWithoutBothHandlers BannedNeverJoins RetrySucceedsWhereAFreshJoinWould UnforgedPublicJoinSucceeds UnforgedRestrictedJoinSucceeds TamperedNeverAccepted TemplateAuthoriser OtherIdentitiesIrrelevant Emit
CHECK_DEADLOCK FALSE
