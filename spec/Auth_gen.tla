------------------------------ MODULE Auth_gen ------------------------------
(***************************************************************************)
(* Scenario generator for Auth.tla: Init ranges over one scenario family,  *)
(* Check records the verdict, Emit prints the scenario as JSON for replay  *)
(* against the real Allowed().  Families keep every exhaustive config      *)
(* small; dimensions a rule cannot read are fixed (relevance pruning).     *)
(***************************************************************************)
EXTENDS Auth, Json

CONSTANTS Versions,    \* room versions to enumerate
          Family,      \* "member_self" | "member_restricted" | "member_other" | "member_tpi" | "structure" | "generic" | "create" | "versions" | "pl0" .. "pl3" | "plnames" | "placcess"
          PLDepth      \* value set size for the pl2 family: "small" | "full"

VersionsQuick == {"1", "6", "8", "10", "12"}
VersionsAll == AllVersions
VersionsPL2Quick == {"6", "12"}

VersionsAccessQuick == {"1", "10", "12"}      \* the three event formats / room-ID schemes

VARIABLES ver, st, ev, phase, verdict, noesc,
          pre,       \* what the caller does with the public accessors around the check (NoPre: nothing)
          ccopy,     \* the caller's copy of a power-levels content, as edited by the caller
          verdict0   \* the verdict of a check made BEFORE the caller's edit ("na": no such check)

vars == <<ver, st, ev, phase, verdict, noesc, pre, ccopy, verdict0>>

NoPre == [route |-> "none", edit |-> "none", order |-> "none"]

M7 == {"absent", "join", "invite", "leave", "ban", "knock", "garbage"}
NewM == Memberships \cup {"garbage", "missing"}
JR8 == {"absent", "public", "invite", "knock", "restricted", "knock_restricted", "private", "nokey"}
Thr4 == {Absent, 1, 2, 3}

\* ---- member_self: a user changes their own membership ------------------------
InitMemberSelf ==
    \E u \in {"creator", "alice", "bob"}, m \in NewM, old \in M7, fed \in {"absent", "false"} :
    \E jr \in (IF m \in {"join", "knock"} THEN JR8 ELSE {"absent"}) :
    \E prev \in (IF u = "creator" /\ m = "join" THEN {"create_only", "other", "two", "none"} ELSE {"other"}) :
       /\ st = [WithMem(BaseSt, u, old) EXCEPT !.jr = jr, !.create.federate = fed]
       /\ ev = [MemberEv(u, u, m) EXCEPT !.prev = prev]

\* ---- member_restricted: joins nominating an authorising user ----------------------
InitMemberRestricted ==
    \E old \in {"absent", "leave", "knock", "invite", "join", "ban"},
       jr \in {"restricted", "knock_restricted", "public", "invite"},
       via \in {"none", "carol", "creator", "invalid", "bob"} :
    \E cm \in (IF via = "carol" THEN {"join", "leave", "absent", "invite"} ELSE {"join"}) :
    \E plm \in (IF via = "carol" /\ cm = "join" THEN {"none", "rel"} ELSE {"none"}) :
    \E cl \in (IF plm = "rel" THEN {1, 2, 3} ELSE {0}), thr \in (IF plm = "rel" THEN Thr4 ELSE {Absent}),
       clvia \in (IF plm = "rel" THEN {"map", "default"} ELSE {"map"}) :
       LET s0 == [WithMem(WithMem(WithMem(BaseSt, "bob", old), "carol", cm), "creator", "join") EXCEPT !.jr = jr]
           c == [EmptyPL EXCEPT !.invite = thr,
                                !.users = [u \in Users |-> IF u = "carol" /\ clvia = "map" THEN cl ELSE Absent],
                                !.users_default = IF clvia = "default" THEN cl ELSE Absent]
       IN /\ st = IF plm = "rel" THEN WithPL(s0, c) ELSE s0
          /\ ev = [MemberEv("bob", "bob", "join") EXCEPT !.authvia = via]

\* ---- member_other: a user changes somebody else's membership --------------------
RelKey(m) == CASE m = "ban" -> "ban" [] m = "leave" -> "kick" [] m = "invite" -> "invite" [] OTHER -> "ban"

InitMemberOther ==
    \E pair \in {<<"alice", "bob">>, <<"creator", "alice">>, <<"alice", "creator">>, <<"bob", "alice">>},
       m \in NewM, sm \in {"join", "leave", "invite", "absent", "ban", "knock"}, old \in M7 :
    \E plm \in (IF sm = "join" /\ m \in {"ban", "leave", "invite"} THEN {"none", "rel"} ELSE {"none"}) :
    \E tl \in (IF plm = "rel" THEN {1, 2, 3} ELSE {0}), thr \in (IF plm = "rel" THEN Thr4 ELSE {Absent}) :
    \E thr2 \in (IF plm = "rel" /\ m = "leave" /\ old = "ban" THEN Thr4 ELSE {Absent}),
       tvia \in (IF plm = "rel" THEN {"map", "default"} ELSE {"map"}) :
       LET sender == pair[1]  target == pair[2]
           s0 == WithMem(WithMem(BaseSt, sender, sm), target, old)
           c == [[EmptyPL EXCEPT ![RelKey(m)] = thr,
                                 !.users = [u \in Users |-> IF u = sender THEN 2
                                                            ELSE IF u = target /\ tvia = "map" THEN tl ELSE Absent],
                                 !.users_default = IF tvia = "default" THEN tl ELSE Absent]
                   EXCEPT !.ban = IF m = "leave" /\ old = "ban" THEN thr2 ELSE @]
       IN /\ st = IF plm = "rel" THEN WithPL(s0, c) ELSE s0
          /\ ev = MemberEv(sender, target, m)

\* ---- member_tpi: invites that follow up a third-party invite ----------------------
InitMemberTPI ==
    \/ \E etpi \in {"ok", "mxid_mismatch", "notoken"}, stpi \in {"absent", "match", "nomatch"},
          tps \in {"alice", "creator"}, old \in {"absent", "leave", "ban", "join", "invite", "knock"},
          sm \in {"join", "leave", "absent"} :
          /\ st = [WithMem(WithMem(BaseSt, "alice", sm), "bob", old) EXCEPT !.tpi = stpi, !.tpisender = tps]
          /\ ev = [MemberEv("alice", "bob", "invite") EXCEPT !.tpi = etpi]
    \* a third_party_invite block on anything but an invite plays no part in the rules
    \/ \E m \in {"join", "leave", "knock", "ban"}, etpi \in {"ok", "notoken"}, stpi \in {"absent", "match", "nomatch"},
          old \in {"absent", "invite", "join", "leave"}, jr \in {"public", "invite", "knock"} :
          /\ st = [WithMem(WithMem(BaseSt, "bob", old), "creator", "join") EXCEPT !.tpi = stpi, !.tpisender = "bob", !.jr = jr]
          /\ ev = IF m = "ban" THEN [MemberEv("creator", "bob", "ban") EXCEPT !.tpi = etpi]
                   ELSE [MemberEv("bob", "bob", m) EXCEPT !.tpi = etpi]

\* ---- structure: create event absent / from another room / mixed rooms / no state key ---
InitStructure ==
    \E cp \in BOOLEAN, room \in {"same", "other"}, mixed \in BOOLEAN,
       t \in {"member_self", "member_other", "member_nokey", "msg", "topic", "aliases", "pl", "redaction"} :
       LET s0 == [WithMem(WithMem(BaseSt, "alice", "join"), "creator", "join")
                     EXCEPT !.create.present = cp, !.create.room = room, !.mixedrooms = mixed, !.jr = "public"]
       IN /\ st = s0
          /\ ev = CASE t = "member_self" -> MemberEv("bob", "bob", "join")
                    [] t = "member_other" -> MemberEv("alice", "bob", "invite")
                    [] t = "member_nokey" -> [MemberEv("bob", "bob", "join") EXCEPT !.skey = "none"]
                    [] t = "msg" -> BaseEv
                    [] t = "topic" -> [BaseEv EXCEPT !.type = "topic", !.skey = "empty", !.sender = "creator"]
                    [] t = "aliases" -> [BaseEv EXCEPT !.type = "aliases", !.skey = "server_self"]
                    [] t = "pl" -> [BaseEv EXCEPT !.type = "pl", !.skey = "empty", !.sender = "creator"]
                    [] t = "redaction" -> [BaseEv EXCEPT !.type = "redaction"]

\* ---- generic: rules 3, 4, 6-9, 11, 12 ----------------------------------------------
GenTypes == {"msg", "topic", "jr", "tpi", "at_self", "at_other", "redaction", "aliases"}

InitGeneric ==
    \E t \in GenTypes, sender \in {"creator", "alice", "bob"}, sm \in M7, fed \in {"absent", "false", "true"} :
    \E plm \in (IF sm = "join" /\ t # "aliases" THEN {"none", "rel"} ELSE {"none"}) :
    \E ek \in (IF plm = "rel" /\ t # "tpi" THEN Thr4 ELSE {Absent}),
       sd \in (IF plm = "rel" /\ t \in {"topic", "jr", "at_self", "at_other"} THEN Thr4 ELSE {Absent}),
       ed \in (IF plm = "rel" /\ t \in {"msg", "redaction"} THEN Thr4 ELSE {Absent}),
       inv \in (IF plm = "rel" /\ t = "tpi" THEN Thr4 ELSE {Absent}),
       svia \in (IF plm = "rel" THEN {"map", "default"} ELSE {"map"}) :
    \E red \in (IF t = "redaction" THEN {"own_domain", "other_domain", "nocolon"} ELSE {"own_domain"}),
       rthr \in (IF t = "redaction" /\ plm = "rel" THEN Thr4 ELSE {Absent}),
       ask \in (IF t = "aliases" THEN {"server_self", "server_other", "self", "none"} ELSE {"x"}) :
       LET evk == CASE t = "at_self" -> "custom" [] t = "at_other" -> "custom" [] t = "aliases" -> "custom" [] OTHER -> t
           c == [EmptyPL EXCEPT !.events = [k \in EvKeys |-> IF k = evk THEN ek ELSE Absent],
                                !.state_default = sd, !.events_default = ed, !.invite = inv, !.redact = rthr,
                                !.users = [u \in Users |-> IF u = sender /\ svia = "map" THEN 2 ELSE Absent],
                                !.users_default = IF svia = "default" THEN 2 ELSE Absent]
           s0 == [WithMem(BaseSt, sender, sm) EXCEPT !.create.federate = fed]
       IN /\ st = IF plm = "rel" THEN WithPL(s0, c) ELSE s0
          /\ ev = [BaseEv EXCEPT !.sender = sender, !.redacts = red,
                                 !.type = CASE t \in {"at_self", "at_other"} -> "at_state" [] OTHER -> t,
                                 !.skey = CASE t \in {"msg", "redaction"} -> "none"
                                            [] t \in {"topic", "jr"} -> "empty"
                                            [] t = "tpi" -> "token"
                                            [] t = "at_self" -> "self"
                                            [] t = "at_other" -> "other_user"
                                            [] OTHER -> ask]

\* ---- create: rule 1 ----------------------------------------------------------------
InitCreate ==
    \E prevs \in BOOLEAN, dm \in {"match", "mismatch"}, rid \in BOOLEAN, rv \in {"absent", "own", "unknown"},
       cr \in BOOLEAN, addl \in {"none", "valid", "invalid"}, sk \in {"empty", "none"} :
       /\ (sk = "none" => rid)
       /\ st = [BaseSt EXCEPT !.create.present = FALSE]
       /\ ev = [BaseEv EXCEPT !.type = "create", !.sender = "creator", !.skey = sk, !.c_prevs = prevs,
                              !.c_domain = dm, !.c_roomid = rid, !.c_rv = rv, !.c_creator = cr, !.c_addl = addl]

\* ---- pl1 / pl2: power-level events, one- and two-key variations ------------------------
\* Keys of a power-levels content that a variation can touch.
PLKeys == {"ban", "kick", "invite", "redact", "events_default", "state_default", "users_default",
           "events.pl", "events.topic", "events.msg", "notif.room", "notif.here",
           "users.alice", "users.bob", "users.carol"}
PLVals == {Absent, 0, 1, 2, 3, 4}
PLValsSmall == {Absent, 1, 2, 3, 4}

SetKey(c, k, x) ==
    CASE k \in ScalarKeys -> [c EXCEPT ![k] = x]
      [] k = "events.pl" -> [c EXCEPT !.events["pl"] = x]
      [] k = "events.topic" -> [c EXCEPT !.events["topic"] = x]
      [] k = "events.msg" -> [c EXCEPT !.events["msg"] = x]
      [] k = "events.tpi" -> [c EXCEPT !.events["tpi"] = x]
      [] k = "events.custom" -> [c EXCEPT !.events["custom"] = x]
      [] k = "notif.room" -> [c EXCEPT !.notif["room"] = x]
      [] k = "notif.here" -> [c EXCEPT !.notif["here"] = x]
      [] k = "users.alice" -> [c EXCEPT !.users["alice"] = x]
      [] k = "users.bob" -> [c EXCEPT !.users["bob"] = x]
      [] k = "users.carol" -> [c EXCEPT !.users["carol"] = x]

\* baseline old content: the sender (alice) has level s and may send power-level events
BasePL(s) == [EmptyPL EXCEPT !.users = [u \in Users |-> IF u = "alice" THEN s ELSE Absent],
                             !.events = [k \in EvKeys |-> IF k = "pl" THEN 2 ELSE Absent]]

PLEv(c) == [BaseEv EXCEPT !.type = "pl", !.sender = "alice", !.skey = "empty", !.newpl = c]

InitPL1 ==
    \/ \E s \in {2, 3}, k \in PLKeys, o \in PLVals, n \in PLVals, sp \in {"int", "str", "strpad", "float", "frac", "badstr"} :
          /\ (sp # "int" => n # Absent /\ o = Absent)
          /\ st = WithPL(WithMem(BaseSt, "alice", "join"), SetKey(BasePL(s), k, o))
          /\ ev = PLEv([SetKey(BasePL(s), k, n) EXCEPT !.spk = IF sp = "int" THEN "" ELSE k, !.spkind = sp])
    \* the sender of the create event as an ordinary user: once a power-levels event exists it holds the level that
    \* event gives it and nothing more (privileged-creator versions excepted, where the model gives it Inf)
    \/ \E s \in {2, 3}, k \in PLKeys, o \in PLVals, n \in PLVals :
          LET base == [BasePL(s) EXCEPT !.users = [u \in Users |-> IF u = "creator" THEN s ELSE Absent]] IN
          /\ o # n
          /\ st = WithPL(WithMem(BaseSt, "creator", "join"), SetKey(base, k, o))
          /\ ev = [PLEv(SetKey(base, k, n)) EXCEPT !.sender = "creator"]

PLKeySeq == <<"ban", "kick", "invite", "redact", "events_default", "state_default", "users_default",
              "events.pl", "events.topic", "events.msg", "notif.room", "notif.here",
              "users.alice", "users.bob", "users.carol">>

InitPL2 ==
    LET V == IF PLDepth = "full" THEN PLVals ELSE PLValsSmall IN
    \E i \in 1..Len(PLKeySeq), j \in 1..Len(PLKeySeq) :
    \E o1 \in V, n1 \in V, o2 \in V, n2 \in V :
       /\ i # j
       /\ o2 # n2                        \* key j really varies
       /\ (o1 # n1 => i < j)             \* key i varies too (each unordered pair once) or is a constant context (o1 = n1)
       /\ (o1 = n1 => o1 # Absent)       \* a constant context at its default is a pl1 scenario
       /\ st = WithPL(WithMem(BaseSt, "alice", "join"), SetKey(SetKey(BasePL(2), PLKeySeq[i], o1), PLKeySeq[j], o2))
       /\ ev = PLEv(SetKey(SetKey(BasePL(2), PLKeySeq[i], n1), PLKeySeq[j], n2))

\* per-event-type entries against BOTH defaults held constant at any value (the level a type needs as a message
\* resp. state event when it has no entry), for senders at level 2 and 3
InitPL3 ==
    \E s \in {2, 3}, ed \in PLValsSmall, sd \in PLValsSmall, k \in {"events.topic", "events.msg", "events.pl", "events.tpi"},
       o \in PLValsSmall, n \in PLValsSmall :
       /\ o # n
       /\ LET ctx == SetKey(SetKey(BasePL(s), "events_default", ed), "state_default", sd) IN
          /\ st = WithPL(WithMem(BaseSt, "alice", "join"), SetKey(ctx, k, o))
          /\ ev = PLEv(SetKey(ctx, k, n))

\* names: the `events` (and `notifications`) maps are keyed by arbitrary strings, so an entry may carry the NAME of one
\* of the thresholds ("ban", "users_default", ...) or of a notification key.  Such an entry is the level of an
\* ordinary event type of that name and has nothing to do with the threshold: a threshold change is judged exactly as
\* it is without the entry.  The harness realises the abstract type "custom" by the name of the threshold that
\* changes in the record (and the notification key "here" likewise), so the two meet in whatever table the code keeps.
InitPLNames ==
    \/ \E s \in {2, 3}, k \in ScalarKeys, o \in PLValsSmall, n \in PLValsSmall, c1 \in {Absent, 1, 2, 3}, c2 \in {Absent, 1, 2, 3} :
          /\ o # n
          /\ (c1 # Absent \/ c2 # Absent)
          /\ st = WithPL(WithMem(BaseSt, "alice", "join"), SetKey(SetKey(BasePL(s), k, o), "events.custom", c1))
          /\ ev = PLEv(SetKey(SetKey(BasePL(s), k, n), "events.custom", c2))
    \/ \E s \in {2, 3}, k \in ScalarKeys, o \in PLValsSmall, n \in PLValsSmall, c1 \in {Absent, 1, 2, 3}, c2 \in {Absent, 1, 2, 3} :
          /\ o # n
          /\ (c1 # Absent \/ c2 # Absent)
          /\ st = WithPL(WithMem(BaseSt, "alice", "join"), SetKey(SetKey(BasePL(s), k, o), "notif.here", c1))
          /\ ev = PLEv(SetKey(SetKey(BasePL(s), k, n), "notif.here", c2))
    \* an events entry and a notifications entry of one name
    \/ \E s \in {2, 3}, o \in PLValsSmall, n \in PLValsSmall, c1 \in {Absent, 1, 2, 3}, c2 \in {Absent, 1, 2, 3} :
          /\ o # n
          /\ (c1 # Absent \/ c2 # Absent)
          /\ st = WithPL(WithMem(BaseSt, "alice", "join"), SetKey(SetKey(BasePL(s), "notif.here", o), "events.custom", c1))
          /\ ev = PLEv(SetKey(SetKey(BasePL(s), "notif.here", n), "events.custom", c2))

\* first power-levels event of a room (no current one), bad user key, creators in v12, sender not joined
InitPL0 ==
    \E sender \in {"creator", "alice"}, haspl \in BOOLEAN, addl \in {{}, {"alice"}},
       k \in PLKeys, n \in PLVals, bad \in BOOLEAN, cu \in {Absent, 2, NoPLCreator} :   \* NoPLCreator: the entry spells out the implicit level
       LET s0 == [WithMem(WithMem(BaseSt, "alice", "join"), "creator", "join") EXCEPT !.create.addl = addl]
           base == BasePL(2)
       IN \/ /\ st = IF haspl THEN WithPL(s0, base) ELSE s0
             /\ ev = [PLEv([SetKey(base, k, n) EXCEPT !.baduser = bad, !.users["creator"] = cu]) EXCEPT !.sender = sender]
          \* a current power-levels event whose content is {}: it exists, so everybody - the create sender included -
          \* is at users_default 0 and nothing of the "no power-levels event yet" defaults applies
          \/ /\ haspl /\ ~bad /\ addl = {}
             /\ st = WithPL(s0, EmptyPL)
             /\ ev = [PLEv([SetKey(EmptyPL, k, n) EXCEPT !.users["creator"] = cu]) EXCEPT !.sender = sender]

\* ---- placcess: the caller reads a power-levels content through a public accessor and EDITS what it got ------------
\* The usual read-modify-write: the current levels are read (PDU.PowerLevels() of the current power-levels event,
\* NewPowerLevelContentFromEvent, NewPowerLevelContentFromAuthEvents), the result is edited into the next content, the
\* proposed event is built from it and Allowed() is asked - with that same current event object among the auth events.
\* What an accessor returns is the caller's COPY (variable ccopy): editing it changes neither the auth state nor the
\* judged event (action CallerEdit leaves st and ev unchanged), so verdict and NoEsc are those of the scenario without
\* the edit.  Routes "state.*" read the current power-levels event, "event.*" the judged one; orders: "ec" edit then
\* check, "cec" check, edit, check again (both checks give the same verdict).
AccessRoutes == {"state.PowerLevels", "state.FromEvent", "state.FromAuthEvents", "event.PowerLevels", "event.FromEvent"}

\* what the caller turns its copy into
EditedCopy(kind, route, s0, e0) ==
    CASE kind = "to_other" -> IF route \in {"state.PowerLevels", "state.FromEvent", "state.FromAuthEvents"} THEN e0.newpl ELSE s0.pl.c
      [] kind = "wipe" -> EmptyPL                                            \* every entry deleted, every threshold 0
      [] kind = "lift" -> [EmptyPL EXCEPT !.users[e0.sender] = 4]            \* ... and the sender at the top
      [] OTHER -> EmptyPL

InitPLAccess ==
    \E k \in PLKeys, o \in PLValsSmall, n \in PLValsSmall, route \in AccessRoutes,
       mode \in {<<"to_other", "ec">>, <<"to_other", "cec">>, <<"wipe", "ec">>, <<"lift", "ec">>} :
       /\ o # n
       /\ (route \in {"state.FromEvent", "event.FromEvent"} => mode = <<"to_other", "ec">>)
       /\ st = WithPL(WithMem(BaseSt, "alice", "join"), SetKey(BasePL(2), k, o))
       /\ ev = PLEv(SetKey(BasePL(2), k, n))
       /\ pre = [route |-> route, edit |-> mode[1], order |-> mode[2]]

\* ---- versions: every version-sensitive rule, for ALL registered versions (also in the quick tier) ----------
InitVersionEdges ==
    LET joined == WithMem(WithMem(BaseSt, "bob", "join"), "creator", "join")
        withLevels(s0, bobLevel) == WithPL(s0, [EmptyPL EXCEPT !.users = [u \in Users |-> IF u = "bob" THEN bobLevel ELSE IF u = "creator" THEN 4 ELSE Absent]])
    IN
    \/ \E red \in {"own_domain", "other_domain", "nocolon"}, lvl \in {2, 3} :       \* rule 11 only in v1 / v2
          /\ st = withLevels(joined, lvl)
          /\ ev = [BaseEv EXCEPT !.type = "redaction", !.sender = "bob", !.redacts = red]
    \/ \E jr \in {"knock", "knock_restricted", "invite"}, old \in {"absent", "invite", "leave", "knock"} :   \* knocking: v7+
          /\ st = [WithMem(joined, "alice", old) EXCEPT !.jr = jr]
          /\ ev = MemberEv("alice", "alice", "knock")
    \/ \E jr \in {"restricted", "knock_restricted"}, via \in {"none", "creator"}, old \in {"absent", "invite"} :   \* restricted joins: v8+
          /\ st = [WithMem(joined, "alice", old) EXCEPT !.jr = jr]
          /\ ev = [MemberEv("alice", "alice", "join") EXCEPT !.authvia = via]
    \/ \E sp \in {"int", "str", "float"}, n \in {2, 4} :                                \* integer-only levels: v10+
          /\ st = withLevels(joined, 3)
          /\ ev = [PLEv([[EmptyPL EXCEPT !.users = [u \in Users |-> IF u = "bob" THEN 3 ELSE IF u = "creator" THEN 4 ELSE Absent]]
                             EXCEPT !.kick = n, !.spk = IF sp = "int" THEN "" ELSE "kick", !.spkind = sp]) EXCEPT !.sender = "bob"]
    \/ \E o \in {Absent, 4}, n \in {Absent, 2, 4} :                                      \* notification levels: v6+
          /\ o # n
          /\ st = WithPL(joined, [EmptyPL EXCEPT !.users = [u \in Users |-> IF u = "bob" THEN 3 ELSE Absent], !.notif = [k \in NKeys |-> IF k = "here" THEN o ELSE Absent]])
          /\ ev = [PLEv([EmptyPL EXCEPT !.users = [u \in Users |-> IF u = "bob" THEN 3 ELSE Absent], !.notif = [k \in NKeys |-> IF k = "here" THEN n ELSE Absent]]) EXCEPT !.sender = "bob"]
    \/ \E cr \in BOOLEAN, rv \in {"own", "unknown"}, rid \in BOOLEAN, addl \in {"none", "invalid"} :   \* create rules per version
          /\ st = [BaseSt EXCEPT !.create.present = FALSE]
          /\ ev = [BaseEv EXCEPT !.type = "create", !.sender = "creator", !.skey = "empty", !.c_creator = cr, !.c_rv = rv, !.c_roomid = rid, !.c_addl = addl]
    \/ \E named \in {"creator", "bob"}, sender \in {"creator", "bob"} :                    \* creators in the users map: v12
          /\ st = [withLevels(joined, 4) EXCEPT !.pl.c.users["creator"] = IF PrivilegedCreators(ver) THEN Absent ELSE 4]
          /\ ev = [PLEv([st.pl.c EXCEPT !.users[named] = 4, !.invite = 2]) EXCEPT !.sender = sender]
    \/ \E sk \in {"server_self", "self", "server_other"} :                                   \* aliases (pseudo IDs differ)
          /\ st = joined
          /\ ev = [BaseEv EXCEPT !.type = "aliases", !.sender = "bob", !.skey = sk]

Init ==
    /\ ver \in (IF Family = "versions" THEN AllVersions ELSE Versions)
    /\ phase = "scenario" /\ verdict = FALSE /\ noesc = TRUE
    /\ ccopy = EmptyPL /\ verdict0 = "na"
    /\ (IF Family = "placcess" THEN TRUE ELSE pre = NoPre)
    /\ CASE Family = "member_self" -> InitMemberSelf
         [] Family = "member_restricted" -> InitMemberRestricted
         [] Family = "member_other" -> InitMemberOther
         [] Family = "member_tpi" -> InitMemberTPI
         [] Family = "structure" -> InitStructure
         [] Family = "generic" -> InitGeneric
         [] Family = "create" -> InitCreate
         [] Family = "versions" -> InitVersionEdges
         [] Family = "pl0" -> InitPL0
         [] Family = "pl1" -> InitPL1
         [] Family = "pl2" -> InitPL2
         [] Family = "pl3" -> InitPL3
         [] Family = "plnames" -> InitPLNames
         [] Family = "placcess" -> InitPLAccess

\* the check itself (Allowed is a pure function of the scenario); with a caller's edit it comes after the edit
Check ==
    /\ phase = (IF pre.route = "none" THEN "scenario" ELSE "edited")
    /\ phase' = "done"
    /\ verdict' = Allowed(ver, st, ev)
    /\ noesc' = IF ev.type = "pl" THEN NoEsc(ver, st, ev) ELSE TRUE
    /\ UNCHANGED <<ver, st, ev, pre, ccopy, verdict0>>

\* order "cec": a first check before the caller touches anything
CheckBefore ==
    /\ phase = "scenario" /\ pre.order = "cec"
    /\ phase' = "checked"
    /\ verdict0' = IF Allowed(ver, st, ev) THEN "t" ELSE "f"
    /\ UNCHANGED <<ver, st, ev, pre, ccopy, verdict, noesc>>

\* the caller reads a content through the accessor named by pre.route and edits ITS COPY: the auth state and the
\* judged event are not the caller's to change through it
CallerEdit ==
    /\ pre.route # "none"
    /\ phase = (IF pre.order = "cec" THEN "checked" ELSE "scenario")
    /\ phase' = "edited"
    /\ ccopy' = EditedCopy(pre.edit, pre.route, st, ev)
    /\ UNCHANGED <<ver, st, ev, pre, verdict, noesc, verdict0>>

Next == Check \/ CheckBefore \/ CallerEdit
Spec == Init /\ [][Next]_vars

(***************************************************************************)
(* Properties of the rules themselves (oracle sanity + C08's lemma + C09)  *)
(***************************************************************************)
\* C08: whenever the rules accept a power-levels event, no escalation happened
AcceptedImpliesNoEsc == (phase = "done" /\ ev.type = "pl" /\ verdict) => noesc

\* a banned sender never passes; nothing but create passes without a create event; mixed rooms never pass
BannedNeverPasses == (phase = "done" /\ ev.type # "create" /\ ev.type # "aliases" /\ MemOf(st, ev.sender) = "ban"
                        /\ ~(ev.type = "member" /\ (ev.tpi # "none" \/ FirstJoin(st, ev)))) => ~verdict
NoCreateNoPass == (phase = "done" /\ ev.type # "create" /\ ~st.create.present) => ~verdict
MixedNeverPass == (phase = "done" /\ st.mixedrooms) => ~verdict

\* C09: the verdict only depends on the state the event needs
OnlyNeededState == phase = "done" => verdict = Allowed(ver, RestrictTo(st, Needed(ev)), ev)

\* accessor results are copies: a check made before the caller's edit and the one made after it agree
EditChangesNothing == (phase = "done" /\ verdict0 # "na") => (verdict0 = "t") = verdict

Emit == phase = "done" =>
          PrintT(ToJson([ver |-> ver, st |-> st, ev |-> ev, want |-> verdict, noesc |-> noesc, fam |-> Family, pre |-> pre]))
=============================================================================
