\* C15 planted design fault: the handlers put their questions to R's tables under another identity than the member's
\* sender ID (Handshake!AskKey).  TLC must refute InviteV3Exact (checks/c15.py FAULTS).
SPECIFICATION GSpec
CONSTANTS
  Family = "inv3"
  Width = "quick"
  MaxForge = 0
  ScenarioSet = "none"
  AskKey <- AskUid
INVARIANTS InviteV3Exact
CHECK_DEADLOCK FALSE
