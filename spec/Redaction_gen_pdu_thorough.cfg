SPECIFICATION Spec
CONSTANTS
  Versions <- VersionsAll
  FullVersions <- VersionsAll
  Families <- FamPdu
  Kinds <- KindsLattice
  ChunkSize = 1
  MaxHist = 0
  FullOffsets <- OffLow
  LiteOffsets <- OffHigh
  AllOnlyOffsets <- OffNone
  RouteSteps = 0
  RouteFull = FALSE
INVARIANTS TypeOK PExact PIdempotent PHistory PCore PIdentity PRoute PModule PSanity Emit
CHECK_DEADLOCK FALSE
