SPECIFICATION Spec
CONSTANTS
  Versions <- VersionsAll
  FullVersions <- VersionsAll
  Family = "pdu"
  FullOffsets <- OffLow
  LiteOffsets <- OffHigh
  AllOnlyOffsets <- OffNone
INVARIANTS TypeOK PExact PIdempotent PCore PIdentity PModule PSanity Emit
CHECK_DEADLOCK FALSE
