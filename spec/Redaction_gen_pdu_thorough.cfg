SPECIFICATION Spec
CONSTANTS
  Versions <- VersionsAll
  FullVersions <- VersionsAll
  Families <- FamPdu
  Kinds <- KindsLattice
  ChunkSize = 1
  MaxHist = 0
  FullOffsets <- OffLow
  LiteOffsets <- OffHigh
  AllOnlyOffsets <- OffNone
INVARIANTS TypeOK PExact PIdempotent PHistory PCore PIdentity PModule PSanity Emit
CHECK_DEADLOCK FALSE
