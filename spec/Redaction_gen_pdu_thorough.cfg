SPECIFICATION Spec
CONSTANTS
  Versions <- VersionsAll
  Family = "pdu"
  FullOffsets <- OffAll
  LiteOffsets <- OffNone
INVARIANTS TypeOK PExact PIdempotent PCore PIdentity PModule PSanity Emit
CHECK_DEADLOCK FALSE
