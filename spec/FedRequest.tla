----------------------------- MODULE FedRequest -----------------------------
(***************************************************************************)
(* C13 - federation request authentication (fclient/request.go).           *)
(*                                                                         *)
(* The protocol of ONE request:                                            *)
(*   Compose(method, uri, origin, destination, body)   the sender's intent *)
(*   Sign(nk)           signature(s) over (method, uri, origin, dest, body) *)
(*                      with one key ID, or with two (key rotation)        *)
(*   Emit(style)        request line, body, content type and the           *)
(*                      Authorization header as a token sequence           *)
(*   Tamper(kind)       the network / a faulty sender alters what is       *)
(*                      transmitted (one wire component per kind)          *)
(*   Receive(cfg, kv)   VerifyHTTPRequest at a receiver with local names   *)
(*                      cfg and a key database in state kv                 *)
(*   Later(l)           the same receiver process goes on to handle other  *)
(*                      requests (class l of their bodies) while the       *)
(*                      result of an accepted request is still in use      *)
(*                                                                         *)
(* Values are abstract: "M" = the composed method, "M2" = another one,     *)
(* "U"/"U2" URIs, "O" the composed origin, "O2" another (valid, known)     *)
(* server, destination "P" = the receiver's primary name, "S" = a          *)
(* secondary local name, "F"/"F2" = names the receiver does not own,       *)
(* body "none" / "B" / "B2" (JSON values) / "X" / "X2" (not UTF-8),        *)
(* "Oc" / "Pc" / "Sc" / "Fc" = the same name spelled in another letter case *)
(* (server names are compared as spelled), key "K"/"K2".  The signature is symbolic: "S0" verifies exactly for the *)
(* record `signed` it was made over (ed25519 assumed unforgeable).         *)
(***************************************************************************)
EXTENDS FedHeader, TLC

CONSTANTS Methods, URIs, OriginShapes, DestShapes, Spellings, Bodies, Styles, KeyVals, Cfgs, DestOwns,
          Entries,        \* how the request is sent (subset of {"direct", "client"})
          NKeys,          \* numbers of key IDs the origin signs with (subset of {1, 2})
          Knowns,         \* which signing keys the receiver knows
          TamperKinds,    \* the tamperings explored
          Laters,         \* what the receiver handles afterwards (subset of AllLaters)
          MaxTamper,      \* at most this many tamperings per request
          Budget          \* (deviations from the base scenario) + (tamperings) <= Budget

BaseMethod == "PUT"
BaseURI    == "plain"
BaseShape  == "dns"
BaseStyle  == "canon"
BaseKV     == "valid"
BaseKnown  == "both"
\* later requests handled by the same process, by their body relative to the accepted request's: of the same
\* length (other bytes), shorter, longer, none at all
AllLaters  == {"same", "shorter", "longer", "nobody"}
BaseLater  == "same"

\* states of the database record of the origin's key K at the time of receipt in which K is valid:
\*   valid      valid_until_ts in the future (within 7 days)       validfar  valid_until_ts beyond 7 days
\*   expfuture  expired_ts in the future (with or without valid_until_ts)
\* and in which it is not:
\*   lapsed     valid_until_ts in the past                           expired   expired_ts in the past, no valid_until_ts
\*   expboth    expired_ts in the past AND valid_until_ts in the future (an expired_ts at or before the time of
\*              receipt means not valid, whatever valid_until_ts says)
\*   unknown    no record                                            wrongkey  another public key
\* the key ring beyond its database (a key fetcher) and its error paths:
\*   fetched    no record in the database, the fetcher supplies a valid one   (valid)
\*   refreshed  lapsed record in the database, the fetcher supplies a valid one   (valid)
\*   fetcherr   no record, the fetcher fails                                   (not valid)
\*   dberror    the database fails: no key at all can be established          (not valid, for every key)
ValidKVs == {"valid", "validfar", "expfuture", "fetched", "refreshed"}

\* origin names that are not valid server names.  "invalid" is a mixed class; the others are one
\* grammar violation each and are explored on the otherwise unvaried request (they cost two deviations):
\* bracketed IPv4 without / with port, port > 65535, port of more than five digits, signed port (- / +),
\* empty host, host with an illegal character (_ / space / slash), unbalanced bracket, 256-character DNS name
ExtraInvalidOrigins == {"inv_brk4", "inv_brk4port", "inv_portbig", "inv_port6", "inv_portneg", "inv_portplus",
                        "inv_emptyhost", "inv_underscore", "inv_space", "inv_slash", "inv_bracket", "inv_long",
                        \* not even safe inside the quoted string of the header: must not be emitted as is
                        "inv_quote", "inv_backslash",
                        \* near the IPv6 literal grammar (FedName.tla states it; c13name explores it token by token): a zone
                        \* identifier without / with port ([fe80::1%eth0], [fe80::1%1]:8448), nine groups or seven, a second
                        \* "::", a group that is not 1-4 hex digits, nothing between the brackets, text after the bracket
                        "inv_zone", "inv_zoneport", "inv_v6groups", "inv_v6dcolon", "inv_v6hex", "inv_v6empty", "inv_v6trail"}
InvalidOrigins == {"invalid"} \cup ExtraInvalidOrigins

AllTamperKinds ==
    {"method", "method_same", "method_case", "uri", "uri_case", "origin", "drop_origin", "dest_local", "dest_foreign", "drop_dest",
     "body", "body_ws", "body_drop", "nonutf8", "ctype_text", "ctype_none", "ctype_param",
     "sig_flip", "drop_sig", "key_other", "drop_key", "scheme", "dup_header", "second_origin",
     "origin_case", "dest_case", "second_case",
     "no_header", "extra_bearer",
     "split_header", "scheme_case", "sig_respell", "body_notjson", "body_readerr"}

\* tamperings on which the property sentence is silent (is "X-MATRIX" the X-Matrix scheme? is a signature in
\* padded / URL-safe base64 the signature?): the verdict is left open, non-interference is still demanded
OpenKinds == {"scheme_case", "sig_respell"}

\* the wire component a tampering rewrites; two tamperings of one component are one tampering
Component(k) ==
    CASE k \in {"method", "method_same", "method_case"} -> "method"
      [] k \in {"uri", "uri_case"} -> "uri"
      [] k \in {"origin", "drop_origin", "origin_case"} -> "horigin"
      [] k \in {"dest_local", "dest_foreign", "drop_dest", "dest_case"} -> "hdest"
      [] k \in {"body", "body_ws", "body_drop", "nonutf8", "body_notjson", "body_readerr"} -> "body"
      [] k \in {"ctype_text", "ctype_none", "ctype_param"} -> "ctype"
      [] k \in {"sig_flip", "drop_sig", "sig_respell"} -> "hsig"
      [] k \in {"scheme", "scheme_case"} -> "hscheme"
      [] k \in {"key_other", "drop_key"} -> "hkey"
      [] OTHER -> k

VARIABLES phase,     \* "init" "composed" "signed" "sent" "received"
          req,       \* history: what Compose was given
          signed,    \* history: the record the signature covers
          wire,      \* what is in flight
          applied,   \* history: set of tamperings applied
          rcv,       \* history: receiver parameters
          out,       \* result of Receive: what the *FederationRequest handed to the caller reports (now)
          first,     \* history: the result as Receive returned it
          later      \* history: what the receiver handled afterwards

vars == <<phase, req, signed, wire, applied, rcv, out, first, later>>

None == [none |-> TRUE]

\* deviations of a request / an emit style from the base scenario
ReqDev(r) == (IF r.entry = "client" THEN 1      \* (a client method fixes method and URI class: one deviation in all)
              ELSE (IF r.m = BaseMethod THEN 0 ELSE 1) + (IF r.u = BaseURI THEN 0 ELSE 1))
     + (IF r.os = BaseShape THEN 0 ELSE IF r.os \in ExtraInvalidOrigins THEN 2 ELSE 1) + (IF r.ds = BaseShape THEN 0 ELSE 1)
     + (IF r.osp = "lower" THEN 0 ELSE 1) + (IF r.dsp = "lower" THEN 0 ELSE 1)
     + (IF r.body \in {"none", "obj", "nonutf8"} \/ r.entry = "client" THEN 0 ELSE 1)
CfgDev(cfg) == IF cfg \in {"single", "multi"} THEN 0 ELSE 1
StyleDev(st) == IF st = BaseStyle THEN 0 ELSE 1
NkDev(nk) == IF nk = 1 THEN 0 ELSE 1

\* name shapes that contain letters, so that a name has spellings differing in case only
\* (mixed-case DNS name with / without port, upper-case hex digits in an IPv6 literal)
CaseShapes == {"dns", "port", "ipv6"}

\* ------------------------------------------------------------------ sender
\* entry: "direct" = NewFederationRequest / SetContent / Sign / HTTPRequest called directly;
\*        "client" = the same request sent by a FederationClient method (SendTransaction, GetEvent,
\*                   LookupRoomAlias, MakeJoin), which fixes method, URI class and body
\* ds = "origin": the receiver's primary name is the origin's own name (a server talking to itself)
Compose(m, u, os, osp, ds, dsp, down, b, entry) ==
    /\ phase = "init"
    /\ osp = "mixed" => os \in CaseShapes
    /\ dsp = "mixed" => ds \in CaseShapes
    /\ ds = "origin" => os \notin InvalidOrigins
    /\ entry = "client" => \/ m = "PUT" /\ u = "plain" /\ b = "obj"
                           \/ m = "GET" /\ u \in {"plain", "query", "escape"} /\ b = "none"
    /\ ReqDev([m |-> m, u |-> u, os |-> os, ds |-> ds, osp |-> osp, dsp |-> dsp, body |-> b, entry |-> entry]) <= Budget   \* nothing beyond the budget is ever received
    /\ req' = [m |-> m, u |-> u, os |-> os, osp |-> osp, ds |-> ds, dsp |-> dsp, down |-> down, body |-> b, entry |-> entry]
    /\ phase' = "composed"
    /\ UNCHANGED <<signed, wire, applied, rcv, out, first, later>>

BodyVal(b) == CASE b = "none" -> "none" [] b = "nonutf8" -> "X" [] OTHER -> "B"

\* nk = 1: signed with key K (signature "S0"); nk = 2: also with key Kb (signature "S0b")
Sign(nk) ==
    /\ phase = "composed"
    /\ ReqDev(req) + NkDev(nk) <= Budget
    /\ req.entry = "client" => nk = 1           \* a client signs with its one identity
    /\ signed' = [m |-> "M", u |-> "U", o |-> "O", d |-> req.down, b |-> BodyVal(req.body), nk |-> nk]
    /\ phase' = "signed"
    /\ UNCHANGED <<req, wire, applied, rcv, out, first, later>>

Emit(style) ==
    /\ phase = "signed"
    /\ ReqDev(req) + NkDev(signed.nk) + StyleDev(style) <= Budget
    /\ wire' = [method |-> signed.m, uri |-> signed.u, body |-> signed.b, ws |-> FALSE,
                ctype |-> IF signed.b = "none" THEN "absent" ELSE "json",
                scheme |-> "X-Matrix", origin |-> signed.o, dest |-> signed.d, key |-> "K", sig |-> "S0", nk |-> signed.nk,
                dup |-> FALSE, second |-> FALSE, secondc |-> FALSE, split |-> FALSE, respell |-> FALSE, nohdr |-> FALSE, bearer |-> FALSE, style |-> style]
    /\ phase' = "sent"
    /\ UNCHANGED <<req, signed, applied, rcv, out, first, later>>

\* ----------------------------------------------------------------- network
Dev == ReqDev(req) + NkDev(signed.nk) + StyleDev(wire.style)

Tamper(k) ==
    /\ phase = "sent"
    /\ Cardinality(applied) < MaxTamper
    /\ Dev + Cardinality(applied) < Budget
    /\ \A a \in applied : Component(a) # Component(k)
    /\ k \in {"origin_case", "second_case"} => req.os \in CaseShapes     \* another spelling must exist
    /\ k = "dest_case" => req.ds \in CaseShapes
    /\ applied' = applied \cup {k}
    /\ wire' =
         CASE k = "method"       -> [wire EXCEPT !.method = "M2"]
           [] k = "method_same"  -> [wire EXCEPT !.method = "M"]
           \* the same word / the same target in another letter case: method tokens and request targets are case
           \* sensitive, "get" is not the method that was signed (nor is /_matrix/Federation/.. the signed target)
           [] k = "method_case"  -> [wire EXCEPT !.method = "Mc"]
           [] k = "uri_case"     -> [wire EXCEPT !.uri = "Uc"]
           [] k = "uri"          -> [wire EXCEPT !.uri = "U2"]
           [] k = "origin"       -> [wire EXCEPT !.origin = "O2"]
           [] k = "drop_origin"  -> [wire EXCEPT !.origin = "-"]
           [] k = "dest_local"   -> [wire EXCEPT !.dest = IF @ = "P" THEN "S" ELSE "P"]
           [] k = "dest_foreign" -> [wire EXCEPT !.dest = "F2"]
           [] k = "drop_dest"    -> [wire EXCEPT !.dest = "-"]
           [] k = "split_header" -> [wire EXCEPT !.split = TRUE]
           [] k = "scheme_case"  -> [wire EXCEPT !.scheme = "X-MATRIX"]
           [] k = "sig_respell"  -> [wire EXCEPT !.respell = TRUE]
           [] k = "body_notjson" -> [wire EXCEPT !.body = "T"]
           [] k = "body_readerr" -> [wire EXCEPT !.body = "E"]
           [] k = "body"         -> [wire EXCEPT !.body = "B2"]
           [] k = "body_ws"      -> [wire EXCEPT !.ws = TRUE]
           [] k = "body_drop"    -> [wire EXCEPT !.body = "none"]
           [] k = "nonutf8"      -> [wire EXCEPT !.body = "X2"]
           [] k = "ctype_text"   -> [wire EXCEPT !.ctype = "text"]
           [] k = "ctype_none"   -> [wire EXCEPT !.ctype = "absent"]
           [] k = "ctype_param"  -> [wire EXCEPT !.ctype = IF @ = "absent" THEN "absent" ELSE "jsonparam"]
           [] k = "sig_flip"     -> [wire EXCEPT !.sig = "Sbad"]
           [] k = "drop_sig"     -> [wire EXCEPT !.sig = "-"]
           [] k = "key_other"    -> [wire EXCEPT !.key = "K2"]
           [] k = "drop_key"     -> [wire EXCEPT !.key = "-"]
           [] k = "scheme"       -> [wire EXCEPT !.scheme = "Other"]
           [] k = "dup_header"   -> [wire EXCEPT !.dup = TRUE]
           [] k = "second_origin"-> [wire EXCEPT !.second = TRUE]
           [] k = "second_case"  -> [wire EXCEPT !.secondc = TRUE]
           [] k = "origin_case"  -> [wire EXCEPT !.origin = "Oc"]
           [] k = "dest_case"    -> [wire EXCEPT !.dest = @ \o "c"]
           [] k = "no_header"    -> [wire EXCEPT !.nohdr = TRUE]
           [] k = "extra_bearer" -> [wire EXCEPT !.bearer = TRUE]
    /\ UNCHANGED <<phase, req, signed, rcv, out, first, later>>

\* -------------------------------------------- the header text, as tokens
BareShapes == {"dns", "port", "ipv4"}
IsBare(style, n, v) ==
    /\ style = "bare"
    /\ \/ n = "key"
       \/ n = "origin" /\ v = "O" /\ req.os \in BareShapes
       \/ n = "destination" /\ v \in {"P", "S", "F"} /\ req.ds \in BareShapes

EqToks(style) == IF style = "spaces" THEN <<Tok("ows", " "), Tok("eq", "="), Tok("ows", " ")>>
                                     ELSE <<Tok("eq", "=")>>
CommaToks(style) ==
    CASE style = "spaces"  -> <<Tok("ows", " "), Tok("comma", ","), Tok("ows", " ")>>
      [] style = "empties" -> <<Tok("comma", ","), Tok("comma", ",")>>
      [] OTHER             -> <<Tok("comma", ",")>>

ParamToks(style, n, v) ==
    <<Tok("name", n)>> \o EqToks(style) \o <<Tok(IF IsBare(style, n, v) THEN "b" ELSE "q", v)>>

NameOrder(style) == IF style = "reorder" THEN <<"destination", "sig", "key", "origin">>
                                         ELSE <<"origin", "key", "sig", "destination">>

RECURSIVE Join(_, _, _)
Join(style, ps, vals) ==       \* ps: sequence of names still to write
    IF ps = <<>> THEN <<>>
    ELSE LET n == Head(ps)
             rest == Join(style, Tail(ps), vals)
         IN IF vals[n] = "-" THEN rest
            ELSE ParamToks(style, n, vals[n]) \o (IF rest = <<>> THEN <<>> ELSE CommaToks(style) \o rest)

\* one X-Matrix header with the given origin value
HeaderK(w, o, key, sig) ==
    LET vals == [n \in Known |-> CASE n = "origin" -> o [] n = "destination" -> w.dest
                                   [] n = "key" -> key [] n = "sig" -> sig]
        list == Join(w.style, NameOrder(w.style), vals)
        \* style "extra": parameters no receiver knows, before and after
        pre  == IF w.style = "extra" THEN <<Tok("name", "foo"), Tok("eq", "="), Tok("b", "bar"), Tok("comma", ",")>> ELSE <<>>
        post == IF w.style = "extra" THEN <<Tok("comma", ","), Tok("name", "realm"), Tok("eq", "="), Tok("q", "")>> ELSE <<>>
    IN <<Tok("scheme", w.scheme), Tok("sp", IF w.style = "spaces" THEN "  " ELSE " ")>> \o pre \o list \o post

\* the same header cut at the comma after its second parameter into two field lines (what an intermediary that
\* treats Authorization as a list field might do): the second line starts with a parameter, not with a scheme
SplitHeader(w, o) ==
    LET vals == [n \in Known |-> CASE n = "origin" -> o [] n = "destination" -> w.dest
                                   [] n = "key" -> w.key [] n = "sig" -> w.sig]
        ord == NameOrder(w.style)
    IN << <<Tok("scheme", w.scheme), Tok("sp", " ")>> \o Join(w.style, SubSeq(ord, 1, 2), vals),
          Join(w.style, SubSeq(ord, 3, 4), vals) >>

Header(w, o) == HeaderK(w, o, w.key, w.sig)

Bearer == <<Tok("scheme", "Bearer"), Tok("sp", " "), Tok("b", "c2VjcmV0")>>

\* the Authorization headers in flight, in order
Headers(w) ==
    (IF w.bearer THEN <<Bearer>> ELSE <<>>)
    \o (IF w.nohdr THEN <<>>
        ELSE (IF w.split THEN SplitHeader(w, w.origin) ELSE <<Header(w, w.origin)>>)
             \* one header per signature: the second key's header shares scheme, origin and destination with
             \* the first (tamperings of those rewrite both), key / signature tamperings hit the first only
             \o (IF w.nk = 2 THEN <<HeaderK(w, w.origin, "Kb", "S0b")>> ELSE <<>>)
             \o (IF w.dup THEN <<Header(w, w.origin)>> ELSE <<>>)
             \o (IF w.second THEN <<Header(w, "O2")>> ELSE <<>>)
             \o (IF w.secondc THEN <<Header(w, "Oc")>> ELSE <<>>))

\* ---------------------------------------------------------------- receiver
OriginValid(o) == o = "O2" \/ (o \in {"O", "Oc"} /\ req.os \notin InvalidOrigins)
\* (a multi-homed receiver also lists the other spellings of its names: only the signature can refuse those)
\* receiver configurations: single (no local-name function: the default name only), singlefn (a function that
\* knows the default name only), multi (several local names), any / nobody (a function that says yes / no to all)
Owned(d, cfg)  == CASE cfg = "any" -> TRUE
                    [] cfg = "nobody" -> FALSE
                    [] cfg = "multi" -> d \in {"P", "S", "Pc", "Sc"}
                    [] OTHER -> d = "P"
JSONType(c)    == c \in {"json", "jsonparam"}
UTF8(b)        == b \in {"B", "B2"}        \* readable, UTF-8 and JSON ("T": text that is not JSON, "E": read error)
\* the key database: (O, K) in state kv; (O2, K) a valid key of the other server; nothing else
\* (the key of O is also filed under the other spelling Oc)
\* which of the signing keys the receiver has a record of: known \in {"both", "first", "second", "neither"};
\* the record of Kb, if any, is valid
KeyValidNow(o, key, kv, known) ==
    /\ kv # "dberror"
    /\ \/ o \in {"O", "Oc"} /\ key = "K" /\ known \in {"both", "first"} /\ kv \in ValidKVs
       \/ o \in {"O", "Oc"} /\ key = "Kb" /\ known \in {"both", "second"}
       \/ o = "O2" /\ key = "K"
\* does signature sg, presented with key ID key, verify for the received fields f
SigVerifies(key, sg, f) ==
    /\ f = [m |-> signed.m, u |-> signed.u, o |-> signed.o, d |-> signed.d, b |-> signed.b]
    /\ \/ key = "K" /\ sg = "S0"
       \/ key = "Kb" /\ sg = "S0b" /\ signed.nk = 2

Verdict(w, cfg, kv, known) ==
    LET hs == Headers(w)
        rd == [i \in 1..Len(hs) |-> Read(hs[i])]
        xi == {i \in 1..Len(hs) : rd[i].x}                       \* the X-Matrix credentials
        f  == IF xi = {} THEN 0 ELSE CHOOSE i \in xi : \A j \in xi : i <= j
        hdrOK == /\ xi # {}
                 /\ \A i \in xi : rd[i].usable
                 /\ \A i \in xi : rd[i].origin = rd[f].origin /\ rd[i].destination = rd[f].destination
        o   == rd[f].origin
        dp  == rd[f].destination
        d   == IF dp = "" THEN "P" ELSE dp          \* backward compatible: no destination = the receiver's default name
        fields == [m |-> w.method, u |-> w.uri, o |-> o, d |-> d, b |-> w.body]
        acc == /\ hdrOK
               /\ OriginValid(o)
               /\ Owned(d, cfg)
               /\ (w.body # "none" => JSONType(w.ctype) /\ UTF8(w.body))
               \* at least one of the presented signatures verifies with a key valid now
               /\ \E i \in xi : SigVerifies(rd[i].key, rd[i].sig, fields) /\ KeyValidNow(o, rd[i].key, kv, known)
    IN IF acc THEN [accept |-> TRUE, m |-> w.method, u |-> w.uri, o |-> o, d |-> d, b |-> w.body]
              ELSE [accept |-> FALSE, m |-> "", u |-> "", o |-> "", d |-> "", b |-> ""]

\* the transmission with the open tamperings (OpenKinds) taken back: a receiver that tolerates them may accept
\* exactly what it would accept without them
Lenient(w) == [w EXCEPT !.scheme = IF @ = "X-MATRIX" THEN "X-Matrix" ELSE @, !.respell = FALSE]

Receive(cfg, kv, known) ==
    /\ phase = "sent"
    /\ signed.nk = 1 => known = BaseKnown         \* (with one signing key "K unknown" is the key state "unknown")
    \* a receiver that calls none of its names local, given a request without destination: its default name is
    \* its own by definition and not by its function - the property sentence does not decide
    /\ cfg = "nobody" => "drop_dest" \notin applied
    /\ Dev + Cardinality(applied) + (IF kv = BaseKV THEN 0 ELSE 1) + (IF known = BaseKnown THEN 0 ELSE 1) + CfgDev(cfg) <= Budget
    /\ rcv' = [cfg |-> cfg, kv |-> kv, known |-> known]
    /\ out' = Verdict(wire, cfg, kv, known)
    /\ first' = out'
    /\ phase' = "received"
    /\ UNCHANGED <<req, signed, wire, applied, later>>

RcvDev == (IF rcv.kv = BaseKV THEN 0 ELSE 1) + (IF rcv.known = BaseKnown THEN 0 ELSE 1) + CfgDev(rcv.cfg)

\* The receiver handles further requests.  The result of the accepted one belongs to the caller: nothing the
\* receiver does afterwards is part of this request, so what was reported stays as it was.
Later(l) ==
    /\ phase = "received"
    /\ out.accept
    /\ Dev + Cardinality(applied) + RcvDev + (IF l = BaseLater THEN 0 ELSE 1) <= Budget
    /\ later' = l
    /\ phase' = "later"
    /\ UNCHANGED <<req, signed, wire, applied, rcv, out, first>>

Init == /\ phase = "init" /\ req = None /\ signed = None /\ wire = None
        /\ applied = {} /\ rcv = None /\ out = None /\ first = None /\ later = "-"

Next == \/ /\ phase = "init"       \* (guards repeated outside the quantifiers: TLC evaluates them first)
           /\ \E m \in Methods, u \in URIs, os \in OriginShapes, ds \in DestShapes, down \in DestOwns, b \in Bodies,
                 osp \in Spellings, dsp \in Spellings, entry \in Entries :
                 /\ (ds = "invalid" => down = "F")       \* a receiver owns no invalid name
                 /\ Compose(m, u, os, osp, ds, dsp, down, b, entry)
        \/ \E nk \in NKeys : Sign(nk)
        \/ /\ phase = "signed"
           /\ \E st \in Styles : Emit(st)
        \/ /\ phase = "sent"
           /\ \/ \E k \in TamperKinds : Tamper(k)
              \/ \E cfg \in Cfgs, kv \in KeyVals, known \in Knowns : Receive(cfg, kv, known)
        \/ /\ phase = "received"
           /\ \E l \in Laters : Later(l)

Spec == Init /\ [][Next]_vars

(***************************************************************************)
(* The property, over the history variables only.                          *)
(***************************************************************************)
Done == phase \in {"received", "later"}
\* nothing more happens to this request (a refused one has reported nothing that could change)
Final == phase = "later" \/ (phase = "received" /\ ~out.accept)
SignedFields == [m |-> signed.m, u |-> signed.u, o |-> signed.o, d |-> signed.d, b |-> signed.b]
Reported     == [m |-> out.m, u |-> out.u, o |-> out.o, d |-> out.d, b |-> out.b]

\* non-interference: whatever was done to the transmission, an accepted request is the signed one
NonInterference == (Done /\ out.accept) => Reported = SignedFields

\* ... and stays the signed one, whatever the receiver handles next
ReportStable == phase = "later" => out = first

\* tamperings that leave every transmitted value as it was
Harmless == {"method_same", "body_ws", "ctype_param", "dup_header", "extra_bearer"}
NoEffect(k) ==
    \/ k \in Harmless
    \/ k = "body_drop" /\ signed.b = "none"
    \/ k \in {"ctype_text", "ctype_none"} /\ wire.body = "none"
    \/ k = "drop_dest" /\ signed.d = "P"              \* the documented backward compatible case

\* the receiver has a valid record of at least one of the keys the origin signed with
SomeSigningKeyValid ==
    /\ rcv.kv # "dberror"
    /\ \/ rcv.known \in {"both", "first"} /\ rcv.kv \in ValidKVs
       \/ signed.nk = 2 /\ rcv.known \in {"both", "second"}

\* accepted at the named destination when sent as signed
Complete ==
    (Done /\ (\A k \in applied : NoEffect(k))
          /\ Owned(signed.d, rcv.cfg) /\ req.os \notin InvalidOrigins /\ req.body # "nonutf8"
          /\ SomeSigningKeyValid)
    => out.accept

\* the refusal clauses of the property sentence, one by one
RefuseForeign   == (Done /\ ~Owned(signed.d, rcv.cfg) /\ applied \cap {"drop_dest", "dest_local", "dest_case"} = {}) => ~out.accept
RefuseNoHeader  == (Done /\ applied \cap {"no_header", "scheme", "split_header", "drop_origin", "drop_key", "drop_sig", "second_origin", "second_case"} # {}) => ~out.accept
RefuseBadOrigin == (Done /\ req.os \in InvalidOrigins /\ "origin" \notin applied) => ~out.accept
RefuseBadBody   == (Done /\ wire.body # "none" /\ (wire.ctype \in {"text", "absent"} \/ wire.body \in {"X", "X2", "T", "E"})) => ~out.accept
RefuseBadKey    == (Done /\ ~SomeSigningKeyValid) => ~out.accept
RefuseChanged   == (Done /\ applied \cap {"method", "method_case", "uri", "uri_case", "origin", "dest_local", "dest_foreign", "body", "nonutf8", "origin_case", "dest_case"} # {}) => ~out.accept
RefuseBadSig    == (Done /\ signed.nk = 1 /\ applied \cap {"sig_flip", "key_other"} # {}) => ~out.accept

TypeOK == /\ phase \in {"init", "composed", "signed", "sent", "received", "later"}
          /\ later \in AllLaters \cup {"-"}
          /\ Cardinality(applied) <= MaxTamper
          /\ applied \subseteq AllTamperKinds
=============================================================================
