---------------------------- MODULE Base64_gen ----------------------------
(***************************************************************************)
(* C17 - "base64 values decode from the standard and URL-safe unpadded     *)
(* alphabets and re-encode to the same value".                             *)
(*                                                                         *)
(* Init chooses a byte string (over bytes whose sextets hit the two        *)
(* alphabet-specific positions 62 and 63) and a spelling variant; Judge    *)
(* derives what the property demands:                                      *)
(*   std, url   -> decodes to the bytes, re-encodes to the standard        *)
(*                 unpadded spelling;                                      *)
(*   padded, urlpadded, mixed, badchar, short, noncanon, newline, space     *)
(*              -> "free": the property does                               *)
(*                 not say (base64.go documents only the alphabet          *)
(*                 detection), so nothing but "no crash" is demanded.      *)
(* Uses the Encode / Decode operators of Ident.tla; the speller variables  *)
(* of that module are parked.                                              *)
(*                                                                         *)
(* HOW THE JSON STRING IS WRITTEN (Part = "json", variable `esc`).  A      *)
(* base64 value mostly arrives as a JSON string, and JSON has several      *)
(* spellings for every character: itself, a \uXXXX escape (hex digits in   *)
(* either case) and, for the solidus - character 63 of the standard        *)
(* alphabet -, the two-character escape that many encoders emit.  JSON     *)
(* string decoding comes first: the base64 layer sees JsonValue(units),    *)
(* the characters, never how they were written, so every spelling of the   *)
(* same string decodes exactly like the plain one (value variants to the   *)
(* bytes; "free" variants to whatever the plain spelling gives).  `esc`    *)
(* assigns a style to every character position: all plain; one position    *)
(* escaped (every position, the first and the last included) in every      *)
(* style that applies; every position escaped.                             *)
(***************************************************************************)
EXTENDS Ident, Json

CONSTANTS ByteAlphabet,    \* "small" | "large"
          MaxBytes,
          Part             \* "codec": plain JSON spelling only, the codec invariants are checked;
                           \* "json": the JSON spellings of every string (the codec invariants are Part "codec"'s)

BytesSmall == {0, 62, 63, 97, 251, 254, 255}
BytesLarge == BytesSmall \cup {1, 15, 190, 239, 248}
Bytes == IF ByteAlphabet = "small" THEN BytesSmall ELSE BytesLarge
Universe(k) == [1..k -> Bytes]

Variants == {"std", "url", "mixed", "padded", "urlpadded", "badchar", "short", "noncanon", "newline", "space"}

VARIABLES b, variant, bphase, bout, esc
bvars == <<b, variant, bphase, bout, esc, atoms, pos, n, dev, phase, padlen, out>>

Has(x, v) == \E i \in 1..Len(x) : x[i] = v

Spelling(bs, v) ==
    LET x == Sextets(bs)
        std == Encode(bs, StdAlphabet)
    IN CASE v = "std" -> std
         [] v = "url" -> Encode(bs, UrlAlphabet)
         [] v = "mixed" -> [i \in 1..Len(x) |-> IF x[i] = 63 THEN "_" ELSE StdAlphabet[x[i] + 1]]
         [] v = "padded" -> std \o (IF Len(bs) % 3 = 1 THEN <<"=", "=">> ELSE <<"=">>)
         [] v = "urlpadded" -> Encode(bs, UrlAlphabet) \o (IF Len(bs) % 3 = 1 THEN <<"=", "=">> ELSE <<"=">>)
         [] v = "newline" -> <<std[1], "nl">> \o SubSeq(std, 2, Len(std))          \* white space inside the value
         [] v = "space" -> <<std[1], "sp">> \o SubSeq(std, 2, Len(std))
         [] v = "badchar" -> std \o <<"!", "A", "A", "A">>
         [] v = "short" -> std \o (IF Len(std) % 4 = 0 THEN <<"A">> ELSE IF Len(std) % 4 = 2 THEN <<"A", "A", "A">> ELSE <<"A", "A">>)
         [] v = "noncanon" -> [i \in 1..Len(x) |-> IF i = Len(x) THEN StdAlphabet[x[i] + 2] ELSE std[i]]

Relevant(bs, v) ==
    LET x == Sextets(bs) IN
    CASE v = "std" -> TRUE
      [] v = "url" -> Has(x, 62) \/ Has(x, 63)                \* otherwise the two spellings coincide
      [] v = "mixed" -> Has(x, 62) /\ Has(x, 63)
      [] v \in {"padded", "noncanon"} -> Len(bs) % 3 # 0
      [] v = "urlpadded" -> Len(bs) % 3 # 0 /\ (Has(x, 62) \/ Has(x, 63))
      [] v \in {"newline", "space"} -> Len(bs) >= 1
      [] OTHER -> TRUE

\* --- JSON spellings of a string ----------------------------------------------------
\* "plain": the character itself (the short escape for a control character, which JSON does not admit raw);
\* "sol": backslash solidus; "u" / "U": backslash u and four hex digits, lower / upper case
Styles == {"plain", "sol", "u", "U"}
Escapes == Styles \ {"plain"}
\* the upper-case form is a different spelling only where the code has a hex letter: of the alphabet-specific
\* characters + (2b) / (2f) - (2d) _ (5f), and of the line feed (0a)
StyleOK(c, st) == CASE st = "sol" -> c = "/"
                    [] st = "U" -> c \in {"+", "/", "-", "_", "nl"}
                    [] OTHER -> TRUE
AllPlain(sp) == [i \in 1..Len(sp) |-> "plain"]
\* position by position for the spellings made of alphabet characters (and padding); the variants with foreign
\* characters and wrong lengths are longer and decode to nothing anyway: all plain / all escaped
Fine == {"std", "url", "mixed", "padded", "urlpadded", "noncanon"}
Patterns(sp, v) == {AllPlain(sp)}
                   \cup (IF v \in Fine THEN {[AllPlain(sp) EXCEPT ![k] = st] : k \in 1..Len(sp), st \in Escapes} ELSE {})
                   \cup {[i \in 1..Len(sp) |-> IF StyleOK(sp[i], st) THEN st ELSE "u"] : st \in Escapes}
WellStyled(sp, e) == \A i \in 1..Len(sp) : StyleOK(sp[i], e[i])
\* a JSON string as written: units (character, style); its value: the characters
Units(sp, e) == [i \in 1..Len(sp) |-> [c |-> sp[i], how |-> e[i]]]
JsonValue(units) == [i \in 1..Len(units) |-> units[i].c]

BInit == /\ \E k \in 0..MaxBytes : b \in Universe(k)
         /\ variant \in Variants
         /\ Relevant(b, variant)
         /\ IF Part = "json" THEN esc \in {e \in Patterns(Spelling(b, variant), variant) : WellStyled(Spelling(b, variant), e)}
                            ELSE esc = AllPlain(Spelling(b, variant))
         /\ bphase = "chosen" /\ bout = [sp |-> <<>>]
         /\ atoms = <<>> /\ pos = "stop" /\ n = 0 /\ dev = 0 /\ phase = "parked" /\ padlen = 0 /\ out = NoOut

JudgeB ==
    /\ bphase = "chosen"
    /\ bphase' = "done"
    /\ bout' = [sp |-> Spelling(b, variant),
                expect |-> IF variant \in {"std", "url"} THEN "value" ELSE "free",
                std |-> Encode(b, StdAlphabet)]
    /\ UNCHANGED <<b, variant, esc, atoms, pos, n, dev, phase, padlen, out>>

BSpec == BInit /\ [][JudgeB]_bvars

\* the property, on the codec itself: decoding is the inverse of encoding in either alphabet (so both
\* spellings carry the same value), and the alphabets agree except at 62 / 63
U == Universe(Len(b))
RoundTrip == bphase = "done" =>
               /\ Decodable(Encode(b, StdAlphabet), StdAlphabet, U) /\ Decode(Encode(b, StdAlphabet), StdAlphabet, U) = b
               /\ Decodable(Encode(b, UrlAlphabet), UrlAlphabet, U) /\ Decode(Encode(b, UrlAlphabet), UrlAlphabet, U) = b
Injective == bphase = "done" => \A c \in U : Encode(c, StdAlphabet) = Encode(b, StdAlphabet) => c = b
AlphabetsAgree == /\ Len(StdAlphabet) = 64 /\ Len(UrlAlphabet) = 64
                  /\ \A i \in 1..62 : StdAlphabet[i] = UrlAlphabet[i]
                  /\ Cardinality({StdAlphabet[i] : i \in 1..64}) = 64 /\ Cardinality({UrlAlphabet[i] : i \in 1..64}) = 64
UnpaddedLength == bphase = "done" => Len(Encode(b, StdAlphabet)) = (Len(b) * 4 + 2) \div 3

\* JSON string decoding comes first: what the base64 layer is given is the plain string, however it was written;
\* the judgement does not read `esc`
SpellingIrrelevant == bphase = "done" =>
                        /\ Len(esc) = Len(bout.sp) /\ WellStyled(bout.sp, esc)
                        /\ JsonValue(Units(bout.sp, esc)) = bout.sp
                        /\ JsonValue(Units(bout.sp, esc)) = JsonValue(Units(bout.sp, AllPlain(bout.sp)))
                        /\ (variant \in {"std", "url"} => bout.expect = "value")
PartsApart == Part = "codec" => esc = AllPlain(Spelling(b, variant))

Escaped == {i \in 1..Len(esc) : esc[i] # "plain"}
EscClass == IF Escaped = {} THEN "plain"
            ELSE IF Cardinality(Escaped) = Len(esc) /\ Len(esc) > 1 THEN "all"
            ELSE IF 1 \in Escaped THEN "first" ELSE IF Len(esc) \in Escaped THEN "last" ELSE "inner"
BEmit == bphase = "done" =>
           PrintT(ToJson([variant |-> variant, bytes |-> b, sp |-> bout.sp, std |-> bout.std, expect |-> bout.expect,
                          esc |-> esc, escclass |-> EscClass]))
=============================================================================
