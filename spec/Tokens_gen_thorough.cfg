SPECIFICATION Spec
CONSTANTS
  Secrets = {"k1", "k2", "k1 ", " k1"}
  Users = {"@alice:example.org", "@Alice:example.org", "@bob:example.org", "user1", "_irc_dave"}
  Durations <- DurationsThorough
  Offsets <- OffsetsThorough
  MaxAlter = 2
  WideNeighbours = FALSE
INVARIANTS TypeOK Sound Complete RevealsUser ReadThenValidate Emit
CHECK_DEADLOCK FALSE
