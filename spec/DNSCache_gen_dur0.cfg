SPECIFICATION GSpec
CONSTANTS
  Procs = {"c1", "c2"}
  Hosts = {"a", "b"}
  Size = 1
  MaxCalls = 1
  MaxExpire = 0
  Kinds = {"lookup", "dial"}
  ZeroDuration = TRUE
  Faults = TRUE
INVARIANTS TypeOK SizeBound ServedFreshAndSequential NoCrossHost RefinesSequential MissReturnsOwnAnswer Emit
CHECK_DEADLOCK FALSE
