SPECIFICATION Spec
CONSTANTS
  Family = "resolve"
  Depth = "quick"
INVARIANTS ResolveInvs Terminates Emit
CHECK_DEADLOCK FALSE
