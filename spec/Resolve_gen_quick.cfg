SPECIFICATION Spec
CONSTANTS
  Family = "resolve"
  Depth = "quick"
INVARIANTS ResolveInvs FnAgrees Terminates Emit
CHECK_DEADLOCK FALSE
