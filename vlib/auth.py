"""Shared driver for the Auth.tla families (C07, C08, C09)."""
import os
from vlib.core import MachineryError

FAMILIES_ALL = ["versions", "member_self", "member_restricted", "member_other", "member_tpi", "structure",
                "generic", "create", "pl0", "pl1", "pl2", "pl3", "plnames", "placcess", "provider"]
FAMILIES_PL = ["versions", "pl0", "pl1", "pl2", "pl3", "plnames", "placcess", "plseq"]

INVS = "AcceptedImpliesNoEsc BannedNeverPasses NoCreateNoPass MixedNeverPass OnlyNeededState EditChangesNothing Emit"


def cfg_text(family, versions, pldepth):
    return ("SPECIFICATION Spec\nCONSTANTS\n  Versions <- %s\n  Family = \"%s\"\n  PLDepth = \"%s\"\n"
            "INVARIANTS %s\nCHECK_DEADLOCK FALSE\n" % (versions, family, pldepth, INVS))


def gen_family(ctx, family, workers=None):
    if family == "provider":
        return gen_provider(ctx, workers)
    if family == "plseq":
        return gen_plseq(ctx, workers)
    versions = "VersionsQuick" if ctx.tier == "quick" else "VersionsAll"
    pldepth = "small"
    if family in ("pl2", "plnames") and ctx.tier == "quick":
        versions = "VersionsPL2Quick"
    if family == "placcess" and ctx.tier == "quick":
        versions = "VersionsAccessQuick"
    d = ctx._spec_dir()
    cfg = "Auth_gen_%s_%s.cfg" % (family, ctx.tier)
    with open(os.path.join(d, cfg), "w") as f:
        f.write(cfg_text(family, versions, pldepth))
    return ctx.tlc("Auth_gen", cfg, timeout=1500, workers=workers)


PROVIDER_INVS = "HeldIsLatest ValidIffOneRoom MixedNeverPass PassNeedsOwnRoom Emit"
PROVIDER_VERSIONS_THOROUGH = '{"1", "3", "6", "10", "11", "12", "org.matrix.hydra.11", "org.matrix.msc4014"}'


def gen_provider(ctx, workers=None):
    """AuthProv.tla: every behaviour New(list) / AddEvent / Clear of at most MaxOps operations, then Allowed."""
    versions = '{"6", "12"}' if ctx.tier == "quick" else PROVIDER_VERSIONS_THOROUGH
    d = ctx._spec_dir()
    cfg = "AuthProv_%s.cfg" % ctx.tier
    with open(os.path.join(d, cfg), "w") as f:
        f.write("SPECIFICATION Spec\nCONSTANTS\n  Versions = %s\n  MaxOps = 4\nINVARIANTS %s\nCHECK_DEADLOCK FALSE\n"
                % (versions, PROVIDER_INVS))
    return ctx.tlc("AuthProv", cfg, timeout=1500, workers=workers)


SEQ_INVS = "SeqAcceptedNoEsc SeqNobodyRises SeqNoSelfPromotion SeqChained Emit"


def gen_plseq(ctx, workers=None):
    """AuthSeq_gen.tla: every session of two power-levels events (thorough: plus sampled sessions of four)."""
    d = ctx._spec_dir()
    cfg = "AuthSeq_gen_%s.cfg" % ctx.tier
    versions = 'Versions = {"6", "12"}' if ctx.tier == "quick" else "Versions <- AllVersions"
    with open(os.path.join(d, cfg), "w") as f:
        f.write("SPECIFICATION Spec\nCONSTANTS\n  %s\n  Steps = 2\n  Inits <- InitsQuick\nINVARIANTS %s\nCHECK_DEADLOCK FALSE\n"
                % (versions, SEQ_INVS))
    r = ctx.tlc("AuthSeq_gen", cfg, timeout=1500, workers=workers)
    if ctx.tier == "thorough":
        cfg4 = "AuthSeq_gen_sim4.cfg"
        with open(os.path.join(d, cfg4), "w") as f:
            f.write("SPECIFICATION Spec\nCONSTANTS\n  Versions <- AllVersions\n  Steps = 4\n  Inits <- InitsQuick\nINVARIANTS %s\nCHECK_DEADLOCK FALSE\n"
                    % SEQ_INVS)
        r4 = ctx.tlc("AuthSeq_gen", cfg4, timeout=1500, workers=2, simulate=10000, depth=5)   # 10000 sessions per worker
        r.records = r.records + r4.records
    return r


REPLAY_CMD = {"provider": "c07prov", "plseq": "c08seq"}
# started first (they take longest) and replayed last, whatever their place in `families`
LONGEST_FIRST = ["pl2", "provider", "generic", "plnames", "pl3", "pl0"]
REPLAYED_LAST = ["provider", "pl2"]


def run_families(ctx, cmd, families, record=0):
    """spec -> code for the given families.  record=n: the recorder of the code -> spec direction (n random calls) runs
    in the background meanwhile; record_and_validate() picks its trace up."""
    ctx.assumptions += [
        "third-party-invite signatures: real ed25519 keys; signature scheme assumed unforgeable",
        "power levels are compared through ranks; each record is realised with one of four concrete ladders "
        "(including +-(2^53-1)) chosen from seed+index",
        "user IDs are used as sender IDs with the identity UserIDForSender (as in the library's tests)",
    ]
    ctx.exhaustive = True
    ctx.notes["rule"] = ("every scenario of the Auth_gen.tla families %s for versions %s (placcess: each scenario also after the caller "
                         "read a power-levels content through a public accessor and edited the value it got; provider: every behaviour "
                         "of AuthProv.tla - New(list) / AddEvent / Clear, at most 4 operations - then Allowed; plseq: every two-event "
                         "session of AuthSeq_gen.tla through one reused checker and through fresh Allowed calls); "
                         "distinct = distinct (family, version, canonical scenario key, verdict)"
                         % (families, "VersionsQuick" if ctx.tier == "quick" else "all 16"))
    # TLC runs of the families are independent: a few at a time in worker threads (longest first); the main thread
    # replays each family as soon as its records are there, in the fixed order of `families` (parallel inside the harness)
    from concurrent.futures import ThreadPoolExecutor
    ctx._spec_dir()   # create the scratch copy of spec/ before the threads start
    order = [f for f in LONGEST_FIRST if f in families] + [f for f in families if f not in LONGEST_FIRST]
    consume = [f for f in families if f not in REPLAYED_LAST] + [f for f in REPLAYED_LAST if f in families]
    with ThreadPoolExecutor(max_workers=4) as tx, ThreadPoolExecutor(max_workers=1) as rx:
        # the longest run gets twice the workers of the others
        fut = {fam: tx.submit(gen_family, ctx, fam, max(2, ctx.workers // (2 if fam == "pl2" else 4))) for fam in order}
        ctx.harness_build()
        if record:
            trace = os.path.join(ctx.scratch, "auth_trace.ndjson")
            ctx._auth_recording = (record, trace, rx.submit(ctx.harness, "c07rec", None, ["-out", trace, "-n", record]))
        for fam in consume:
            r = fut[fam].result()
            ctx.replay_and_compare(REPLAY_CMD.get(fam, cmd), r.records)


def record_and_validate(ctx, n):
    """code -> spec: random full-vocabulary scenarios through the real Allowed(), validated by Auth_trace.tla."""
    started = getattr(ctx, "_auth_recording", None)
    if started and started[0] == n:
        trace, res = started[1], started[2].result()
    else:
        trace = os.path.join(ctx.scratch, "auth_trace.ndjson")
        res = ctx.harness("c07rec", args=["-out", trace, "-n", n])
    for r in res:  # panics while recording
        if not r.get("ok"):
            ctx.disagree("panic/Allowed", r.get("what", "panic")[:2000], {"scenario": r.get("extra"), "count": 1})

    mode = "noesc" if ctx.pid == "C08" else "verdict"
    unreproduced = []

    def on_reject(rec, lineno):
        if mode == "noesc":
            probe = {"ver": rec["ver"], "st": rec["st"], "ev": rec["ev"], "want": rec["got"], "noesc": False, "fam": "trace", "variant": rec["variant"]}
            cmd = "c08"
        else:
            # the spec derives the opposite verdict
            probe = {"ver": rec["ver"], "st": rec["st"], "ev": rec["ev"], "want": (not rec["got"]), "noesc": True, "fam": "trace", "variant": rec["variant"]}
            cmd = "c07"
        if rec.get("pre"):
            probe["pre"] = rec["pre"]   # the caller's accessor-and-edit step that preceded the recorded call
        r0 = None
        for _ in range(6):   # a defect may be nondeterministic (map iteration order): several fresh processes
            out = [r for r in ctx.harness(cmd, [probe]) if "i" in r]
            if out and not out[0].get("ok"):
                r0 = out[0]
                break
        if r0 is None:
            unreproduced.append(lineno)
            return
        ctx.disagree(r0.get("key", "trace"), r0.get("what", ""), {"harness": cmd, "record": probe, "result": r0, "count": 1})

    ctx.validate_trace("Auth_trace", "Auth_trace.cfg", trace, on_reject, env={"TRACE_MODE": mode})
    if unreproduced:
        if not ctx.violations:
            raise MachineryError("recorded verdicts of trace lines %s did not reproduce in fresh processes" % unreproduced[:10])
        ctx.notes["unreproduced_trace_lines"] = len(unreproduced)
