"""Shared driver for the Auth.tla families (C07, C08, C09)."""
import os
from vlib.core import MachineryError

FAMILIES_ALL = ["versions", "member_self", "member_restricted", "member_other", "member_tpi", "structure",
                "generic", "create", "pl0", "pl1", "pl2", "pl3", "plnames"]
FAMILIES_PL = ["versions", "pl0", "pl1", "pl2", "pl3", "plnames"]

INVS = "AcceptedImpliesNoEsc BannedNeverPasses NoCreateNoPass MixedNeverPass OnlyNeededState Emit"


def cfg_text(family, versions, pldepth):
    return ("SPECIFICATION Spec\nCONSTANTS\n  Versions <- %s\n  Family = \"%s\"\n  PLDepth = \"%s\"\n"
            "INVARIANTS %s\nCHECK_DEADLOCK FALSE\n" % (versions, family, pldepth, INVS))


def gen_family(ctx, family, workers=None):
    versions = "VersionsQuick" if ctx.tier == "quick" else "VersionsAll"
    pldepth = "small"
    if family in ("pl2", "plnames") and ctx.tier == "quick":
        versions = "VersionsPL2Quick"
    d = ctx._spec_dir()
    cfg = "Auth_gen_%s_%s.cfg" % (family, ctx.tier)
    with open(os.path.join(d, cfg), "w") as f:
        f.write(cfg_text(family, versions, pldepth))
    return ctx.tlc("Auth_gen", cfg, timeout=1500, workers=workers)


def run_families(ctx, cmd, families):
    ctx.assumptions += [
        "third-party-invite signatures: real ed25519 keys; signature scheme assumed unforgeable",
        "power levels are compared through ranks; each record is realised with one of four concrete ladders "
        "(including +-(2^53-1)) chosen from seed+index",
        "user IDs are used as sender IDs with the identity UserIDForSender (as in the library's tests)",
    ]
    ctx.exhaustive = True
    ctx.notes["rule"] = ("every scenario of the Auth_gen.tla families %s for versions %s; "
                         "distinct = distinct (family, version, canonical scenario key, verdict)"
                         % (families, "VersionsQuick" if ctx.tier == "quick" else "all 16"))
    # TLC runs of the families are independent: a few at a time, then the replays (parallel inside the harness)
    from concurrent.futures import ThreadPoolExecutor
    ctx._spec_dir()   # create the scratch copy of spec/ before the threads start
    with ThreadPoolExecutor(max_workers=4) as ex:
        results = list(ex.map(lambda fam: gen_family(ctx, fam, workers=max(2, ctx.workers // 4)), families))
    for r in results:
        ctx.replay_and_compare(cmd, r.records)


def record_and_validate(ctx, n):
    """code -> spec: random full-vocabulary scenarios through the real Allowed(), validated by Auth_trace.tla."""
    trace = os.path.join(ctx.scratch, "auth_trace.ndjson")
    res = ctx.harness("c07rec", args=["-out", trace, "-n", n])
    for r in res:  # panics while recording
        if not r.get("ok"):
            ctx.disagree("panic/Allowed", r.get("what", "panic")[:2000], {"scenario": r.get("extra"), "count": 1})

    mode = "noesc" if ctx.pid == "C08" else "verdict"
    unreproduced = []

    def on_reject(rec, lineno):
        if mode == "noesc":
            probe = {"ver": rec["ver"], "st": rec["st"], "ev": rec["ev"], "want": rec["got"], "noesc": False, "fam": "trace", "variant": rec["variant"]}
            cmd = "c08"
        else:
            # the spec derives the opposite verdict
            probe = {"ver": rec["ver"], "st": rec["st"], "ev": rec["ev"], "want": (not rec["got"]), "noesc": True, "fam": "trace", "variant": rec["variant"]}
            cmd = "c07"
        r0 = None
        for _ in range(6):   # a defect may be nondeterministic (map iteration order): several fresh processes
            out = [r for r in ctx.harness(cmd, [probe]) if "i" in r]
            if out and not out[0].get("ok"):
                r0 = out[0]
                break
        if r0 is None:
            unreproduced.append(lineno)
            return
        ctx.disagree(r0.get("key", "trace"), r0.get("what", ""), {"harness": cmd, "record": probe, "result": r0, "count": 1})

    ctx.validate_trace("Auth_trace", "Auth_trace.cfg", trace, on_reject, env={"TRACE_MODE": mode})
    if unreproduced:
        if not ctx.violations:
            raise MachineryError("recorded verdicts of trace lines %s did not reproduce in fresh processes" % unreproduced[:10])
        ctx.notes["unreproduced_trace_lines"] = len(unreproduced)
