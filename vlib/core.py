"""Shared driver machinery for /verif/bin/check.

One Ctx per check run.  Everything a check does goes through it so that the
verdict discipline of DESIGN.md section 7 is implemented once:

  * verdicts come only from real-code behaviour (harness results / rejected
    recorded traces), each disagreement re-executed in a fresh process;
  * TLC problems on the specification alone, dead drivers, timeouts and build
    failures are exit 2 (machinery error), never exit 1;
  * known findings (known_findings.json, status "open") print KNOWN-FINDING and
    do not affect the exit code; anything else prints VIOLATION and exits 1.
"""
import fnmatch
import hashlib
import json
import os
import re
import shutil
import subprocess
import sys
import tempfile
import time

ROOT = os.path.dirname(os.path.dirname(os.path.abspath(__file__)))
SPEC = os.path.join(ROOT, "spec")
HARNESS = os.path.join(ROOT, "harness")
REPO = os.environ.get("VERIF_REPO", "/repo")
TLA_CP = "/opt/veriftools/tla/tla2tools.jar:/opt/veriftools/tla/CommunityModules-deps.jar"

GOENV = {
    "GOFLAGS": "-mod=mod",
    "GOPROXY": "off",
    "GOSUMDB": "off",
    "GOTOOLCHAIN": "local",
}


class MachineryError(Exception):
    """Something in the verification machinery failed: exit 2, never a violation."""


class HarnessCrash(MachineryError):
    """The harness process was killed by the Go runtime ("fatal error: ...")."""
    def __init__(self, fatal, frame, tail, msg):
        MachineryError.__init__(self, msg)
        self.fatal, self.frame, self.tail = fatal, frame, tail


class TLCResult:
    def __init__(self):
        self.generated = 0
        self.distinct = 0
        self.records = []
        self.ok = False
        self.violated = None      # name of violated invariant / property
        self.stdout = ""
        self.wall = 0.0
        self.coverage = {}        # action name -> count (when -coverage was on)
        self.depth = 0


def _env(extra=None):
    e = dict(os.environ)
    e.update(GOENV)
    if extra:
        e.update({k: str(v) for k, v in extra.items()})
    return e


def _merge_gosum(src, dst):
    have = set()
    if os.path.exists(dst):
        with open(dst) as f:
            have = set(l for l in f.read().splitlines() if l.strip())
    with open(src) as f:
        want = set(l for l in f.read().splitlines() if l.strip())
    if not want <= have:
        tmp = dst + ".%d" % os.getpid()
        with open(tmp, "w") as f:
            f.write("\n".join(sorted(have | want)) + "\n")
        os.replace(tmp, dst)


class Ctx:
    def __init__(self, pid, tier, seed):
        self.pid = pid
        self.tier = tier
        self.seed = seed
        self.t0 = time.time()
        self.scratch = tempfile.mkdtemp(prefix="verif_%s_" % pid)
        self.states = 0
        self.transitions = 0
        self.traces_validated = 0
        self.evaluations = 0
        self.nontrivial = set()
        self.nontrivial_extra = 0
        self.samples = []
        self.notes = {}
        self.assumptions = []
        self.violations = []       # (key, what, replay_path)
        self.known_hits = {}       # key pattern -> (what, count)
        self.exhaustive = None
        self.tlc_runs = []
        self.level = "model_checking"
        self._known = self._load_known()
        self._harness_bin = None
        self.workers = int(os.environ.get("VERIF_WORKERS", "0")) or min(16, os.cpu_count() or 4)

    # ------------------------------------------------------------------ util
    def log(self, *a):
        print("[%s %6.1fs]" % (self.pid, time.time() - self.t0), *a, flush=True)

    def _load_known(self):
        out = []
        p = os.path.join(ROOT, "known_findings.json")
        if os.path.exists(p):
            with open(p) as f:
                data = json.load(f)
            out += [e for e in data.get("findings", [])
                    if e.get("property") == self.pid and e.get("status") == "open"]
        return out

    def cleanup(self):
        shutil.rmtree(self.scratch, ignore_errors=True)

    # ------------------------------------------------------------------- TLC
    def _spec_dir(self):
        d = os.path.join(self.scratch, "spec")
        if not os.path.isdir(d):
            shutil.copytree(SPEC, d, ignore=shutil.ignore_patterns("states", "*.out", ".tlacache"))
        return d

    def tlc(self, module, cfg, workers=None, timeout=900, simulate=None, depth=None,
            env=None, coverage=False, dfs=False, expect_records=True, heap=None,
            allow_violation=False, extra=None):
        """Run TLC on spec/<module>.tla with spec/<cfg>.  Returns TLCResult.

        Records are lines printed with PrintT(ToJson(rec)): TLC prints them as
        one JSON string literal per line; they are decoded twice.
        """
        d = self._spec_dir()
        meta = tempfile.mkdtemp(prefix="meta_", dir=self.scratch)
        w = workers or self.workers
        jopts = ["-XX:+UseParallelGC", "-Xss512m"]
        if heap:
            jopts.append("-Xmx%s" % heap)
        if dfs:
            jopts.append("-Dtlc2.tool.queue.IStateQueue=StateDeque")
        cmd = ["timeout", str(timeout), "java"] + jopts + ["-cp", TLA_CP, "tlc2.TLC",
               "-workers", str(w), "-metadir", meta, "-config", cfg, "-noGenerateSpecTE"]
        if coverage:
            cmd += ["-coverage", "1"]
        if simulate:
            sim = "num=%d" % simulate
            cmd += ["-simulate", sim, "-seed", str(self.seed)]
            if depth:
                cmd += ["-depth", str(depth)]
        if extra:
            cmd += extra
        cmd += [module + ".tla"]
        t = time.time()
        outpath = os.path.join(meta, "tlc.out")
        with open(outpath, "wb") as out:
            p = subprocess.run(cmd, cwd=d, stdout=out, stderr=subprocess.STDOUT, env=_env(env))
        r = TLCResult()
        r.wall = time.time() - t
        recs = []
        keep = []
        with open(outpath, "r", errors="replace") as f:
            for line in f:
                s = line.rstrip("\n")
                if len(s) > 1 and s[0] == '"' and s[-1] == '"':
                    try:
                        recs.append(json.loads(json.loads(s)))
                        continue
                    except Exception:
                        pass
                keep.append(s)
        r.records = recs
        r.stdout = "\n".join(keep)
        m = None
        for m in re.finditer(r"(\d+) states generated, (\d+) distinct states found", r.stdout):
            pass
        if m:
            r.generated, r.distinct = int(m.group(1)), int(m.group(2))
        m = re.search(r"The depth of the complete state graph search is (\d+)", r.stdout)
        if m:
            r.depth = int(m.group(1))
        m = re.search(r"(Invariant|Action property|Temporal property|Property) (\S+) (is|was) violated", r.stdout)
        if m:
            r.violated = m.group(2)
        elif "Error: Deadlock reached" in r.stdout:
            r.violated = "Deadlock"
        elif re.search(r"Temporal properties were violated", r.stdout):
            r.violated = "Temporal"
        if coverage:
            for m in re.finditer(r"^<(\w+) line \d+, col \d+ to line \d+, col \d+ of module (\w+)>: (\d+):(\d+)", r.stdout, re.M):
                r.coverage[m.group(1)] = r.coverage.get(m.group(1), 0) + int(m.group(4))
        finished = ("Model checking completed" in r.stdout) or (simulate and p.returncode in (0,)) \
            or (simulate and "Progress: " in r.stdout and p.returncode == 0)
        r.ok = finished and r.violated is None and "Error:" not in r.stdout
        self.tlc_runs.append({"module": module, "cfg": cfg, "generated": r.generated, "distinct": r.distinct,
                              "records": len(recs), "wall_s": round(r.wall, 2), "violated": r.violated,
                              "mode": "simulate" if simulate else "exhaustive"})
        if p.returncode == 124:
            raise MachineryError("TLC timed out after %ss on %s/%s" % (timeout, module, cfg))
        if not r.ok and not (allow_violation and r.violated):
            tail = "\n".join(r.stdout.splitlines()[-40:])
            raise MachineryError("TLC failed on %s/%s (rc=%d, violated=%s):\n%s" % (module, cfg, p.returncode, r.violated, tail))
        if not simulate:
            self.states += r.distinct
            self.transitions += r.generated
        else:
            self.states += r.generated
            self.transitions += r.generated
        self.log("TLC %s/%s: %d generated, %d distinct, %d records, %.1fs" % (module, cfg, r.generated, r.distinct, len(recs), r.wall))
        return r

    def tlc_trace(self, module, cfg, trace_path, timeout=600, env=None, dfs=False):
        """Validate an NDJSON trace against spec/<module>.tla (the trace spec reads env TRACE_FILE).

        Trace specs follow one convention: one step per logged line; a line the specification does not explain
        is appended to the variable `bad` and printed at the end as "TRACE_REJECTED [line numbers]";
        POSTCONDITION TraceAccepted checks that every line was consumed.
        Returns (accepted, rejected_line_numbers (1-based), stdout)."""
        e = {"TRACE_FILE": trace_path}
        if env:
            e.update(env)
        d = self._spec_dir()
        meta = tempfile.mkdtemp(prefix="meta_", dir=self.scratch)
        jopts = ["-XX:+UseParallelGC", "-Xss512m"]
        if dfs:
            jopts.append("-Dtlc2.tool.queue.IStateQueue=StateDeque")
        cmd = ["timeout", str(timeout), "java"] + jopts + ["-cp", TLA_CP, "tlc2.TLC", "-workers", "1",
               "-metadir", meta, "-config", cfg, "-noGenerateSpecTE", module + ".tla"]
        t = time.time()
        p = subprocess.run(cmd, cwd=d, stdout=subprocess.PIPE, stderr=subprocess.STDOUT, env=_env(e))
        out = p.stdout.decode(errors="replace")
        if p.returncode == 124:
            raise MachineryError("TLC trace validation timed out on %s" % module)
        m = re.search(r"(\d+) states generated, (\d+) distinct states found", out)
        gen = int(m.group(1)) if m else 0
        dist = int(m.group(2)) if m else 0
        self.states += dist
        self.transitions += gen
        rejected = []
        mm = re.search(r'TRACE_REJECTED \[([0-9, ]*)\]', out)
        if mm:
            rejected = [int(x) for x in mm.group(1).replace(" ", "").split(",") if x]
        elif "TRACE_REJECTED" in out:
            raise MachineryError("cannot parse TRACE_REJECTED line of %s" % module)
        completed = "Model checking completed" in out and "Error:" not in out
        if not completed:
            raise MachineryError("TLC trace validation failed to run on %s:\n%s" % (module, "\n".join(out.splitlines()[-40:])))
        accepted = not rejected
        self.tlc_runs.append({"module": module, "cfg": cfg, "generated": gen, "distinct": dist,
                              "wall_s": round(time.time() - t, 2), "mode": "trace", "accepted": accepted,
                              "rejected_lines": len(rejected)})
        self.log("TLC trace %s: lines=%d rejected=%d %.1fs" % (module, max(0, dist - 1), len(rejected), time.time() - t))
        return accepted, rejected, out

    def validate_trace(self, module, cfg, trace_path, on_reject, max_rejections=200, timeout=900, env=None):
        """code -> spec: validate an NDJSON trace; every rejected line is handed to on_reject(record, lineno)
        (which must call ctx.disagree or raise MachineryError).  Returns the number of accepted lines."""
        with open(trace_path) as f:
            lines = [x for x in f.read().splitlines() if x.strip()]
        if not lines:
            raise MachineryError("empty trace %s (dead recorder)" % trace_path)
        ok, rejected, out = self.tlc_trace(module, cfg, trace_path, timeout=timeout, env=env)
        for n in rejected[:max_rejections]:
            on_reject(json.loads(lines[n - 1]), n)
        self.traces_validated += len(lines) - len(rejected)
        self.evaluations += len(lines)
        if len(self.samples) < 8:
            self.samples.append({"trace_line": json.loads(lines[0]), "module": module})
        return len(lines) - len(rejected)

    # --------------------------------------------------------------- harness
    def harness_build(self, race=False, pkg="harness"):
        """Build harness/cmd/<pkg> from /repo's current working tree (replace => /repo, -overlay in-package accessors)."""
        key = pkg + ("_race" if race else "_plain")
        if self._harness_bin and key in self._harness_bin:
            return self._harness_bin[key]
        t = time.time()
        ov = {}
        ovd = os.path.join(HARNESS, "_overlay")
        for name in (sorted(os.listdir(ovd)) if os.path.isdir(ovd) else []):
            if not name.endswith(".go"):
                continue
            # file name <pkgdir>__<name>.go ; pkgdir "root" = /repo itself
            opkg, _, rest = name.partition("__")
            dst = REPO if opkg == "root" else os.path.join(REPO, opkg)
            ov[os.path.join(dst, "zz_verif_" + rest)] = os.path.join(ovd, name)
        ovp = os.path.join(self.scratch, "overlay.json")
        with open(ovp, "w") as f:
            json.dump({"Replace": ov}, f)
        out = os.path.join(self.scratch, "%s_%s" % (pkg, "race" if race else "plain"))
        cmd = ["go", "build", "-tags", "verif", "-overlay", ovp, "-o", out]
        if REPO == "/repo":
            _merge_gosum(os.path.join(REPO, "go.sum"), os.path.join(HARNESS, "go.sum"))
        else:
            # build against another checkout (scratch worktree with a candidate change): private modfile
            mf = os.path.join(self.scratch, "alt.mod")
            with open(os.path.join(HARNESS, "go.mod")) as f:
                txt = f.read().replace("=> /repo", "=> " + REPO)
            with open(mf, "w") as f:
                f.write(txt)
            shutil.copy(os.path.join(HARNESS, "go.sum"), os.path.join(self.scratch, "alt.sum"))
            _merge_gosum(os.path.join(REPO, "go.sum"), os.path.join(self.scratch, "alt.sum"))
            cmd += ["-modfile", mf]
        if race:
            cmd.append("-race")
        cmd.append("./cmd/" + pkg)
        p = subprocess.run(cmd, cwd=HARNESS, stdout=subprocess.PIPE, stderr=subprocess.STDOUT, env=_env())
        if p.returncode != 0:
            raise MachineryError("harness build failed (is /repo compiling?):\n" + p.stdout.decode(errors="replace")[-4000:])
        self._harness_bin = self._harness_bin or {}
        self._harness_bin[key] = out
        self.log("harness built (%s) in %.1fs" % (key, time.time() - t))
        return out

    def harness(self, cmd, records=None, args=None, race=False, timeout=1800, env=None, raw=False, pkg="harness"):
        """Run `<pkg binary> <cmd> [args]` feeding `records` as NDJSON on a file; returns list of result dicts."""
        b = self.harness_build(race=race, pkg=pkg)
        argv = [b, cmd]
        inpath = None
        if records is not None:
            fd, inpath = tempfile.mkstemp(prefix="in_", suffix=".ndjson", dir=self.scratch)
            with os.fdopen(fd, "w") as f:
                for r in records:
                    f.write(json.dumps(r, separators=(",", ":")) + "\n")
            argv += ["-in", inpath]
        argv += ["-seed", str(self.seed)]
        if args:
            argv += [str(a) for a in args]
        e = _env(env)
        try:
            p = subprocess.run(argv, stdout=subprocess.PIPE, stderr=subprocess.PIPE, env=e, timeout=timeout)
        except subprocess.TimeoutExpired:
            raise MachineryError("harness %s timed out after %ds" % (cmd, timeout))
        out = p.stdout.decode(errors="replace")
        if raw:
            return p.returncode, out, p.stderr.decode(errors="replace")
        res = []
        for line in out.split("\n"):   # not splitlines(): U+2028 etc. inside JSON strings are not line ends
            line = line.strip(" \t\r")
            if not line.startswith("{"):
                continue
            try:
                res.append(json.loads(line))
            except Exception:
                raise MachineryError("harness %s wrote an unparsable line: %r" % (cmd, line[:200]))
        if p.returncode != 0:
            err = p.stderr.decode(errors="replace")
            m = re.search(r"^fatal error: .*$", err, re.M)
            if m:
                # the Go runtime killed the process (concurrent map writes, stack exhaustion, ...): not recoverable
                # inside the harness, but still the library's doing when the stack shows its frames
                lib = re.search(r"github\.com/matrix-org/gomatrixserverlib[\w/.]*\.\(?\*?[\w.()*]+", err)
                raise HarnessCrash(m.group(0).strip(), lib.group(0) if lib else "", err[-3000:],
                                   "harness %s exited %d: %s" % (cmd, p.returncode, err[-3000:]))
            raise MachineryError("harness %s exited %d: %s ... %s" % (cmd, p.returncode, err[:600], err[-2400:]))
        return res

    def replay_and_compare(self, cmd, records, args=None, race=False, key_of=None, what_of=None,
                           nontrivial_of=None, timeout=1800, env=None, max_report=2000, pkg="harness"):
        """spec -> code: run records through harness `cmd`; every result with ok=false is re-executed
        alone in a fresh process and, if it reproduces, reported.  Returns list of result dicts."""
        if not records:
            raise MachineryError("no records to replay for %s (dead generator)" % cmd)
        try:
            res = self.harness(cmd, records, args=args, race=race, timeout=timeout, env=env, pkg=pkg)
        except HarnessCrash as c1:
            # a fatal runtime error while the library handled these inputs: once more in a fresh process
            if not c1.frame:
                raise
            for _ in range(3):
                try:
                    self.harness(cmd, records, args=args, race=race, timeout=timeout, env=env, pkg=pkg)
                except HarnessCrash as c2:
                    if c2.frame:
                        kind = "concurrent-map-access" if "concurrent map" in c1.fatal else re.sub(r"[^A-Za-z]+", "-", c1.fatal)[:60]
                        self.disagree("%s/fatal/%s/%s" % (self.pid, cmd, kind),
                                      "the Go runtime aborted the process while the library handled the batch (again in a fresh "
                                      "process): %s in %s\n%s" % (c2.fatal, c2.frame, c2.tail[-1200:]),
                                      {"harness": cmd, "pkg": pkg, "args": args or [], "count": 1, "fatal": c1.fatal})
                        return []
                except MachineryError:
                    break
            raise c1
        body = [r for r in res if "i" in r]
        if len(body) != len(records):
            raise MachineryError("harness %s answered %d of %d records" % (cmd, len(body), len(records)))
        skipped = sum(1 for r in body if r.get("skip"))
        if skipped:
            self.log("%d records of %s were not run (earlier records hung)" % (skipped, cmd))
        self.evaluations += len(body) - skipped
        self.traces_validated += len(body) - skipped
        bad = [r for r in body if not r.get("ok")]
        for r in body:
            nt = r.get("nt")
            if nt:
                self.nontrivial.add(cmd + ":" + str(nt))
        if len(self.samples) < 6:
            for r in body[:: max(1, len(body) // 3)][:3]:
                self.samples.append({"harness": cmd, "record": records[r["i"]], "result": {k: v for k, v in r.items() if k != "i"}})
        self._judge(cmd, records, bad, body, args, race, key_of, what_of, timeout, env, pkg, depth=0)
        return body

    def _judge(self, cmd, records, bad, body, args, race, key_of, what_of, timeout, env, pkg, depth):
        """Groups the failing results by key, reproduces each group in a fresh process and reports what reproduces."""
        hung_or_skipped = [r["i"] for r in body if r.get("skip") or (not r.get("ok") and r.get("key") == "hang")]
        # group by key, reproduce first of each group in a fresh process
        groups = {}
        for r in bad:
            k = r.get("key") or (key_of(records[r["i"]], r) if key_of else "unkeyed")
            if k in ("panic", "hang"):
                k = "%s/%s/%s" % (self.pid, k, cmd)
            groups.setdefault(k, []).append(r)
        unreproduced = []
        for n, (k, rs) in enumerate(sorted(groups.items())):
            if n >= 80 and self.violations:
                # enough separately reproduced reports; the remaining groups are counted, not reproduced one by one
                self.notes["further_disagreement_groups_not_reproduced_individually"] = len(groups) - n
                break
            # reproduction in a fresh process: the first members of the group, each up to repro_attempts times (a
            # defect can be nondeterministic - map iteration order, scheduling - and still be a defect; what is
            # reported is always a run of the real code that misbehaved in a process of its own)
            first = None
            for cand in rs[:3]:
                rec = records[cand["i"]]
                renv = dict(env or {}, VERIF_INDEX_BASE=str(cand["i"]))
                for _ in range(max(1, getattr(self, "repro_attempts", 4))):
                    again = self.harness(cmd, [rec], args=args, race=race, timeout=timeout, env=renv, pkg=pkg)
                    again = [r for r in again if "i" in r]
                    if again and not again[0].get("ok"):
                        first = cand
                        break
                if first is not None:
                    break
            if first is None:
                unreproduced.append((k, rs[0]))
                continue
            rec = records[first["i"]]
            vers = sorted(set(str(records[r["i"]].get("ver")) for r in rs if isinstance(records[r["i"]], dict) and "ver" in records[r["i"]]))
            what = first.get("what") or (what_of(rec, first) if what_of else json.dumps({x: first[x] for x in first if x not in ("i", "ok")})[:300])
            self.disagree(k, what, {"harness": cmd, "pkg": pkg, "args": args or [], "record": rec, "result": first, "count": len(rs), "versions": vers})
        if unreproduced:
            # A misbehaviour that needs earlier calls in the same process (a cache or a shared default that one input
            # leaves behind for the next) cannot show when a record is run alone.  The whole batch is run once more
            # in a fresh process: a group whose key fails there again is a reproduced run of the real code, and is
            # reported with the batch as its replay.
            try:
                res2 = self.harness(cmd, records, args=args, race=race, timeout=timeout, env=env, pkg=pkg)
            except MachineryError:
                res2 = []
            again_keys = {}
            for r in res2:
                if "i" in r and not r.get("ok"):
                    k2 = r.get("key") or (key_of(records[r["i"]], r) if key_of else "unkeyed")
                    if k2 in ("panic", "hang"):
                        k2 = "%s/%s/%s" % (self.pid, k2, cmd)
                    again_keys.setdefault(k2, r)
            still = []
            batch_path = None
            hang_key = "%s/hang/%s" % (self.pid, cmd)
            hung2 = set(r["i"] for r in res2 if "i" in r and not r.get("ok") and r.get("key") == "hang")
            complete2 = len([r for r in res2 if "i" in r]) == len(records)
            for k, first in unreproduced:
                if k == hang_key:
                    # A record without a result within the deadline.  Alone it finished in time (above).  It is a hang of
                    # the library only if the batch, run again in a fresh process, stops at the SAME record; a machine
                    # that is merely slow (other jobs, memory pressure) delays arbitrary records, and those are not
                    # misbehaviour of the code under test.
                    if set(r["i"] for r in groups.get(hang_key, [])) & hung2:
                        pass        # reported below like any other batch-dependent misbehaviour
                    elif complete2 and not hung2:
                        # the second run gave every record a result: judge, from it, the records the first run left
                        # without one (hung or skipped after repeated hangs)
                        self.notes.setdefault("slow_records_rerun", 0)
                        self.notes["slow_records_rerun"] += len(hung_or_skipped)
                        self.log("%d record(s) of %s had no result within the deadline in the first run only (slow machine); "
                                 "judged from the second run" % (len(hung_or_skipped), cmd))
                        redo = set(hung_or_skipped)
                        body2 = [r for r in res2 if "i" in r and r["i"] in redo]
                        bad2 = [r for r in body2 if not r.get("ok")]
                        if bad2 and depth < 1:
                            self._judge(cmd, records, bad2, body2, args, race, key_of, what_of, timeout, env, pkg, depth + 1)
                        continue
                    else:
                        still.append((k, first))
                        continue
                if k in again_keys:
                    if batch_path is None:
                        d = os.path.join(ROOT, "replays", self.pid if REPO == "/repo" else self.pid + "_alt")
                        os.makedirs(d, exist_ok=True)
                        import gzip
                        batch_path = os.path.join(d, "batch_%s_%d.ndjson.gz" % (cmd, os.getpid()))
                        with gzip.open(batch_path, "wt") as f:
                            for rec in records:
                                f.write(json.dumps(rec) + "\n")
                    r2 = again_keys[k]
                    what = (r2.get("what") or first.get("what") or "")[:1500] + \
                        " [shows only after other inputs were handled in the same process: the record alone passes; reproduced by running the batch again in a fresh process]"
                    self.disagree(k, what, {"harness": cmd, "pkg": pkg, "args": args or [], "record": records[r2["i"]],
                                            "result": r2, "count": 1, "needs_batch": batch_path})
                else:
                    still.append((k, first))
            unreproduced = still
        if unreproduced:
            if not self.violations:
                k, first = unreproduced[0]
                raise MachineryError("disagreement %s did not reproduce in a fresh process: %s" % (k, json.dumps(first)[:500]))
            # some groups reproduced (and are reported); the others are only noted
            self.notes.setdefault("unreproduced_disagreements", [])
            self.notes["unreproduced_disagreements"] += [k for k, _ in unreproduced][:50]
            self.log("%d disagreement group(s) did not reproduce in a fresh process and are not reported: %s"
                     % (len(unreproduced), ", ".join(k for k, _ in unreproduced[:5])))

    # -------------------------------------------------------------- verdicts
    def disagree(self, key, what, payload):
        for e in self._known:
            if fnmatch.fnmatchcase(key, e["key"]):
                w, c = self.known_hits.get(e["key"], (e.get("what", what), 0))
                self.known_hits[e["key"]] = (w, c + int(payload.get("count", 1)))
                return
        if any(k == key for k, _, _ in self.violations):
            return      # one report (and one replay file) per canonical key
        d = os.path.join(ROOT, "replays", self.pid if REPO == "/repo" else self.pid + "_alt")
        os.makedirs(d, exist_ok=True)
        h = hashlib.sha1((key + json.dumps(payload, sort_keys=True)).encode()).hexdigest()[:12]
        path = os.path.join(d, h + ".json")
        with open(path, "w") as f:
            json.dump({"property": self.pid, "key": key, "what": what, "payload": payload,
                       "seed": self.seed, "tier": self.tier}, f, indent=1)
        self.violations.append((key, what, path))

    def add_nontrivial(self, items):
        for i in items:
            self.nontrivial.add(i)

    # -------------------------------------------------------------- evidence
    def finish(self):
        wall = time.time() - self.t0
        cov = {
            "states": self.states,
            "transitions": self.transitions,
            "traces_validated_against_impl": self.traces_validated,
            "evaluations": self.evaluations,
            "distinct_nontrivial": len(self.nontrivial) + self.nontrivial_extra,
            "rule": self.notes.pop("rule", ""),
            "samples": self.samples[:8],
            "tlc_runs": self.tlc_runs,
            "known_findings_hit": {k: {"what": w, "count": c} for k, (w, c) in self.known_hits.items()},
        }
        if self.exhaustive is not None:
            cov["exhaustive"] = bool(self.exhaustive)
        cov.update(self.notes)
        ev = {
            "property_id": self.pid,
            "tier": self.tier,
            "seed": self.seed,
            "level": self.level,
            "coverage": cov,
            "assumptions": self.assumptions,
            "wall_s": round(wall, 2),
            "violations": len(self.violations),
        }
        # evidence describes /repo itself: a run against another checkout (VERIF_REPO, seeded changes) writes elsewhere
        evdir = os.path.join(ROOT, "evidence") if REPO == "/repo" else os.path.join(tempfile.gettempdir(), "verif_alt_evidence")
        os.makedirs(evdir, exist_ok=True)
        with open(os.path.join(evdir, self.pid + ".json"), "w") as f:
            json.dump(ev, f, indent=1, sort_keys=True)
            f.write("\n")
        for k, (w, c) in sorted(self.known_hits.items()):
            print("KNOWN-FINDING: property=%s %s [key=%s, %d case(s)]" % (self.pid, w, k, c), flush=True)
        for n, (key, what, path) in enumerate(self.violations):
            if n < 40 or os.environ.get("VERIF_VERBOSE"):
                print("  disagreement key=%s: %s" % (key, what[:300]), flush=True)
            elif n == 40:
                print("  ... %d more disagreement groups (VERIF_VERBOSE=1 shows all)" % (len(self.violations) - 40), flush=True)
            print("VIOLATION property=%s replay=%s" % (self.pid, path), flush=True)
        self.log("done: states=%d transitions=%d impl-checked=%d violations=%d known=%d wall=%.1fs" % (
            self.states, self.transitions, self.traces_validated, len(self.violations), len(self.known_hits), wall))
        return 1 if self.violations else 0
