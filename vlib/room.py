"""Shared driver for Room_gen.tla (C10, C11)."""
import json
import os


def cfg_text(start, ver, maxfree, ts="{1}", iddesc="FALSE", forkfrom=5, triples="TRUE", dishonest="FALSE", maxbad=1, addl="{}",
             spells='{"int"}', pads="{}"):
    return ("SPECIFICATION Spec\nCONSTANTS\n  Start = %d\n  Ver = \"%s\"\n  MaxFree = %d\n  ForkFrom = %d\n"
            "  TSChoices = %s\n  IdDesc = %s\n  Triples = %s\n  Dishonest = %s\n  MaxBad = %d\n  Addl = %s\n"
            "  SpellSet = %s\n  PadTypes = %s\n  Spells <- GenSpells\nINVARIANTS Emit\nCHECK_DEADLOCK FALSE\n"
            % (start, ver, maxfree, forkfrom, ts, iddesc, triples, dishonest, maxbad, addl, spells, pads))


ALL_PADS = '{"create", "pl", "jr"}'
ALL_SPELLS = '{"int", "str", "strpad", "float", "frac"}'


def plans(tier, seed=1):
    """(start, version, MaxFree, TSChoices, IdDesc, Triples, Dishonest[, ForkFrom[, Addl[, SpellSet[, PadTypes]]]]) per TLC run.
    SpellSet: how the power-levels events of the run's rooms write their levels (default: integers only); PadTypes: the
    event types for which TLC checks StateRes!PadNeutral on every query of the run (the harness pads the queries of
    every run)."""
    if tier == "quick":
        return [(3, "10", 2, "{1}", "FALSE", "FALSE", "FALSE"), (3, "12", 2, "{1}", "FALSE", "FALSE", "FALSE"),
                (1, "10", 2, "{1}", "FALSE", "TRUE", "FALSE"), (1, "12", 2, "{1}", "TRUE", "FALSE", "FALSE"),
                (1, "1", 2, "{1}", "FALSE", "FALSE", "FALSE"),
                (1, "2", 2, "{1}", "TRUE", "FALSE", "FALSE"),   # the one version with sender-chosen event IDs and algorithm v2
                (2, "10", 1, "{1, 2}", "TRUE", "FALSE", "FALSE", None, "{}", '{"int"}', ALL_PADS),
                (2, "12", 1, "{1, 2}", "FALSE", "FALSE", "FALSE", None, "{}", '{"int"}', ALL_PADS),
                (2, "1", 1, "{1}", "TRUE", "FALSE", "FALSE", None, "{}", '{"int"}', ALL_PADS),
                # levels written as strings / floats (room versions 1-9 read them; 6: algorithm v2, hashed event IDs):
                # bob (50, through an entry) and the creator (100) send two events on top of the prefix, whose
                # power-levels event is written with strings or padded strings (floats: no canonical JSON, versions 1-5
                # only - thorough tier and the recorder); every reader of a level - the auth rules and the sender power
                # of the power ordering - must read what the version reads
                (2, "6", 2, "{1}", "FALSE", "FALSE", "FALSE", 8, "{}", '{"str", "strpad"}'),
                # dishonest servers: events their own state does not allow sit in the branches
                (2, "1", 1, "{1}", "FALSE", "TRUE", "TRUE"), (2, "1", 1, "{1}", "TRUE", "TRUE", "TRUE"),
                (2, "10", 1, "{1}", "TRUE", "TRUE", "TRUE"), (2, "12", 1, "{1}", "FALSE", "TRUE", "TRUE"),
                # ... and events sent on top of such an event (which cite it): the rejected-event oracle matters
                (3, "10", 2, "{1}", "TRUE", "FALSE", "TRUE"), (3, "12", 2, "{1}", "FALSE", "FALSE", "TRUE"),
                # additional creators (privileged-creator versions): alice holds the creators' level
                (2, "12", 2, "{1}", "FALSE", "FALSE", "FALSE", 8, '{"alice"}'),
                # users_default set (Start 4: 50, Start 5: 100): alice and carol hold power through the default only,
                # bob / the creator through a users entry; two concurrent events on top of the prefix, one plan per
                # resolution algorithm (the power ordering of v2 / v2.1 reads the effective level, R2; v1 reads it
                # through the auth rules only) and both directions of the event-ID tie-break
                (4, "10", 2, "{1}", "FALSE", "FALSE", "FALSE", 8), (4, "12", 2, "{1}", "TRUE", "FALSE", "FALSE", 8),
                # Start 8 = both in one run, in the version-2 format (sender-chosen event IDs, which the harness
                # reuses from query to query): consecutive queries hold different power-levels events under one ID
                (8, "2", 2, "{1}", "TRUE", "FALSE", "FALSE", 8),
                # power-levels / join-rules events under a non-empty state key in every state set (Start 7), replaced
                # on one or both forks by the free kinds "plx" / "jrx": (type, state_key) is the key, not the type
                (7, "10", 2, "{1}", "FALSE", "FALSE", "FALSE", 10), (7, "12", 2, "{1}", "TRUE", "FALSE", "FALSE", 10)]
    out = []
    # one or two versions per resolution algorithm and event format (what differs between the versions of one
    # algorithm are the auth rules, which are C07's subject)
    for ver in ["1", "2", "10", "12", "org.matrix.hydra.11"]:
        out.append((1, ver, 2, "{1, 2}", "FALSE", "TRUE", "FALSE"))
        out.append((2, ver, 2, "{1}", "TRUE", "FALSE", "FALSE"))
        out.append((3, ver, 2, "{1}", "FALSE", "FALSE", "FALSE"))
    # dishonest rooms: one version per resolution algorithm (the auth rules per version are C07's business)
    for ver in ["1", "10", "12"]:
        out.append((2, ver, 1, "{1, 2}", "FALSE", "TRUE", "TRUE"))
        out.append((2, ver, 1, "{1, 2}", "TRUE", "TRUE", "TRUE"))
        out.append((2, ver, 2, "{1}", "TRUE", "FALSE", "TRUE", 7))
        out.append((3, ver, 2, "{1}", "TRUE", "TRUE", "TRUE"))
        out.append((3, ver, 2, "{1, 2}", "FALSE", "FALSE", "TRUE"))
    for ver in ["12", "org.matrix.hydra.11"]:
        out.append((2, ver, 2, "{1, 2}", "FALSE", "TRUE", "FALSE", 7, '{"alice"}'))   # (ForkFrom 5: a million queries, > 1 h)
        out.append((1, ver, 2, "{1}", "TRUE", "FALSE", "TRUE", None, '{"bob"}'))
    out.append((2, "10", 1, "{1}", "FALSE", "FALSE", "FALSE", None, '{"alice"}'))   # meaningless before v12: must change nothing
    # users_default as a dimension of the power levels (Start 4: 50, Start 5: 100, and the free kind "pld")
    for ver in ["2", "10", "12", "org.matrix.hydra.11"]:
        out.append((4, ver, 2, "{1, 2}", "FALSE", "FALSE", "FALSE", 8))
    out.append((5, "10", 2, "{1}", "TRUE", "TRUE", "FALSE", 7))
    out.append((5, "12", 2, "{1}", "FALSE", "TRUE", "FALSE", 7))
    out.append((8, "2", 2, "{1, 2}", "TRUE", "FALSE", "FALSE", 8))     # both, reused event IDs (see quick)
    out.append((5, "org.matrix.hydra.11", 2, "{1}", "TRUE", "FALSE", "FALSE", 8))
    out.append((4, "1", 2, "{1}", "FALSE", "TRUE", "FALSE", 7))
    out.append((8, "1", 2, "{1}", "TRUE", "FALSE", "FALSE", 8))
    out.append((4, "10", 2, "{1}", "TRUE", "FALSE", "TRUE", 8))    # ... with events their sender's level does not allow
    # power-levels / join-rules events under a non-empty state key: in every state set (Start 7) / only as free
    # events, i.e. on one fork or on both (Start 6)
    for ver in ["10", "12"]:
        out.append((7, ver, 2, "{1}", "FALSE", "TRUE", "FALSE", 10))
        out.append((6, ver, 2, "{1, 2}", "TRUE", "FALSE", "FALSE", 8))
    out.append((7, "2", 2, "{1}", "TRUE", "FALSE", "FALSE", 10))
    out.append((7, "org.matrix.hydra.11", 2, "{1}", "TRUE", "FALSE", "FALSE", 10))
    out.append((7, "1", 2, "{1}", "FALSE", "TRUE", "FALSE", 10))
    out.append((6, "1", 2, "{1}", "TRUE", "FALSE", "FALSE", 8))
    out.append((7, "10", 2, "{1}", "TRUE", "FALSE", "TRUE", 10))
    # levels of the power-levels events written as strings / padded strings / floats (room versions 1-9), also mixed
    # with integer-spelled events sent later; one plan per algorithm and event format that admits them
    out.append((2, "2", 2, "{1}", "TRUE", "FALSE", "FALSE", 8, "{}", ALL_SPELLS))
    out.append((2, "6", 2, "{1, 2}", "FALSE", "FALSE", "FALSE", 8, "{}", ALL_SPELLS))
    out.append((4, "9", 2, "{1}", "TRUE", "FALSE", "FALSE", 8, "{}", '{"str", "strpad"}'))     # ... levels held through users_default
    out.append((4, "2", 2, "{1}", "FALSE", "FALSE", "FALSE", 8, "{}", '{"float", "frac"}'))
    out.append((2, "1", 2, "{1}", "FALSE", "FALSE", "FALSE", 8, "{}", '{"strpad", "float"}'))
    out.append((2, "6", 1, "{1}", "TRUE", "TRUE", "TRUE", None, "{}", '{"str", "strpad"}'))    # ... and dishonest power events
    out.append((2, "10", 1, "{1}", "FALSE", "FALSE", "FALSE", None, "{}", ALL_SPELLS))          # integer-only version: must change nothing
    # StateRes!PadNeutral checked by TLC (an event of a control type under a key of its own in every state set)
    for ver in ["1", "2", "10", "12"]:
        out.append((2, ver, 1, "{1}", "FALSE", "TRUE", "FALSE", None, "{}", '{"int"}', ALL_PADS))
    out.append((7, "10", 1, "{1}", "FALSE", "FALSE", "FALSE", 10, "{}", '{"int"}', ALL_PADS))
    return out


class _Cached:
    pass


def _tlc(ctx, cfg, **kw):
    """ctx.tlc("Room_gen", cfg), or - only when the developer sets VERIF_ROOM_CACHE=<dir> - the records of an earlier,
    successful run of TLC on byte-identical modules and configuration (C10 and C11 replay the same queries, and so do
    the seeds of one tier: re-running TLC for each is most of the wall time of a development cycle).  Never used
    unless asked for; a run that used it says so in its log and in its TLC statistics."""
    import hashlib
    import pickle
    cdir = os.environ.get("VERIF_ROOM_CACHE")
    if not cdir:
        return ctx.tlc("Room_gen", cfg, **kw)
    d = ctx._spec_dir()
    h = hashlib.sha1()
    for name in sorted(os.listdir(d)):
        if name.endswith(".tla") or name == cfg:
            with open(os.path.join(d, name), "rb") as f:
                h.update(name.encode() if name != cfg else b"cfg")
                h.update(f.read())
    path = os.path.join(cdir, h.hexdigest() + ".pickle")
    if os.path.exists(path):
        with open(path, "rb") as f:
            c = pickle.load(f)
        r = _Cached()
        r.records, r.generated, r.distinct = c["records"], c["generated"], c["distinct"]
        ctx.states += r.distinct
        ctx.transitions += r.generated
        ctx.tlc_runs.append({"module": "Room_gen", "cfg": cfg, "generated": r.generated, "distinct": r.distinct,
                             "records": len(r.records), "wall_s": 0, "violated": None, "mode": "exhaustive (cached run)"})
        ctx.log("TLC Room_gen/%s: CACHED run (VERIF_ROOM_CACHE): %d distinct, %d records" % (cfg, r.distinct, len(r.records)))
        return r
    r = ctx.tlc("Room_gen", cfg, **kw)
    os.makedirs(cdir, exist_ok=True)
    tmp = path + ".%d.tmp" % os.getpid()
    with open(tmp, "wb") as f:
        pickle.dump({"records": r.records, "generated": r.generated, "distinct": r.distinct}, f)
    os.replace(tmp, path)
    return r


def generate(ctx, on_batch=None):
    """Runs every plan (quick tier: concurrently, a few TLC workers each).  Without on_batch: returns the
    de-duplicated query records.  With on_batch: hands each plan's new records over as soon as they exist (the
    thorough tier produces about a million queries: they are replayed plan by plan and not kept)."""
    import hashlib
    from concurrent.futures import ThreadPoolExecutor
    d = ctx._spec_dir()
    jobs = []
    for n, plan in enumerate(plans(ctx.tier, ctx.seed)):
        start, ver, mf, ts, idd, tri, dis = plan[:7]
        ff = plan[7] if len(plan) > 7 and plan[7] is not None else (10 if start in (3, 7) else 5)
        addl = plan[8] if len(plan) > 8 else "{}"
        spells = plan[9] if len(plan) > 9 else '{"int"}'
        pads = plan[10] if len(plan) > 10 else "{}"
        cfg = "Room_gen_%s_%d.cfg" % (ctx.tier, n)
        with open(os.path.join(d, cfg), "w") as f:
            f.write(cfg_text(start, ver, mf, ts, idd, triples=tri, forkfrom=ff, dishonest=dis, addl=addl, spells=spells, pads=pads))
        jobs.append(cfg)
    seen = set()
    out = []

    def fresh(records):
        new = []
        for rec in records:
            k = hashlib.sha1(json.dumps(rec, sort_keys=True).encode()).digest()
            if k not in seen:
                seen.add(k)
                new.append(rec)
        return new

    if ctx.tier == "quick":
        with ThreadPoolExecutor(max_workers=4) as ex:
            results = list(ex.map(lambda cfg: _tlc(ctx, cfg, timeout=3000, workers=max(2, ctx.workers // 4)), jobs))
        for r in results:
            out += fresh(r.records)
        if on_batch:
            on_batch(out)
            return []
        return out
    for cfg in jobs:
        r = _tlc(ctx, cfg, timeout=6000)
        new = fresh(r.records)
        r.records = None
        if on_batch:
            if new:
                on_batch(new)
        else:
            out += new
    return out


def record_and_validate(ctx, n):
    """code -> spec: resolution queries on randomly grown rooms (real events, real auth, real resolution),
    validated by StateRes_trace.tla."""
    from vlib.core import MachineryError
    trace = os.path.join(ctx.scratch, "stateres_trace.ndjson")
    res = ctx.harness("c10rec", args=["-out", trace, "-n", n])
    for r in res:
        if not r.get("ok"):
            ctx.disagree("panic/resolve-while-growing-a-room", r.get("what", "panic")[:2000], {"count": 1})

    def on_reject(rec, lineno):
        # re-materialise the room from the logged abstract events and ask the real resolver again (fresh process)
        probe = {"ver": rec["ver"], "events": rec["events"], "sets": rec["sets"], "tips": rec["tips"], "result": rec["got"],
                 "unconflicted": [], "power": [], "others": [], "authdiff": [], "subgraph": [], "rejected": []}
        out = [r for r in ctx.harness("c10", [probe]) if "i" in r]
        if not out or not out[0].get("ok"):
            raise MachineryError("recorded resolution of trace line %d did not reproduce in a fresh process" % lineno)
        ctx.disagree("C10/trace/%s/unexplained-result" % rec["ver"],
                     "ResolveConflictsNew returned %s for state sets %s of a %d-event room (version %s); StateRes.tla derives a different state"
                     % (rec["got"], rec["sets"], len(rec["events"]), rec["ver"]),
                     {"harness": "c10", "record": probe, "result": {"got": rec["got"]}, "count": 1})

    ctx.validate_trace("StateRes_trace", "StateRes_trace.cfg", trace, on_reject, timeout=2400)
