"""Shared driver for Room_gen.tla (C10, C11)."""
import json
import os


def cfg_text(start, ver, maxfree, ts="{1}", iddesc="FALSE", forkfrom=5):
    return ("SPECIFICATION Spec\nCONSTANTS\n  Start = %d\n  Ver = \"%s\"\n  MaxFree = %d\n  ForkFrom = %d\n"
            "  TSChoices = %s\n  IdDesc = %s\nINVARIANTS Emit\nCHECK_DEADLOCK FALSE\n"
            % (start, ver, maxfree, forkfrom, ts, iddesc))


def plans(tier):
    """(start, version, MaxFree, TSChoices, IdDesc) per TLC run."""
    if tier == "quick":
        return [(1, "10", 2, "{1}", "FALSE"), (1, "12", 2, "{1}", "TRUE"), (1, "1", 2, "{1}", "FALSE"),
                (2, "10", 1, "{1, 2}", "TRUE"), (2, "12", 1, "{1, 2}", "FALSE"), (2, "1", 1, "{1}", "TRUE")]
    out = []
    for ver in ["1", "2", "6", "10", "11", "12", "org.matrix.hydra.11"]:
        out.append((1, ver, 2, "{1, 2}", "FALSE"))
        out.append((2, ver, 2, "{1}", "TRUE"))
    return out


def generate(ctx):
    """Runs every plan; returns the de-duplicated list of query records."""
    seen = set()
    out = []
    d = ctx._spec_dir()
    for n, (start, ver, mf, ts, idd) in enumerate(plans(ctx.tier)):
        cfg = "Room_gen_%s_%d.cfg" % (ctx.tier, n)
        with open(os.path.join(d, cfg), "w") as f:
            f.write(cfg_text(start, ver, mf, ts, idd))
        r = ctx.tlc("Room_gen", cfg, timeout=3000)
        for rec in r.records:
            k = json.dumps(rec, sort_keys=True)
            if k not in seen:
                seen.add(k)
                out.append(rec)
    return out
