"""X02 (growth of the specification; not one of the 20 listed properties) - the life cycle of a server's
signing keys over time through ONE long-lived key ring.

KeyLife.tla is a history model: ticks pass, the origin rotates / renews its keys (old key -> old_verify_keys
with expired_ts), a notary keeps a possibly stale copy, fetchers go down and recover, and a key ring with a
persistent key database serves one KeyRing.VerifyJSONs call after another.  The clauses (Sound / Complete,
NoNeedlessContact / InOrder, ExpiredDecides / KnownExpiry / RetiredForGood / OldKeyStillVerifies, DBMonotone /
ExpiredIsFinal / NothingInvented / StoredFetched, OutageHarmless, Again) are stated over history variables
and checked by TLC on every state / transition of the generated space.

spec -> code
  KeyLife_gen.tla, mode "cover": every reachable TRANSITION (state x Verify request) within the bounds, each
  printed with one complete behaviour leading to it from the empty database; mode "paths": every complete
  behaviour within tighter bounds.  harness/cmd/x02 (x02life) replays each behaviour step by step against
  one real KeyRing: scripted KeyDatabase, the real DirectKeyFetcher / PerspectiveKeyFetcher (observed at the
  KeyFetcher interface) over a scripted KeyClient with really signed key responses, real ed25519 signatures
  on the messages; after every call the result, the fetchers contacted (and what they were asked) and the
  content of the database are compared.  (thorough: one family is replayed a second time with scripted
  KeyFetchers, -mode stub.)
design check
  KeyLife_asbuilt.cfg runs the same clauses over the store rule keyring.go implements (a key a fetcher
  volunteers overwrites the database entry of a key ID the call did not ask for); TLC's verdict on it is
  recorded in the evidence (as_built_store_rule), it is never a verdict about the code.
"""
import collections
import concurrent.futures

from vlib.core import MachineryError

STEP_KINDS = ("tick", "rotate", "renew", "sync", "down:d", "down:n", "up:d", "up:n", "verify")


def _census(records, counts):
    """vacuity guard: which kinds of step / call occur in the emitted behaviours"""
    for rec in records:
        for s in rec["steps"]:
            k = s[0] if len(s) == 1 or s[0] == "verify" else "%s:%s" % (s[0], s[1])
            counts[k] += 1
        last = rec["steps"][-1]
        if last[0] == "verify":
            kid, res, con, dbb, dba = last[1], last[5], last[6], last[12], last[13]
            held = dbb[kid - 1]
            cls = "absent" if held == [-1, -1] else ("expired" if held[1] != -1 else "current")
            counts["call:%s/%s/con=%d" % (cls, res, len(con))] += 1
            if dbb != dba:
                counts["call:db-changed"] += 1
            if any(dbb[i] != dba[i] for i in range(len(dbb)) if i != kid - 1):
                counts["call:volunteered-key-stored"] += 1
            if any(dbb[i] == dba[i] and dbb[i] != [-1, -1] and any(a[i] not in ([-1, -1], dbb[i]) for a in [last[10], last[11]])
                   for i in range(len(dbb)) if i != kid - 1) and con:
                counts["call:other-key-held-while-sources-differ"] += 1


REQUIRED = STEP_KINDS + (
    "call:absent/ok/con=1", "call:absent/fail/con=2", "call:expired/ok/con=0", "call:expired/fail/con=0",
    "call:current/ok/con=0", "call:current/ok/con=1", "call:current/fail/con=0", "call:current/fail/con=2",
    "call:db-changed", "call:volunteered-key-stored", "call:other-key-held-while-sources-differ")


def _replay(ctx, tag, records, counts, also_stub=False):
    if not records:
        raise MachineryError("KeyLife_gen %s emitted no behaviour (dead generator)" % tag)
    _census(records, counts)
    ctx.replay_and_compare("x02life", records, pkg="x02")
    if also_stub:
        # the same behaviours with scripted KeyFetchers in place of the real Direct / Perspective fetchers
        ctx.replay_and_compare("x02life", records, args=["-mode", "stub"], pkg="x02")
    return len(records)


def run(ctx):
    ctx.assumptions += [
        "ed25519 is unforgeable; keys are real ed25519 pairs derived from the seed, key responses are really "
        "signed by the origin's current key (and by the notary), messages carry real signatures; a 'forged' "
        "request is signed with a key the origin never published",
        "no clock hook: a tick is 7 days; every valid_until_ts / expired_ts / request timestamp lies on a tick and "
        "the real clock half a tick (3.5 days) after tick `now`, so every comparison the library makes against "
        "time.Now() (now < valid_until_ts, the 7-day cap of StrictValiditySignatureCheck) has a margin of 3.5 days",
        "time passes by re-basing: the key ring keeps no state but its KeyDatabase, which is scripted and holds "
        "abstract entries; after a tick everything it returns (and everything origin / notary serve) is realised "
        "relative to the new tick - the real clock itself is not advanced",
        "the key database is a plain upsert store that answers only for the names it is asked for; no database errors "
        "(those are C12's)",
        "one origin server, one message with one signature per VerifyJSONs call (batches, several key IDs per "
        "message, unsupported algorithms are C12's); a key ID is never reused for other key material",
        "reading: lenient rooms (v1-v4) do not enforce valid_until_ts; the asked key's entry, when neither expired nor "
        "inside its validity, is replaced by the first fetcher answer even if that answer is older (documented "
        "refresh); keys volunteered for other key IDs may only add knowledge (expired_ts, later valid_until_ts)",
        "the notary may answer with a stale but genuinely origin-signed copy, in mode 'any' whatever key ID it is "
        "asked for (Matrix: 'the notary server may return multiple keys regardless of the Key IDs given')",
    ]
    ctx.exhaustive = True
    ctx.notes["rule"] = (
        "cover: every transition (reachable state x Verify request) of KeyLife.tla within the cfg bounds, one behaviour "
        "from the initial state per transition; paths: every complete behaviour (commuting environment steps in one "
        "order) within tighter bounds. distinct = distinct classes of the last call (result, database entry held vs "
        "request, rule, fetchers contacted, fetcher order, notary mode, database change)")
    quick = ctx.tier == "quick"
    counts = collections.Counter()
    total = 0
    ctx._spec_dir()
    ctx.harness_build(pkg="x02")

    # design-level check of the store rule the implementation uses (expected: refuted; TLC stops at the first
    # counterexample, so its state counts are not part of the coverage figures)
    states0, trans0 = ctx.states, ctx.transitions
    ab = ctx.tlc("KeyLife_gen", "KeyLife_asbuilt.cfg", workers=4, timeout=600, allow_violation=True,
                 expect_records=False)
    ctx.notes["as_built_store_rule"] = (
        "TLC refutes %s for StoreRule=asbuilt (a volunteered stale copy revives a retired key)" % ab.violated
        if ab.violated else "StoreRule=asbuilt satisfies RetiredForGood within KeyLife_asbuilt.cfg")
    del ab
    ctx.states, ctx.transitions = states0, trans0

    if quick:
        jobs = [("cover", "KeyLife_gen_quick.cfg"), ("paths", "KeyLife_gen_paths_quick.cfg")]
        with concurrent.futures.ThreadPoolExecutor(max_workers=len(jobs)) as ex:
            futs = [ex.submit(ctx.tlc, "KeyLife_gen", cfg, max(2, ctx.workers // 2), 900) for _, cfg in jobs]
            results = [f.result() for f in futs]
        ctx.states = states0 + sum(r.distinct for r in results)
        ctx.transitions = trans0 + sum(r.generated for r in results)
        for (tag, _), r in zip(jobs, results):
            total += _replay(ctx, tag, r.records, counts)
            r.records = None
    else:
        for tag, cfg in (("cover", "KeyLife_gen_thorough.cfg"), ("cover-wide", "KeyLife_gen_wide_thorough.cfg"),
                         ("cover-deep", "KeyLife_gen_deep_thorough.cfg"),
                         ("paths", "KeyLife_gen_paths_thorough.cfg")):
            r = ctx.tlc("KeyLife_gen", cfg, timeout=1500)
            total += _replay(ctx, tag, r.records, counts, also_stub=(tag == "cover-deep"))
            del r
    ctx.notes["behaviours_replayed"] = total
    ctx.notes["step_census"] = {k: counts[k] for k in sorted(counts)}
    missing = [k for k in REQUIRED if not counts[k]]
    if missing:
        raise MachineryError("vacuous generation: no emitted behaviour contains %s" % ", ".join(missing))
