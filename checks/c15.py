"""C15 - join, leave and invite handshakes admit only well-formed, authorised requests.

spec -> code
  Handshake.tla / Handshake_gen.tla, guard products: for every handler (HandleMakeJoin, HandleMakeLeave,
  HandleSendJoin, HandleInvite) every combination of the request / event / signature / querier classes of its
  families is concretised (real events signed with real ed25519 keys, a real KeyRing over a scripted key database,
  scripted queriers) and run through the real handler (harness c15prod): accepted vs refused, the error class
  where one conjunct alone fails and the specification names it, the template resp. the local signature on the
  returned event and its equality with the submitted one.
  End-to-end: every behaviour of Handshake!Spec within the bounds (Forge actions on the messages in flight) is
  replayed with J's real PerformJoin wired to R's real HandleMakeJoin / HandleSendJoin through an in-process
  FederatedJoinClient that applies the forgeries (c15e2e); make_leave and invite as request / response pairs.
code -> spec
  The end-to-end runs chosen by TLC and seeded random runs over a wider vocabulary (all room versions, up to four
  forgeries: c15rec) are recorded, one line per action, and validated by Handshake_trace.tla, which carries the
  abstract state of Handshake.tla from line to line.
ownership
  "The user / sender belongs to the requesting server" compares exact server names (Handshake!Ownership: own / casevar /
  other).  K is a server named like J in another letter case ("J.TEST"), with its own keys: requests of K for J's user, of J
  for K's user (refused by every handler), of K for its own user (accepted), events signed only under the case partner's name.
identities
  R's tables (membership, pending invites, membership of the allowed rooms) are keyed by the identity a member has in
  the room, its sender ID; the scripted queriers answer per key (the facts of the scenario under the member's sender ID,
  sc.oth under its user ID - another string in a pseudo-ID room - and under every other member).  Handshake!AskKey is the
  design decision (every question is put under the member's sender ID); the designs that ask under the user ID or under
  another member (Handshake_fault_*.cfg) must be refuted by TLC (FAULTS)."""
import json
import os
import sys

from vlib.core import MachineryError

FAMILIES = ["mj_basic", "mj_restricted", "mj_qerr", "ml", "sj_shape", "sj_trust", "inv", "inv_same", "inv3", "sj_keys", "inv_keys",
            "mjv", "mlv", "sjv", "invv", "sj_pseudo", "sj_env", "inv_env"]


# planted design faults (cfg, the invariant TLC must refute): the handlers ask R's tables under another identity
FAULTS = [("sj_uid", "SendJoinExact"), ("inv3_uid", "InviteV3Exact"), ("mj_uid", "TemplateAuthoriser"),
          ("sj_peer", "OtherIdentitiesIrrelevant")]


def _runs(path):
    """trace file -> list of (first lineno, [records])"""
    runs = []
    with open(path) as f:
        for n, line in enumerate(f, 1):
            line = line.strip()
            if not line:
                continue
            rec = json.loads(line)
            if rec["a"] == "begin":
                runs.append((n, []))
            if not runs:
                raise MachineryError("trace %s does not start with a begin line" % path)
            runs[-1][1].append(rec)
    return runs


def _trace_info(out):
    for line in out.splitlines():
        line = line.strip()
        if line.startswith('"TRACE_INFO '):
            return json.loads(json.loads(line)[len("TRACE_INFO "):])
    return []


def _key(flow, info, line):
    a = info["a"]
    want = info.get("want", "")
    why = "+".join(sorted(info.get("why", []))) or "none"
    got = line.get("res", line.get("pj", ""))
    if want == "refused" and got == "ok":
        return "C15/trace/%s/%s/accepted-but-must-refuse/failing=%s" % (flow, a, why)
    if want == "ok" and got == "refused":
        return "C15/trace/%s/%s/refused-but-every-conjunct-holds/%s" % (flow, a, line.get("code", ""))
    if want == "not-enabled":
        return "C15/trace/%s/%s/not-a-step-of-the-protocol" % (flow, a)
    if a in ("SendJoinResp", "InviteResp") and got == "ok":
        return "C15/trace/%s/%s/returned/%s" % (flow, a, "event-modified" if line.get("rsig") else "no-valid-local-signature")
    return "C15/trace/%s/%s/observation-not-explained" % (flow, a)


def _validate(ctx, trace, tag):
    """validate one recorded trace; rejected runs are re-executed in a fresh process and validated again"""
    with open(trace) as f:
        nlines = sum(1 for x in f if x.strip())
    if nlines == 0:
        raise MachineryError("empty trace %s (dead recorder)" % trace)
    ok, rejected, out = ctx.tlc_trace("Handshake_trace", "Handshake_trace.cfg", trace, timeout=1500)
    ctx.evaluations += nlines
    ctx.traces_validated += nlines - len(rejected)
    runs = _runs(trace)
    if len(ctx.samples) < 8:
        ctx.samples.append({"trace_run": runs[len(runs) // 2][1][:6], "module": "Handshake_trace", "from": tag})
    for _, lines in runs:
        ctx.nontrivial.add("trace:" + lines[0]["flow"] + "|" + "|".join(
            "%s.%s=%s%s" % (f["at"], f["f"], f["v"], "(r)" if f["resign"] else "") for f in lines[0]["forges"])
            + "|" + "|".join("%s:%s" % (x["a"], x.get("res", x.get("built", ""))) for x in lines[1:] if x["a"] not in ("Forge",) and not x["a"].endswith("Req")))
    if not rejected:
        return
    starts = [s for s, _ in runs]

    def run_of(lineno):
        i = max(k for k, s in enumerate(starts) if s <= lineno)
        return i

    bad_runs = sorted(set(run_of(n) for n in rejected))
    plans = [runs[i][1][0] for i in bad_runs]
    pin = os.path.join(ctx.scratch, "c15_%s_rejected_plans.ndjson" % tag)
    with open(pin, "w") as f:
        for p in plans:
            f.write(json.dumps({"flow": p["flow"], "sc": p["sc"], "forges": p["forges"]}, separators=(",", ":")) + "\n")
    again = os.path.join(ctx.scratch, "c15_%s_again.ndjson" % tag)
    res = ctx.harness("c15rec", args=["-in", pin, "-out", again], pkg="c15")     # fresh process
    panicked = {r["i"]: r for r in res if not r.get("ok", True)}
    ok2, rej2, out2 = ctx.tlc_trace("Handshake_trace", "Handshake_trace.cfg", again, timeout=1500)
    info2 = {i["l"]: i for i in _trace_info(out2)}
    runs2 = _runs(again)
    starts2 = [s for s, _ in runs2]
    firstbad = {}
    for n in rej2:
        k = max(j for j, s in enumerate(starts2) if s <= n)
        firstbad.setdefault(k, n)
    if len(runs2) + len(panicked) < len(plans):
        raise MachineryError("re-execution of %d rejected runs produced %d runs" % (len(plans), len(runs2)))
    groups = {}
    # runs2 are numbered by their position among the plans (run field = index + 1)
    byrun = {lines[0]["run"]: (k, lines) for k, (_, lines) in enumerate(runs2)}
    for idx, plan in enumerate(plans):
        if idx in panicked:
            key = "C15/trace/%s/panic" % plan["flow"]
            groups.setdefault(key, []).append((plan, [], panicked[idx].get("what", "panic")[:1500]))
            continue
        if (idx + 1) not in byrun or byrun[idx + 1][0] not in firstbad:
            raise MachineryError("rejected trace run (first line %d of %s) did not reproduce in a fresh process: %s"
                                 % (starts[bad_runs[idx]], tag, json.dumps(plan)[:400]))
        k, lines = byrun[idx + 1]
        n = firstbad[k]
        line = lines[n - starts2[k]]
        inf = info2.get(n, {"a": line["a"], "want": "", "why": []})
        key = _key(plan["flow"], inf, line)
        what = ("%s: the specification derives %s (failing: %s), the recorded run shows %s"
                % (inf["a"], inf.get("want") or "another observation", ",".join(inf.get("why", [])) or "-",
                   json.dumps({x: line[x] for x in line if x not in ("run", "a")})[:400]))
        groups.setdefault(key, []).append((plan, lines, what))
    for key, items in sorted(groups.items()):
        plan, lines, what = items[0]
        ctx.disagree(key, what, {"harness": "c15rec", "pkg": "c15", "plan": plan, "lines": lines, "count": len(items)})


def run(ctx):
    quick = ctx.tier == "quick"
    ctx.assumptions += [
        "ed25519 is unforgeable and SHA-256 collision free: a third party cannot produce a signature of a server; "
        "a forger that re-signs is the (malicious) server of the event's sender",
        "reading of the property: each handler's conjunct list is taken as exact (accepted iff every conjunct holds) "
        "inside the modelled vocabulary; the 'if' direction keeps the replay from being vacuous",
        "HandleInvite has no request origin and no event ID among its inputs: 'sender belongs to the requesting "
        "server' and 'validly signed by that server' collapse to 'validly signed by the sender's server'; the event-ID "
        "conjunct applies to send_join only",
        "the auth-rule conjunct of make_join / make_leave and the federation-response checks use a compact oracle for a "
        "user's own join / leave (DESIGN.md 5.1 A1, A5, A7, A14 included); join rules a room version does not know are not generated",
        "pseudo-ID rooms (org.matrix.msc4014): make_join / make_leave run against a room state built with per-room keys "
        "and signed mxid_mappings, send_join through the family sj_pseudo (mapping ok / missing / unsigned / signed with the "
        "wrong key / signed only by another server: 'the sender belongs to the requesting server, which that server has validly "
        "signed' is read as: by a mapping that server signed), HandleInviteV3 through inv3; PerformJoin / PerformInvite end to end "
        "are driven for the 15 room versions whose sender IDs are user IDs; join_authorised_via_users_server is not used in "
        "pseudo-ID send_joins (the library has no pseudo-ID reading of it)",
        "identities: the membership / pending-invite / allowed-room tables of the resident server are keyed by sender ID; 'the "
        "target', 'the user' of the property is the member as the room knows it (the join's sender = state key, the invited "
        "user's sender ID): rows under the member's user ID (pseudo-ID rooms) or under other members decide nothing",
        "a failing verifier, membership querier or room querier leaves a conjunct unestablished: the request must be refused "
        "(membership querier: only where the conjunct needs it - a known room for invites); HandleMakeJoin's user-ID querier and "
        "the invite handler's state querier are always answering",
        "every handler call of the guard products is made twice with the very same input objects: both calls must give the same class",
        "invite: a room the local server does not know has no membership for the invited user; the stripped state either "
        "comes with the request (create + join rules) or is taken from a state querier that knows those events; no conjunct "
        "depends on which",
        "a UserIDForSender answer of (nil, nil) is a legal querier answer (the library itself tests for it elsewhere): the "
        "handlers must refuse, not panic",
        "no clock hook: harness events are dated 2023, keys are valid until now + 48 h (the 'expired' class: until before the "
        "event's timestamp); PerformJoin dates its event with the real clock, more than a day inside the validity",
    ]
    ctx.exhaustive = True
    ctx.notes["hardening"] = ("per-version families mjv/mlv/sjv/invv/inv3 and one-forgery end-to-end runs over all 16 resp. 15 registered "
                              "room versions in the quick tier; empty vs absent lists; key-validity boundaries; several signatures; "
                              "retries; near-coincident server names; ownership own / other / case variant (K = J's name in another letter case, both ways "
                              "round, in mjv / mlv / sjv; a signature only under the case partner's name in sjv / invv: CaseVariantIsAnotherServer); content without effect; failing queriers and key ring; "
                              "PerformInvite wired to HandleInvite; queriers keyed by identity (sender ID / user ID / other member) with opposite rows")
    ctx.notes["rule"] = (
        "guard products: every scenario of the Handshake_gen families %s within the cfg bounds (each parameter 2-6 classes, all "
        "combinations per family, room versions %s); end-to-end: every behaviour of Handshake!Spec with at most 2 Forge actions%s; "
        "trace: those runs (quick: every third; three-forgery runs: every eighth) plus seeded random runs (all room versions, <= 4 forgeries). distinct = distinct (handler, verdict, "
        "failing conjunct set, error class) classes resp. distinct (flow, forgeries, outcome sequence) behaviours"
        % (FAMILIES, "1,10 (restricted: 10,12; send_join trust and invite products: 10)" if quick else "1,2,3,6,7,8,9,10,11,12",
           " in room version 10" if quick else " in room versions 1,6,10,11,12 and with at most 3 in room version 10"))
    total = 0

    def e2e(records, tag, step):
        # replayed and compared step by step; every step-th run is also recorded and validated (code -> spec)
        t1 = os.path.join(ctx.scratch, "c15_%s_trace.ndjson" % tag)
        ctx.replay_and_compare("c15e2e", records, args=["-out", t1, "-mode", step], pkg="c15")
        _validate(ctx, t1, tag)

    if quick:
        # one TLC run enumerates every product family and the end-to-end behaviours (<= 2 forgeries, room version 10)
        r = ctx.tlc("Handshake_gen", "Handshake_gen_all_quick.cfg", timeout=1500)
        prods = [x for x in r.records if x["flow"] == "product"]
        runs = [x for x in r.records if x["flow"] != "product"]
        fams = set(x["fam"] for x in prods)
        if fams != set(FAMILIES):
            raise MachineryError("product families generated: %s" % sorted(fams))
        ctx.replay_and_compare("c15prod", prods, pkg="c15")
        e2e(runs, "tlc0", 3)
        total += len(r.records)
    else:
        for fam in FAMILIES:
            r = ctx.tlc("Handshake_gen", "Handshake_gen_%s_%s.cfg" % (fam, ctx.tier), timeout=1500)
            ctx.replay_and_compare("c15prod", r.records, pkg="c15")
            total += len(r.records)
        # end-to-end behaviours chosen by TLC, also every behaviour with three forgeries in one room version
        for n, (cfg, step) in enumerate([("e2e", 1), ("e2e3", 8)]):
            r = ctx.tlc("Handshake_gen", "Handshake_gen_%s_%s.cfg" % (cfg, ctx.tier), timeout=1500)
            e2e(r.records, "tlc%d" % n, step)
            total += len(r.records)
    ctx.notes["scenarios_replayed"] = total
    # design check: asking the tables under another identity than the member's sender ID is refuted by the property
    faults = [FAULTS[ctx.seed % len(FAULTS)]] if quick else FAULTS
    for name, inv in faults:
        fr = ctx.tlc("Handshake_gen", "Handshake_fault_%s.cfg" % name, allow_violation=True, expect_records=False, workers=2, timeout=600)
        if fr.violated != inv:
            raise MachineryError("planted design fault %s: TLC should refute %s, it reports %s" % (name, inv, fr.violated))
    ctx.notes["planted_model_faults_refuted"] = ["%s->%s" % f for f in faults]
    # seeded random runs beyond the TLC bounds
    n = 1000 if quick else 25000
    t2 = os.path.join(ctx.scratch, "c15_rec_trace.ndjson")
    res = ctx.harness("c15rec", args=["-out", t2, "-n", n], pkg="c15")
    for p in res:
        if not p.get("ok", True):
            again = ctx.harness("c15rec", args=["-out", t2 + ".again", "-n", n], pkg="c15")
            if not any((not q.get("ok", True)) and q.get("key") == p.get("key") for q in again):
                raise MachineryError("panic while recording did not reproduce: %s" % json.dumps(p)[:400])
            ctx.disagree(p.get("key", "C15/rec/panic"), p.get("what", "panic")[:2000],
                         {"harness": "c15rec", "pkg": "c15", "plan": p.get("extra"), "count": 1})
            break
    _validate(ctx, t2, "rec")


def replay(ctx, rp):
    """bin/check C15 --replay <file>: re-execute one stored disagreement against the current tree."""
    pl = rp["payload"]
    if "record" in pl:
        res = [r for r in ctx.harness(pl["harness"], [pl["record"]], args=pl.get("args"), pkg="c15") if "i" in r]
        print("record :", json.dumps(pl["record"]))
        print("stored :", json.dumps(pl["result"])[:2000])
        print("now    :", json.dumps(res[0] if res else None)[:2000])
        bad = bool(res) and not res[0].get("ok")
    else:
        plan = pl["plan"]
        pin = os.path.join(ctx.scratch, "c15_replay_plan.ndjson")
        with open(pin, "w") as f:
            f.write(json.dumps({"flow": plan["flow"], "sc": plan["sc"], "forges": plan.get("forges", [])}) + "\n")
        out = os.path.join(ctx.scratch, "c15_replay_trace.ndjson")
        res = ctx.harness("c15rec", args=["-in", pin, "-out", out], pkg="c15")
        panicked = [r for r in res if not r.get("ok", True)]
        print("plan   :", json.dumps(plan))
        if panicked:
            print("now    : panic", panicked[0].get("what", "")[:1500])
            bad = True
        else:
            ok, rejected, tout = ctx.tlc_trace("Handshake_trace", "Handshake_trace.cfg", out)
            with open(out) as f:
                for n, line in enumerate(f, 1):
                    print("  %s %3d %s" % ("!!" if n in rejected else "  ", n, line.strip()[:300]))
            print("info   :", json.dumps(_trace_info(tout)))
            bad = not ok
    if bad:
        print("VIOLATION property=%s replay=%s" % (ctx.pid, os.path.abspath(sys.argv[-1])))
        return 1
    return 0
