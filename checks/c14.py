"""C14 - only events that pass signature and auth checks leave federation verification.

FedVerify.tla gives, from the property sentence, the exact outcome of CheckStateResponse, CheckSendJoinResponse,
VerifyEventAuthChain, VerifyAuthRulesAtState and EventsLoader.LoadAndVerify for a room history built by honest
servers (Room.tla), a response taken from it, a fault per event (bad signature, disallowed by its auth events,
missing from the response, wrong room, not a state event, duplicate (type, state_key) / duplicated input, malformed
JSON) and a behaviour of the caller's event provider per event ID (returns it, returns nothing, errors).
FedVerify_gen.tla enumerates the scenarios (TLC checks the property invariants on every one of them) and prints one
record each; harness/cmd/c14 materialises the room with real events (real EventBuilder, real ed25519 keys per
server, real event IDs), runs the real functions over a real KeyRing and scripted providers, and compares returned ID
sets, error / no error, per-input classes and the provider call log (as sets).  LineariseStateResponse is checked on
the same responses (a permutation of the distinct events, every event after its auth events)."""
import os
from concurrent.futures import ThreadPoolExecutor

PKG = "c14"

INVARIANTS = ("NothingBadPassedOn NothingGoodLost WholeResponseFailure SendJoinOnlyIfAllowed HonestAccepted "
              "BadNeverVerifies AskBounds FetchedWhicheverCall BackfillBounds Emit")


def cfg_text(kind, start, ver, maxfree, maxfaults, pairfrom, sim, simfaults):
    return ("SPECIFICATION GSpec\nCONSTANTS\n  Start = %d\n  Ver = \"%s\"\n  MaxFree = %d\n  ForkFrom = 5\n"
            "  TSChoices = {1}\n  IdDesc = FALSE\n  Dishonest = FALSE\n  MaxBad = 0\n  Addl = {}\n  Kind = \"%s\"\n  MaxFaults = %d\n  PairFrom = %d\n  Sim = %s\n"
            "  SimFaults = %d\nINVARIANTS %s\nCHECK_DEADLOCK FALSE\n"
            % (start, ver, maxfree, kind, maxfaults, pairfrom, "TRUE" if sim else "FALSE", simfaults, INVARIANTS))


# every registered room version but org.matrix.msc4014 (pseudo IDs: senders are keys, user IDs come from
# mxid_mapping in the member events - the room model of Room.tla and the harness cannot carry that)
VERSIONS = ["1", "2", "3", "4", "5", "6", "7", "8", "9", "10", "11", "12",
            "org.matrix.msc3667", "org.matrix.msc3787", "org.matrix.hydra.11"]

SIM_WORKERS = 4
SIM_TRACES = 120
SIM_DEPTH = 14


def plans(tier):
    """(kind, Start, version, MaxFree, MaxFaults, PairFrom, simulated traces (0 = exhaustive), SimFaults)"""
    P = []
    if tier == "quick":
        # every operation for every registered room version (event formats v1 / v2 / v3+, domainless room IDs,
        # the unstable identifiers): the room of the first creation prefix, every single deviation
        P += [("all", 1, ver, 0, 1, 1, 0, 0) for ver in VERSIONS]
        P += [("state", 1, "10", 1, 1, 1, 0, 0),       # every room with one more event x every single fault
              ("state", 1, "12", 0, 2, 1, 0, 0),       # the base room x every fault pair
              ("sendjoin", 1, "12", 1, 1, 1, 0, 0),
              ("chain", 1, "10", 1, 2, 1, 0, 0),
              ("atstate", 1, "10", 1, 1, 1, 0, 0),
              ("load", 1, "12", 1, 1, 1, 0, 0),
              ("load", 2, "10", 0, 2, 7, 0, 0),
              # RequestBackfill over two servers, the event provider failing transiently during the first round
              ("backfill", 1, "10", 1, 1, 1, 0, 0),
              ("backfill", 1, "12", 0, 1, 1, 0, 0),
              ("backfill", 1, "1", 0, 1, 1, 0, 0)]
        return P
    for ver in ("10", "12"):
        P += [("sendjoin", 1, ver, 1, 2, 1 if ver == "10" else 6, 0, 0),
              ("chain", 1, ver, 1, 2, 1, 0, 0),
              ("chain", 2, ver, 1, 2, 1, 0, 0),
              ("atstate", 1, ver, 1, 1, 1, 0, 0),
              ("atstate", 2, ver, 1, 1, 1, 0, 0),
              ("load", 1, ver, 1, 2, 7, 0, 0)]        # pairs: one of the two is the newest event
    P += [("state", 1, "10", 1, 2, 1, 0, 0),          # every pair
          ("state", 1, "12", 1, 2, 7, 0, 0),
          ("state", 1, "12", 0, 2, 1, 0, 0),
          ("state", 2, "10", 1, 2, 9, 0, 0),
          ("state", 2, "12", 1, 1, 1, 0, 0),
          ("state", 2, "12", 0, 2, 7, 0, 0),
          ("sendjoin", 2, "10", 1, 2, 7, 0, 0),
          ("sendjoin", 2, "12", 1, 1, 1, 0, 0),
          ("load", 2, "12", 1, 1, 1, 0, 0),
          ("load", 2, "10", 0, 2, 7, 0, 0),
          ("backfill", 1, "10", 1, 2, 7, 0, 0),
          ("backfill", 2, "12", 1, 1, 1, 0, 0),
          ("backfill", 1, "1", 1, 1, 1, 0, 0)]
    # every operation for every registered room version, second creation prefix, single deviations
    P += [("all", 2, ver, 0, 1, 1, 0, 0) for ver in VERSIONS]
    # the other event formats / rule sets, single faults
    for ver in ("1", "6", "11"):
        P += [("state", 1, ver, 1, 1, 1, 0, 0),
              ("sendjoin", 1, ver, 1, 1, 1, 0, 0),
              ("atstate", 1, ver, 1, 1, 1, 0, 0),
              ("load", 1, ver, 1, 1, 1, 0, 0)]
    # larger fault subsets (3..4 deviations) on rooms with two more events (forks and merges), simulated:
    # SIM_TRACES random rooms per plan, about a dozen random scenarios in each
    for kind in ("state", "sendjoin", "chain", "atstate", "load"):
        P += [(kind, 1, "10", 2, 2, 1, SIM_TRACES, 4),
              (kind, 2, "12", 2, 2, 1, SIM_TRACES, 4)]
    return P


def run(ctx):
    ctx.assumptions += [
        "ed25519 signatures are unforgeable; a bad signature is a corrupted, foreign-key, missing or all-zero signature "
        "of the sender's server",
        "the caller's event provider answers a request for an event ID with that event, with nothing or with an error, "
        "never with a different event (on such an answer checkAllowedByAuthEvents does not terminate: outside the "
        "property's provider behaviours)",
        "events were sent in 2020 and the keys are valid for 1000 days from now: no outcome depends on the wall clock",
        "an event of another room that cites a create event of that other room is not at fault for the sentence "
        "(it is allowed by its auth events); the room of a response as a whole is not checked by these functions",
        "where the sentence is silent nothing is demanded: the order of returned lists, error texts, how often the "
        "provider is asked, and which events RequestBackfill passes on among those failing only the signature check",
    ]
    ctx.exhaustive = True
    ctx.notes["rule"] = (
        "every room reachable in Room.tla within the plan (creation prefix Start, MaxFree more events) x the operation's "
        "input taken from the room x every assignment of faults / provider behaviours to at most MaxFaults events "
        "(pairs: the kinds that interact through auth relations, at least one event with id >= PairFrom) x every "
        "behaviour of the provider for the IDs that can be asked; simulated plans: random rooms with two more events and "
        "3..4 deviations; distinct = (operation, version, multiset of (deviation, event type), outcome, concrete fault shapes)")
    ps = plans(ctx.tier)
    ctx.notes["plans"] = [list(p) for p in ps]
    d = ctx._spec_dir()
    jobs = []
    for n, p in enumerate(ps):
        cfg = "FedVerify_gen_%s_%d.cfg" % (ctx.tier, n)
        with open(os.path.join(d, cfg), "w") as f:
            f.write(cfg_text(*p[:6], sim=p[6] > 0, simfaults=p[7] or 3))
        jobs.append((p, cfg))

    par = 5 if ctx.tier == "quick" else 3      # the quick plans are many small runs
    per = max(2, ctx.workers // par)

    def one(job):
        p, cfg = job
        if p[6] > 0:
            return ctx.tlc("FedVerify_gen", cfg, workers=SIM_WORKERS, timeout=1500, simulate=max(1, p[6] // SIM_WORKERS), depth=SIM_DEPTH)
        return ctx.tlc("FedVerify_gen", cfg, workers=per, timeout=1500)

    with ThreadPoolExecutor(max_workers=par) as ex:
        results = list(ex.map(one, jobs))
    if any(p[6] > 0 for p in ps):
        ctx.notes["simulated"] = "plans with a trace count are random samples (seeded), the others are exhaustive"
    seen = set()
    recs = []
    import json
    for r in results:
        for rec in r.records:
            k = json.dumps(rec, sort_keys=True)
            if k not in seen:
                seen.add(k)
                recs.append(rec)
    ctx.log("replaying %d distinct records" % len(recs))
    ctx.replay_and_compare("c14", recs, pkg=PKG)
