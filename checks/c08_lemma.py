"""C08, supplementary: the design-level lemma "the power-levels rule implies no escalation" over UNBOUNDED integers.

spec/PLLemma.tla restates Auth.tla's R10_PowerLevels and NoEsc over arbitrary integer levels (presence flags
instead of the -1 sentinel, the defaults 0 / 50, an "above every integer" flag for privileged creators) and
Apalache discharges, symbolically over ALL integer contents (--length=0: the initial-state predicate ranges over
them):

  * H_Lemma                  rule accepts => NoEsc, for a free sender level and for the one the state gives  (must hold)
  * X_NotAccepting* / X_NotRejecting   non-vacuity witnesses                                          (must be refuted)
  * X_<fault>                the lemma's clause each planted weakening of the rule breaks             (must be refuted)
  * H_InfIsTwo53             "above every integer" and 2^53 (departure A2) are indistinguishable for levels that
                             are canonical-JSON integers (must hold; X_InfNoBound: not without that bound)
  * OrderOnly_*              verdicts depend only on the order of the integers involved (why ranks are exact)
                                                                                                      (must hold)

spec/PLLemma_bridge.tla (TLC) evaluates, on every power-levels scenario of the Auth_gen.tla families and of an
exhaustive three-key product, Auth.tla's operators on ranks and PLLemma.tla's on the integers the ranks denote
under four monotone ladders and requires equal verdicts - so the two statements cannot drift apart.

The lemma is SUPPLEMENTARY: nothing here is ever a verdict.  A failure, timeout or refuted obligation is logged
and shows as discharged < obligations in the returned dict; no exception leaves run_lemma().
"""
import json
import os
import re
import shutil
import subprocess
import time
from concurrent.futures import ThreadPoolExecutor

from vlib.core import MachineryError

# (operator, expectation) in the order they are passed to --inv: Apalache reports them by position
MAIN_OBLIGATIONS = [
    ("H_Lemma", "holds"),
    ("H_InfIsTwo53", "holds"),
    ("X_NotAccepting", "violated"),
    ("X_NotAcceptingFirst", "violated"),
    ("X_NotAcceptingInf", "violated"),
    ("X_NotRejecting", "violated"),
    ("X_no_users_default", "violated"),
    ("X_new_side_only", "violated"),
    ("X_no_effective_events", "violated"),
    ("X_notif_unchecked", "violated"),
    ("X_other_user_le", "violated"),
    ("X_no_user_removal", "violated"),
    ("X_creators_named", "violated"),
    ("X_parse_any", "violated"),
    ("X_InfNoBound", "violated"),
]
ORDER_OBLIGATIONS = [("OrderOnly_R10", "holds"), ("OrderOnly_NoEsc", "holds"), ("OrderOnly_Inf", "holds")]

# the Fault value each refutation is about (the counterexample files are matched to obligations through it)
FAULT_OF = {"X_NotAccepting": "w_accepting", "X_NotAcceptingFirst": "w_first", "X_NotAcceptingInf": "w_inf",
            "X_NotRejecting": "w_rejecting", "X_InfNoBound": "w_two53"}
for _n, _e in MAIN_OBLIGATIONS:
    if _n.startswith("X_") and _n not in FAULT_OF:
        FAULT_OF[_n] = _n[2:]

BRIDGE_INVS = "BridgeAgree RankLemma"


def _timeout():
    try:
        return max(60, int(os.environ.get("VERIF_LEMMA_TIMEOUT", "600")))
    except ValueError:
        return 600


# ------------------------------------------------------------------------------------------------ Apalache
def _itf_int(x):
    if isinstance(x, dict) and "#bigint" in x:
        return int(x["#bigint"])
    return x


def _itf_content(c, old=False):
    out = {}
    for g in ("scalar", "events", "notif", "users"):
        has = dict((k, v) for k, v in c[g + "Has"]["#map"])
        val = dict((k, v) for k, v in c[g]["#map"])
        for k in sorted(has):
            if has[k]:
                out["%s.%s" % (g, k)] = _itf_int(val[k])
    if not old:   # the spelling / bad-user flags of the CURRENT content are never read
        if c.get("spkind") != "int":
            out["spkind"] = c.get("spkind")
        if c.get("baduser"):
            out["baduser"] = True
    return out


def _witnesses(run_dir):
    """Fault value -> compact description of the counterexample Apalache produced for it."""
    out = {}
    if not os.path.isdir(run_dir):
        return out
    for fn in sorted(os.listdir(run_dir)):
        if not re.match(r"violation\d+\.itf\.json$", fn):
            continue
        try:
            with open(os.path.join(run_dir, fn)) as f:
                s = json.load(f)["states"][-1]
            out[s["Fault"]] = {
                "switches": sorted(k for k, v in s["v"].items() if v is True),
                "NoPLCreatorLevel": _itf_int(s["NoPLCreatorLevel"]),
                "old": _itf_content(s["st"]["c"], old=True) if s["st"]["plPresent"] else None,
                "additional_creators": sorted(s["st"]["addl"].get("#set", [])),
                "sender": s["ev"]["sender"],
                "state_event": s["ev"]["isState"],
                "new": _itf_content(s["ev"]["newpl"]),
            }
        except Exception:   # a witness is a nicety: never let its decoding matter
            continue
    return out


def _apalache(ctx, tag, init, cinit, obligations, multi):
    """One apalache-mc run; returns a list of detail dicts, one per obligation."""
    work = os.path.join(ctx.scratch, "pllemma_" + tag)
    os.makedirs(work, exist_ok=True)
    shutil.copy(os.path.join(ctx._spec_dir(), "PLLemma.tla"), work)
    run_dir = os.path.join(work, "run")
    out_dir = os.path.join(work, "out")
    to = _timeout()
    cmd = ["timeout", str(to), "apalache-mc", "check", "--init=" + init, "--cinit=" + cinit,
           "--inv=" + ",".join(n for n, _ in obligations), "--length=0",
           "--out-dir=" + out_dir, "--run-dir=" + run_dir]
    if multi:
        # keep going after an expected violation; with Fault as the view every obligation yields one counterexample
        cmd += ["--max-error=%d" % (len(obligations) + 2), "--view=View"]
    cmd.append("PLLemma.tla")
    t = time.time()
    log = os.path.join(work, "apalache.log")
    status = "ok"
    try:
        with open(log, "wb") as f:
            p = subprocess.run(cmd, cwd=work, stdout=f, stderr=subprocess.STDOUT)
        rc = p.returncode
    except Exception as e:   # apalache-mc missing, ...
        rc = -1
        status = "could not run apalache-mc: %s" % e
    wall = time.time() - t
    text = ""
    if os.path.exists(log):
        with open(log, "r", errors="replace") as f:
            text = f.read()
    if rc == 124:
        status = "timeout after %ds" % to
    elif rc not in (0, 12) and status == "ok":   # 0: no error, 12: counterexample(s) found
        tail = " | ".join(l.strip()[:160] for l in text.splitlines()[-4:])
        status = "apalache-mc exit code %d: %s" % (rc, tail)
    seen = {}
    for m in re.finditer(r"State 0: state invariant (\d+) (holds|violated)", text):
        i = int(m.group(1))
        if m.group(2) == "violated" or i not in seen:
            seen[i] = m.group(2)
    wit = _witnesses(run_dir) if multi else {}
    details = []
    for i, (name, want) in enumerate(obligations):
        got = seen.get(i)
        d = {"obligation": name, "tool": "apalache", "run": tag, "expect": want, "got": got or status,
             "ok": got == want}
        if got == "violated" and FAULT_OF.get(name) in wit:
            d["witness"] = wit[FAULT_OF[name]]
        details.append(d)
    ctx.log("lemma/%s: apalache %s in %.0fs: %d/%d obligations as expected" %
            (tag, status if status != "ok" else "finished", wall, sum(1 for d in details if d["ok"]), len(details)))
    return details


# ------------------------------------------------------------------------------------------------ TLC bridge
def _bridge_cfg(ctx, name, family, versions, depth, invs):
    cfg = "PLLemma_bridge_%s.cfg" % name
    with open(os.path.join(ctx._spec_dir(), cfg), "w") as f:
        f.write("SPECIFICATION BSpec\nCONSTANTS\n  Versions <- %s\n  Family = \"%s\"\n  PLDepth = \"%s\"\n"
                "INVARIANTS %s\nCHECK_DEADLOCK FALSE\n" % (versions, family, depth, invs))
    return cfg


def _bridge_plan(tier):
    """(family, versions, depth).  Only three switches of a version reach the rule; VersionsQuick covers all four
    combinations that exist, so the big families use it in both tiers."""
    if tier == "quick":
        return [("versions", "VersionsQuick", "small"), ("pl0", "VersionsQuick", "small"),
                ("pl1", "VersionsQuick", "small"), ("pl3", "VersionsQuick", "small"),
                ("prod", "VersionsPL2Quick", "small")]
    return [("versions", "VersionsAll", "small"), ("pl0", "VersionsAll", "small"), ("pl1", "VersionsAll", "small"),
            ("pl3", "VersionsAll", "small"), ("pl2", "VersionsPL2Quick", "small"), ("plnames", "VersionsQuick", "small"),
            ("prod", "VersionsQuick", "full")]


def _bridge_family(ctx, fam, versions, depth, workers):
    name = "%s_%s" % (fam, ctx.tier)
    d = {"obligation": "bridge/" + fam, "tool": "tlc", "expect": "holds", "ok": False,
         "invariants": BRIDGE_INVS, "versions": versions, "depth": depth}
    try:
        cfg = _bridge_cfg(ctx, name, fam, versions, depth, BRIDGE_INVS)
        r = ctx.tlc("PLLemma_bridge", cfg, workers=workers, timeout=max(900, _timeout()), expect_records=False, heap="4g")
        d.update(ok=True, got="holds", scenarios=r.distinct // 2, seconds=round(r.wall, 1))
    except MachineryError as e:
        d["got"] = str(e)[:600]
    except Exception as e:
        d["got"] = "unexpected: %r" % (e,)
    return d


def _bridge_witness(ctx, inv, workers):
    """The bridge's scenarios are not one-sided: `inv` (nothing is accepted / nothing escalates) must be refuted."""
    d = {"obligation": "bridge/" + inv, "tool": "tlc", "expect": "violated", "ok": False}
    try:
        cfg = _bridge_cfg(ctx, "w_" + inv, "pl1", "VersionsQuick", "small", inv)
        r = ctx.tlc("PLLemma_bridge", cfg, workers=workers, timeout=_timeout(), expect_records=False, heap="4g",
                    allow_violation=True)
        d["got"] = "violated" if r.violated == inv else "holds"
        d["ok"] = r.violated == inv
    except MachineryError as e:
        d["got"] = str(e)[:600]
    except Exception as e:
        d["got"] = "unexpected: %r" % (e,)
    return d


# ------------------------------------------------------------------------------------------------ entry point
def run_lemma(ctx, order_lemma=None, bridge=True):
    """Discharge the unbounded-integer lemma (Apalache) and the bridge to the rank model (TLC).

    order_lemma: also discharge OrderOnly_* (a second Apalache run, the most expensive one); default: thorough tier.
    Returns {"obligations": n, "discharged": m, "seconds": t, "details": [...]}; never raises."""
    t0 = time.time()
    details = []
    try:
        if order_lemma is None:
            order_lemma = ctx.tier != "quick"
        ctx._spec_dir()   # the scratch copy of spec/ exists before the threads start
        w = max(2, ctx.workers // 4)
        # the obligations that must hold in a run of their own: they are the point, and they finish first
        hold = [o for o in MAIN_OBLIGATIONS if o[1] == "holds"]
        refute = [o for o in MAIN_OBLIGATIONS if o[1] == "violated"]
        ajobs = [lambda: _apalache(ctx, "lemma", "Init", "CInitAll", hold, False),
                 lambda: _apalache(ctx, "refute", "Init", "CInitAll", refute, True)]
        if order_lemma:
            ajobs.append(lambda: _apalache(ctx, "order", "InitPair", "CInitAny", ORDER_OBLIGATIONS, False))
        bjobs = []
        if bridge:
            for fam, versions, depth in _bridge_plan(ctx.tier):
                bjobs.append(lambda fam=fam, versions=versions, depth=depth:
                             [_bridge_family(ctx, fam, versions, depth, w)])
            for inv in ("NeverAccepts", "NeverEscalates", "NeverRejectsWithNoEsc"):
                bjobs.append(lambda inv=inv: [_bridge_witness(ctx, inv, 2)])

        def guarded(job):
            try:
                return job()
            except Exception as e:
                return [{"obligation": "?", "tool": "?", "expect": "holds", "got": "unexpected: %r" % (e,), "ok": False}]

        # the Apalache runs (the proof) start at once and side by side; the bridge families two at a time next to them
        with ThreadPoolExecutor(max_workers=3) as aex, ThreadPoolExecutor(max_workers=2) as bex:
            fa = [aex.submit(guarded, j) for j in ajobs]
            fb = [bex.submit(guarded, j) for j in bjobs]
            for f in fa + fb:
                details += f.result()
    except Exception as e:
        details.append({"obligation": "?", "tool": "?", "expect": "holds", "got": "unexpected: %r" % (e,), "ok": False})
    out = {"obligations": len(details), "discharged": sum(1 for d in details if d.get("ok")),
           "seconds": round(time.time() - t0, 1), "details": details,
           "statement": "for ALL integer power-levels contents over 7 thresholds, 7 event types, 2 notification keys "
                        "and 4 users (each entry absent or any integer), any current content or none, any sender "
                        "level (finite or above every integer), any no-power-levels creator level and every "
                        "combination of the three version switches: the rule accepts => no escalation"}
    try:
        for d in details:
            if not d.get("ok"):
                ctx.log("lemma: NOT discharged: %s (%s): expected %s, got %s" %
                        (d.get("obligation"), d.get("tool"), d.get("expect"), str(d.get("got"))[:300]))
        ctx.log("lemma (supplementary): %d/%d obligations discharged in %.0fs" %
                (out["discharged"], out["obligations"], out["seconds"]))
    except Exception:
        pass
    return out


if __name__ == "__main__":
    # by hand: cd /verif && python3 -m checks.c08_lemma [quick|thorough] [--keep]   (writes no evidence, exit 0 always)
    import sys
    from vlib.core import Ctx
    _tier = "thorough" if "thorough" in sys.argv[1:] else "quick"
    _ctx = Ctx("C08", _tier, int(os.environ.get("VERIF_SEED", "1") or 1))
    try:
        _res = run_lemma(_ctx, order_lemma=("--no-order" not in sys.argv[1:]))
        print(json.dumps(_res, indent=1))
    finally:
        if "--keep" in sys.argv[1:]:
            print("scratch kept at", _ctx.scratch)
        else:
            _ctx.cleanup()
