"""C04 - untrusted events whose content hash fails surface only their redacted form.

EventIdentity.tla (family `tamper`) <-> NewEventFromUntrustedJSON, Redacted(), JSON(), Content(), the accessors,
EventID(), VerifyJSON / VerifyEventSignatures.

spec -> code: a really built and signed event of every shape and room version is tampered with on the wire by every
enumerated subset T of {change / add a content key outside the keep-list, change a kept content key, change content.third_party_invite.signed, add a top-level
key, change origin, change depth, change unsigned, add age_ts, add outlier + destinations, set event_id} x hash mode
{kept, garbage, re-hashed by the forger, removed, a second algorithm entry added next to sha256}, parsed as untrusted JSON and compared with the specification.
Three wire dimensions on top: a member whose name differs from a protected name only in letter case (or by a non-ASCII letter
that folds to the ASCII one) added next to the genuine member - another name, hence an unknown top-level key no accessor reads; the NAMES of the keys stripped on receipt written with a \\uXXXX escape (the same name: the outcome of the
plain spelling) or in other letter case (another name: an unknown top-level key); and a top-level member written TWICE
(content, type, depth, state_key, event_id, hashes, unsigned, age_ts; the smuggled copy before / after the genuine one; the
hash as built, the forger's for the smuggled copy, or taken over the text with both copies): the parser must hand out one
reading of such a text - unredacted only if that reading's content hash matches, else its redacted form - or refuse it.
A size dimension on top: wire forms LONGER than 65536 bytes whose event proper is not - the small event with 70 KiB, or an
event of 40 KiB with 30 KiB, put into a key stripped on receipt (unsigned, age_ts, destinations, event_id in room versions
3+), into redactable material (a content key off the keep-list changed / added, an extra top-level key), into a kept content
key, into a stripped key and an added content key at once, or between the members as white space: the size limit applies
to the event that SURFACES (stripped keys and white space gone; redacted first if the hash fails) - so the outcome is the
untampered event's / its redaction's, and the size error only where that event is itself over the limit.
code -> spec: seeded random tamperings of random events, re-derived by EventIdentity_trace.tla."""
from checks.c03 import record_and_validate
from vlib.core import MachineryError

PKG = "c03"


def run(ctx):
    ctx.assumptions += [
        "symbolic cryptography: SHA-256 is collision free, ed25519 is unforgeable; real keys derived from fixed seeds",
        "a garbage hash is realised as another well-formed hash, an empty string, a non-base64 string or a `hashes` "
        "object without sha256 (all well-typed JSON: malformed `hashes` values that make the parser fail are not generated)",
        "every record parses the tampered event, then the untampered one, the tampered one again and the untampered one again in one process: the results must not depend on what was parsed before",
        "no keys starting with `_`",
        "variants of the protected names: every name on a keep list (event_id, type, room_id, sender, state_key, content, hashes, "
        "signatures, depth, prev_events, prev_state, auth_events, origin, origin_server_ts, membership) and redacts, written in other "
        "letter case (first / every / last letter in upper case, rotating) or - where it has an s or a k - with U+017F / U+212A in its "
        "place (as UTF-8 or as a \\u escape), is ANOTHER name: one such member, with a value of the member's type, is added right "
        "before / after the genuine member (alone where the event has none) x hash {kept, the forger's}: an unknown top-level key "
        "like any other (the tampering top_add under another name), and the accessors report the genuine members; %s" % (
            "all 16 room versions x all shapes" if ctx.tier == "thorough" else
            "room versions 1, 3, 6, 10, 11, 12, org.matrix.msc4014 x 6 shapes"),
        "spelling dimension: each key stripped on receipt (unsigned, age_ts, outlier + destinations, event_id in room versions 3+) alone "
        "and next to a forged content key%s, its name with one character written as a \\uXXXX escape (position and hex-digit case "
        "rotate) or in other letter case, x hash {kept, garbage, the forger's}, on the event as built; %s" % (
            (", and two / three of them together", "all 16 room versions") if ctx.tier == "thorough" else
            ("", "room versions 1, 3, 6, 10, 11, 12, org.matrix.msc4014")),
        "multiplicity dimension: JSON with a repeated member name is ambiguous (RFC 8259 section 4), so only this is demanded: no panic; "
        "the event handed out (JSON(), every accessor, the batch entry point) is ONE of the two readings (first copy / last copy), "
        "unredacted only if the content hash of that reading matches, else its redacted form; a refusal is accepted. JSON() that still "
        "carries the member twice is not one reading. The hash over the text with both copies is computed over the canonical form with "
        "the two copies in wire order and swapped (of a key stripped on receipt: with only the first / only the last copy removed); "
        "the smuggled copy's name also written with an escape; ID and signatures of such results are not compared; %s" % (
            "all 16 room versions x all shapes" if ctx.tier == "thorough" else
            "room versions 1, 3, 6, 10, 11, 12, org.matrix.msc4014 x 6 shapes (message, empty content, member with third-party invite, create, power levels, redaction)"),
        "size dimension: sizes are ranks in the specification (event 1, the large content value 40, bulk 30 / 70, limit 64 KiB) "
        "and KiB in the harness (40 KiB content string zz_big; bulk as a string value, as unsigned.invite_room_state, as an array "
        "in age_ts, as some 2000 server names in destinations, as 30 / 70 KiB of white space after the opening brace); where the "
        "specification has the event that surfaces over the limit (bulk in a kept content key, in hashed material under the "
        "forger's hash, the 40 KiB create event of room versions 11+ - whose content is kept whole - with added content) the "
        "parser must report EventValidationError{TooLarge, not persistable}; hash {as built, the forger's; garbage with stripped "
        "keys / padding}; message and create event; %s" % (
            "all 16 room versions" if ctx.tier == "thorough" else "room versions 1, 3, 6, 10, 11, 12, org.matrix.msc4014"),
        "VerifyEventSignatures of the parsed event is compared with the untampered event's verdict also where that one "
        "does not verify (invite / restricted join signed by the sender's server only; pseudo-ID member events without "
        "mxid_mapping); exception: room version 8, whose redaction drops join_authorised_via_users_server (repaired by "
        "room version 9) - the redacted form of a restricted join there cannot demand the authorising server's signature",
    ]
    ctx.exhaustive = True
    ctx.notes["rule"] = (
        "every behaviour of the tamper family of EventIdentity.tla: 16 room versions x 12 event shapes x optional "
        "operation before (%s; after a Redact() only tamper sets of at most one element) x tamper sets of at most %d or at least all-but-one applicable elements out of 11 x 5 "
        "hash modes; plus the spelling and the multiplicity dimension (see the assumptions); distinct = distinct (ID format, redaction algorithm, type, tamper set, hash mode, redacted, "
        "same-ID, valid signatures, name spelling, name variant and its position, size of the event / bulk / refused; for a member written twice: member, position, spelling, hash mode, outcome)" % (("none / second signature / Redact", 2) if ctx.tier == "quick"
                                         else ("none / second signature / SetUnsigned / Redact", 3)))
    fams = ["tamper"] if ctx.tier == "quick" else ["tamper", "tamperfull"]
    ctx.notes["constants"] = ", ".join("EventIdentity_gen_%s_%s.cfg" % (f, ctx.tier) for f in fams)
    if ctx.tier == "thorough":
        ctx.notes["rule"] += ("; plus every subset (up to 2^11) of the applicable elements x hash modes for 6 shapes (message, empty "
                              "content, member with restricted-join / third-party-invite content, create, power levels, redaction)")
    for fam in fams:
        r = ctx.tlc("EventIdentity_gen", "EventIdentity_gen_%s_%s.cfg" % (fam, ctx.tier), timeout=2400)
        if fam == "tamper":
            # the generator must contain, for every redaction algorithm, events that are invariant under redaction
            # whose hash was changed / removed (the only thing that tells them apart after parsing is Redacted())
            have = set((x["algo"], x["hm"]) for x in r.records
                       if x["fam"] == "tamper" and x["noop"] and x["red"] and x["hm"] in ("garbage", "remove"))
            missing = [(a, h) for a in range(1, 6) for h in ("garbage", "remove") if (a, h) not in have]
            if missing:
                raise MachineryError("tamper family lost its redaction-invariant events with a bad hash: %s" % missing)
            # ... and both wire dimensions: every stripped key in both spellings, every member twice in both positions
            spelt = set((x["sp"], t) for x in r.records if x["fam"] == "tamper" and x["sp"] != "plain" for t in x["T"])
            want = set((sp, t) for sp in ("esc", "case") for t in ("unsigned", "age_ts", "outdest", "event_id")) - {("case", "event_id")}
            dups = set((x["m"], x["pos"]) for x in r.records if x["fam"] == "dup")
            wantd = set((m, pos) for m in ("content", "type", "depth", "state_key", "event_id", "hashes") for pos in ("before", "after")) \
                | {("unsigned", "before"), ("age_ts", "before")}
            variants = set((x["vk"], x["vs"], x["vpos"], x["hm"]) for x in r.records if x["fam"] == "tamper" and x["vk"])
            names = ("event_id", "type", "room_id", "sender", "state_key", "content", "hashes", "signatures", "depth", "prev_events",
                     "prev_state", "auth_events", "origin", "origin_server_ts", "membership", "redacts")
            wantv = set((k, "case", "before", hm) for k in names for hm in ("keep", "rehash")) \
                | set((k, "case", "after", hm) for k in names if k not in ("membership", "redacts") for hm in ("keep", "rehash")) \
                | set((k, "fold", "after", hm) for k in ("sender", "hashes", "signatures", "prev_events", "auth_events", "origin_server_ts")
                      for hm in ("keep", "rehash"))
            bulk = set((x["proto"]["big"], x["bulk"], t, x["refused"]) for x in r.records if x["fam"] == "tamper" and x["bulk"] != "none"
                       for t in (x["T"] or ["-"]))
            wantb = set((b, k, t, False) for (b, k) in (("none", "bulk70"), ("mid", "bulk30"))
                        for t in ("unsigned", "age_ts", "outdest", "event_id", "con_out_chg", "con_out_add", "top_add")) \
                | {("none", "pad", "-", False), ("mid", "pad", "-", False), ("none", "bulk70", "con_in", True), ("mid", "bulk30", "con_out_add", True)}
            if wantb - bulk:
                raise MachineryError("tamper family lost the size dimension: %s" % sorted(wantb - bulk)[:8])
            if want - spelt or wantd - dups or wantv - variants:
                raise MachineryError("tamper family lost wire dimensions: spellings %s, duplicated members %s, name variants %s"
                                     % (sorted(want - spelt), sorted(wantd - dups), sorted(wantv - variants)[:8]))
        ctx.replay_and_compare("c04", r.records, pkg=PKG)
        del r
    record_and_validate(ctx, "c04", 3000 if ctx.tier == "quick" else 60000, "C04")
