"""C05 - redaction: Redaction.tla <-> IRoomVersion.RedactEventJSON / PDU.Redact() / signature checks.

spec -> code: every scenario of the two Redaction_gen.tla families (raw JSON objects, well-formed signed PDUs)
for all 16 registered room versions is concretised and redacted by the real code; key sets, values, idempotence,
type/sender/room/state key, event ID and signatures are compared with what the specification derives.
code -> spec: seeded random events with random extra keys are redacted by the real code, logged, and the kept key
sets of every line are recomputed by Redaction_trace.tla."""
import os

from vlib.core import MachineryError

PKG = "c05"


def run(ctx):
    ctx.assumptions += [
        "values are opaque to redaction: each key carries one of the value classes std / +-(2^53-1) / string with "
        "< > & U+2028 / nested object / array / null / 0 / \"\" / {} / [] / false / 1E2 (raw JSON only); integers beyond "
        "2^53-1 and non-integer numbers are not exercised",
        "every event has a string `type` and an object `content` (the specification does not say what redaction "
        "does to anything else)",
        "third_party_invite (room version 11 algorithm): what is listed is `signed` inside it, so an object without "
        "`signed` ({} or only other keys) and a non-object are removed altogether, no `third_party_invite: {}` is left "
        "(strict reading of 'keeps exactly ... removes everything else'; the library agrees, some other "
        "implementations leave {})",
        "signatures: real ed25519 keys, events signed with PDU.Sign by the sender's server (two key IDs) and by a "
        "second server; "
        "the signature scheme is assumed unforgeable",
        "keys containing a double quote or a backslash are not generated (canonical JSON of such keys is C01's subject)",
    ]
    ctx.exhaustive = True
    ctx.notes["rule"] = (
        "every scenario of Redaction_gen.tla: 16 room versions x 8 event types (7 protected + other) x presence shapes "
        "over the pool of optional top-level keys and candidate content keys of the type (none, each key alone, each "
        "pair, all but one, all; plus the keys only other types keep: each alone, and all on top of everything; "
        "third_party_invite in 5 nested shapes) x value-class offsets (%s), families raw (each scenario in 3 spellings "
        "of the JSON text) and pdu (depth 0 / origin_server_ts 0 by offset; trusted, untrusted, with-event-ID, headered, "
        "SetUnsigned, already-redacted and EventBuilder.Build entry points); "
        "distinct = distinct (family, algorithm, type, kept top-level set, kept content set, kept nested set)"
        % ("raw: all 12 with the full lattice; pdu: 0-5 full, 6-11 none/singles/all" if ctx.tier == "thorough"
           else "offset 0 with the full lattice (for 6 versions, one per event format x algorithm; the other "
                "10 none/singles/all), offsets 4 and 8 with none/singles/all, the other 9 offsets with the shape all"))
    ctx.notes["constants"] = "Redaction_gen_{raw,pdu}_%s.cfg" % ctx.tier
    for fam in ("raw", "pdu"):
        r = ctx.tlc("Redaction_gen", "Redaction_gen_%s_%s.cfg" % (fam, ctx.tier), timeout=1500)
        ctx.replay_and_compare("c05", r.records, pkg=PKG)
        del r
    record_and_validate(ctx, 4000 if ctx.tier == "quick" else 200000)


def _fresh(ctx, probe):
    out = [r for r in ctx.harness("c05", [probe], pkg=PKG) if "i" in r]   # fresh process
    return out[0] if out else None


def record_and_validate(ctx, n):
    """code -> spec: random events through the real redaction code, validated by Redaction_trace.tla."""
    trace = os.path.join(ctx.scratch, "c05_trace.ndjson")
    res = ctx.harness("c05rec", args=["-out", trace, "-n", n], pkg=PKG)
    for r in res:  # errors / panics while recording: re-executed through the probe carried by the line
        if r.get("ok"):
            continue
        again = _fresh(ctx, r.get("extra"))
        if again is None or again.get("ok"):
            raise MachineryError("failure while recording (%s) did not reproduce in a fresh process" % r.get("key"))
        ctx.disagree(again.get("key", r.get("key", "C05/record")), again.get("what", r.get("what", ""))[:2000],
                     {"harness": "c05", "pkg": PKG, "record": r.get("extra"), "result": again, "count": 1})

    expected = {}
    reported = set()

    def on_reject(rec, lineno):
        if not expected:
            # what the specification derives for every line (one more pass over the trace)
            e = ctx.tlc("Redaction_trace", "Redaction_trace_expect.cfg", workers=1, timeout=900,
                        env={"TRACE_FILE": trace})
            for x in e.records:
                expected[x["line"]] = x
        exp = expected.get(lineno)
        if exp is None:
            raise MachineryError("no expectation emitted for trace line %d" % lineno)
        probe = {"fam": "probe", "ver": rec["ver"], "algo": exp["algo"], "type": rec["type"], "api": rec["api"],
                 "raw": rec["raw"], "top": {}, "con": {}, "tpi": {}, "tpiobj": rec["tpiobj"],
                 "ktop": exp["ktop"], "kcon": exp["kcon"], "ktpi": exp["ktpi"]}
        r0 = _fresh(ctx, probe)
        if r0 is None or r0.get("ok"):
            raise MachineryError("recorded result of trace line %d did not reproduce in a fresh process" % lineno)
        key = r0.get("key", "C05/trace")
        if key in reported:
            return              # one report per canonical scenario
        reported.add(key)
        ctx.disagree(key, r0.get("what", ""), {"harness": "c05", "pkg": PKG, "record": probe, "result": r0, "count": 1})

    ctx.validate_trace("Redaction_trace", "Redaction_trace.cfg", trace, on_reject)
