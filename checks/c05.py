"""C05 - redaction: Redaction.tla <-> IRoomVersion.RedactEventJSON / PDU.Redact() / signature checks.

spec -> code: every scenario of the two Redaction_gen.tla families (raw JSON objects, well-formed signed PDUs)
for all 16 registered room versions is concretised and redacted by the real code; key sets, values, idempotence,
type/sender/room/state key, event ID and signatures are compared with what the specification derives.
Unlisted keys are also drawn from the member names the tree under test itself uses (kind vocab; with the ASCII case
variants and the Unicode fold variants - U+017F for s, U+212A for k - of every listed key), and every observed
redaction is preceded by other calls in the same process, of which it must be independent (kind hist).
Kind route: the event OBJECT route as a state machine - an object made by the trusted / with-event-ID / headered /
untrusted parse from canonical or non-canonical JSON text, with or without an event_id member, then Sign / SetUnsigned /
EventID() / Redact() in every order; after every step JSON(), the signatures, Redacted() and the event ID are compared
with the specification (invariant PRoute: identity unchanged, no signature lost, Redact() = redaction of the current JSON).
code -> spec: seeded random events with random extra keys are redacted by the real code, logged, and the kept key
sets of every line are recomputed by Redaction_trace.tla."""
import json
import os
import re

from vlib.core import MachineryError, REPO

PKG = "c05"

# the top-level keys some redaction algorithm lists (Redaction.tla: TopKeepOld), for the case-variant split only:
# what is listed where is decided by the specification, not here
_TOP_LISTED = ("event_id", "type", "room_id", "sender", "state_key", "content", "hashes", "signatures", "depth",
               "prev_events", "prev_state", "auth_events", "origin", "origin_server_ts", "membership")
_CONTENT_LISTED = ("membership", "join_authorised_via_users_server", "creator", "join_rule", "allow", "ban", "events",
                   "events_default", "kick", "redact", "state_default", "users", "users_default", "invite",
                   "history_visibility", "aliases", "redacts", "third_party_invite")
_NAME = re.compile(r"[A-Za-z_][A-Za-z0-9_.\-]{0,40}")
# Letters that are lower / upper case already and that Unicode simple case folding - hence encoding/json's matching
# of member names to struct fields - equates with an ASCII letter: U+017F LATIN SMALL LETTER LONG S (s), U+212A KELVIN
# SIGN (k).  Written <U+XXXX> in the vocabulary handed to the specification (ASCII only there); the harness realises it.
_FOLD = {"s": "<U+017F>", "k": "<U+212A>"}


def fold_variants(name):
    """The fold variants of one member name: every s / k replaced; only the first; only the last; the first replaced
    and the ASCII letters in upper case.  Empty for a name without s and k."""
    pos = [i for i, ch in enumerate(name) if ch in _FOLD]
    if not pos:
        return []

    def spell(which, upper=False):
        return "".join(_FOLD[ch] if i in which else (ch.upper() if upper else ch) for i, ch in enumerate(name))
    out = []
    for v in (spell(set(pos)), spell({pos[0]}), spell({pos[-1]}), spell({pos[0]}, upper=True)):
        if v not in out:
            out.append(v)
    return out


def gather_vocabulary(repo):
    """Every JSON member name the library's own sources use: `json:"<name>` struct tags of all non-test Go files,
    and the name-like string literals of the files that address JSON by path (gjson / sjson).  Returns
    (names, casevariants): sorted, duplicate-free, disjoint; `casevariants` differ from a listed top-level key only
    in letter case - the ASCII case variants found in the sources, and the Unicode fold variants (fold_variants) of
    every listed top-level key; the fold variants of the listed content keys (and of `signed`) are among `names`."""
    found = set()
    for root, dirs, files in os.walk(repo):
        dirs[:] = [d for d in dirs if not d.startswith(".") and d != "testdata"]
        for f in files:
            if not f.endswith(".go") or f.endswith("_test.go") or f.startswith("zz_verif"):
                continue
            try:
                with open(os.path.join(root, f), encoding="utf-8", errors="replace") as fh:
                    src = fh.read()
            except OSError:
                continue
            for m in re.finditer(r'json:\\?"([^",\\]+)', src):
                found.add(m.group(1))
            if "tidwall/gjson" in src or "tidwall/sjson" in src:
                for m in re.finditer(r'"((?:[^"\\\n]|\\.)*)"', src):
                    if _NAME.fullmatch(m.group(1)):
                        found.add(m.group(1))
    found = {n for n in found if n != "-" and '"' not in n and "\\" not in n and n.isprintable() and len(n) <= 60}
    listed_folded = {k.lower(): k for k in _TOP_LISTED}
    names, case = [], []
    for n in sorted(found):
        if n.lower() in listed_folded and n not in _TOP_LISTED:
            case.append(n)
        else:
            names.append(n)
    if len(names) < 40:
        raise MachineryError("vocabulary gathered from %s has only %d names" % (repo, len(names)))
    for k in _TOP_LISTED:
        case += [v for v in fold_variants(k) if v not in case]
    for k in _CONTENT_LISTED + ("signed",):
        names += [v for v in fold_variants(k) if v not in names and v not in case]
    return names, case


def run(ctx):
    ctx.assumptions += [
        "values are opaque to redaction: each key carries one of the value classes std / +-(2^53-1) / string with "
        "< > & U+2028 / nested object / array / null / 0 / \"\" / {} / [] / false / 1E2 (raw JSON only); integers beyond "
        "2^53-1 and non-integer numbers are not exercised",
        "every event has a string `type` and an object `content` (the specification does not say what redaction "
        "does to anything else)",
        "third_party_invite (room version 11 algorithm): what is listed is `signed` inside it, so an object without "
        "`signed` ({} or only other keys) and a non-object are removed altogether, no `third_party_invite: {}` is left "
        "(strict reading of 'keeps exactly ... removes everything else'; the library agrees, some other "
        "implementations leave {})",
        "signatures: real ed25519 keys, events signed with PDU.Sign by the sender's server (two key IDs) and by a "
        "second server; "
        "the signature scheme is assumed unforgeable",
        "keys containing a double quote or a backslash are not generated (canonical JSON of such keys is C01's subject)",
        "earlier calls of the same process (history dimension) run on the goroutine of the observed call, immediately "
        "before it; state that only another goroutine / a later garbage collection would expose is not exercised",
        "object route: the event ID told to NewEventFromTrustedJSONWithEventID / carried by headered JSON is the event's "
        "own; an event_id member in a room version 3+ event is exercised through the trusted entry points only (receipt "
        "strips it, which changes what the content hash covers: not this property's subject); non-canonical JSON text "
        "through the trusted entry points only (receipt refuses it from room version 6 on); one object, one goroutine",
        "fold variants: U+017F and U+212A are the only non-ASCII code points that simple case folding equates with an "
        "ASCII letter, so they exhaust the names encoding/json can match to a struct field beyond ASCII case",
    ]
    ctx.exhaustive = True
    # the vocabulary of the "everything else is removed" clause: what the tree under test itself names
    names, case = gather_vocabulary(REPO)
    vocab = os.path.join(ctx.scratch, "c05_vocab.json")
    with open(vocab, "w") as f:
        json.dump({"names": names, "casevariants": case}, f)
    env = {"C05_VOCAB": vocab}
    ctx.log("vocabulary: %d names (+%d case / fold variants of listed top-level keys) from %s" % (len(names), len(case), REPO))
    ctx.notes["rule"] = (
        "every scenario of Redaction_gen.tla: 16 room versions x 8 event types (7 protected + other) x presence shapes "
        "over the pool of optional top-level keys and candidate content keys of the type (none, each key alone, each "
        "pair, all but one, all; plus the keys only other types keep: each alone, and all on top of everything; "
        "third_party_invite in 5 nested shapes) x value-class offsets (%s), families raw (each scenario in 3 spellings "
        "of the JSON text) and pdu (depth 0 / origin_server_ts 0 by offset; trusted, untrusted, with-event-ID, headered, "
        "SetUnsigned, already-redacted and EventBuilder.Build entry points); "
        "kind vocab: the unlisted keys are drawn from every JSON member name of the library's own non-test sources "
        "(%d names gathered from %s: struct tags, name-like literals of the files using gjson / sjson) minus what the "
        "algorithm lists for the position, in chunks of %s as extra top-level keys, as extra content keys of "
        "every type and as extra keys of a member's third_party_invite, both families, %s; "
        "kind hist: the observed redaction is preceded in the same process by earlier calls (RedactEventJSON / "
        "trusted parse + Redact / untrusted parse with a hash mismatch; accepted, or refused for a non-object content "
        "or a non-string type; every algorithm) whose events carry a distinctive value under every listed key: all "
        "100 single calls%s before 3 event types x 2 shapes; every record of the other kinds is decorated with such "
        "calls derived from (seed, position); "
        "kind route: %s; "
        "distinct = distinct (family, algorithm, type, kept top-level set, kept content set, kept nested set[, history]"
        "[, entry point, spelling, operations])"
        % ("raw: all 12 with the full lattice; pdu: 0-5 full, 6-11 none/singles/all" if ctx.tier == "thorough"
           else "offset 0 with the full lattice (for 6 versions, one per event format x algorithm; the other "
                "10 none/singles/all), offsets 4 and 8 with none/singles/all, the other 9 offsets with the shape all",
           len(names) + len(case), REPO,
           "3" if ctx.tier == "thorough" else "6",
           "16 versions" if ctx.tier == "thorough" else "6 versions (one per event format x algorithm)",
           " and pairs of RedactEventJSON calls with different outcomes" if ctx.tier == "thorough" else "",
           "every sequence containing Redact of %s operations from {Sign (other server, then a second key of the origin, then "
           "the first again), SetUnsigned, EventID(), Redact} on an object made by each of 4 entry points x 3 spellings of "
           "the JSON text (canonical; members reversed + whitespace; escapes in every string) x event_id member absent / "
           "present (v3+), %s" % (
               ("3 (16 versions, 3 event types x 1 shape; 6 versions, 4 types x 2 shapes) and 4 (3 versions)",
                "every combination for the 6 versions, pruned by relevance otherwise") if ctx.tier == "thorough"
               else ("3", "room versions 1, 10, 12 (one per event format), member (all optional keys) / create / message "
                          "events, combinations pruned by relevance (the spelling matters to a computed ID, not to a member)"))))
    ctx.notes["constants"] = "Redaction_gen_{raw,pdu,extra,route%s}_%s.cfg" % (",routefull,route4" if ctx.tier == "thorough" else "", ctx.tier)
    fams = ("raw", "pdu", "extra", "route") + (("routefull", "route4") if ctx.tier == "thorough" else ())
    for fam in fams:
        r = ctx.tlc("Redaction_gen", "Redaction_gen_%s_%s.cfg" % (fam, ctx.tier), timeout=1500, env=env)
        if fam == "extra":
            vocabulary_covered(r.records, names, case)
        if fam.startswith("route"):
            routes_covered(r.records)
        ctx.replay_and_compare("c05", r.records, pkg=PKG)
        del r
    record_and_validate(ctx, 4000 if ctx.tier == "quick" else 200000)


def routes_covered(records):
    """Generator sanity: every entry point, every operation after every other, every spelling, an event_id member in
    a room version 3+ event, and the sequence receipt -> Sign -> Redact are among the records."""
    entries, pairs, sps, idm, seqs = set(), set(), set(), False, set()
    for r in records:
        entries.add(r["entry"])
        sps.add(r["sp"])
        steps = r["steps"]
        pairs.update(zip(steps, steps[1:]))
        seqs.add((r["entry"],) + tuple(steps[:2]))
        idm = idm or (r["ver"] not in ("1", "2") and "event_id" in r["top"])
        if len(r["exp"]) != len(steps) + 1 or "redact" not in steps:
            raise MachineryError("malformed route record: %s" % json.dumps(r)[:300])
    ops = ("sign", "setunsigned", "readid", "redact")
    if entries != {"trusted", "withid", "headered", "untrusted"} or sps != {"canon", "rev", "esc"} or not idm \
            or pairs != {(a, b) for a in ops for b in ops} or ("untrusted", "sign", "redact") not in seqs:
        raise MachineryError("route records do not cover the object route: entries %s, spellings %s, event_id member %s, "
                             "%d operation pairs" % (sorted(entries), sorted(sps), idm, len(pairs)))


def vocabulary_covered(records, names, case):
    """Generator sanity: every vocabulary name is an extra key at the top level and in the content of every event
    type, for every algorithm and both families - unless the specification lists it there (then it is no extra)."""
    top, con, tpi = {}, {}, {}
    for r in records:
        if r.get("kind") != "vocab":
            continue
        if isinstance(r["top"], dict):
            top.setdefault((r["fam"], r["algo"]), set()).update(r["top"])
        if isinstance(r["con"], dict):
            con.setdefault((r["fam"], r["algo"], r["type"]), set()).update(r["con"])
        if isinstance(r["tpi"], dict):
            tpi.setdefault((r["fam"], r["algo"]), set()).update(r["tpi"])
    if len(top) != 10 or len(con) != 80 or len(tpi) != 10:
        raise MachineryError("vocab records cover %d / %d (family, algorithm) and %d (family, algorithm, type) combinations, "
                             "expected 10 / 10 and 80" % (len(top), len(tpi), len(con)))
    for k, seen in tpi.items():
        missing = [n for n in names + case if n not in seen]       # (`signed` is there in any case)
        if missing:
            raise MachineryError("vocabulary names never tried as keys of third_party_invite for %s: %s" % (k, missing[:10]))
    for k, seen in top.items():
        missing = [n for n in names if n not in seen and n not in _TOP_LISTED]
        missing += [n for n in case if n not in seen]
        if missing:
            raise MachineryError("vocabulary names never tried as top-level keys for %s: %s" % (k, missing[:10]))
    for k, seen in con.items():
        missing = [n for n in names + case if n not in seen and n not in _CONTENT_LISTED]
        if missing:
            raise MachineryError("vocabulary names never tried as content keys for %s: %s" % (k, missing[:10]))


def _fresh(ctx, probe):
    out = [r for r in ctx.harness("c05", [probe], pkg=PKG) if "i" in r]   # fresh process
    return out[0] if out else None


def record_and_validate(ctx, n):
    """code -> spec: random events through the real redaction code, validated by Redaction_trace.tla."""
    trace = os.path.join(ctx.scratch, "c05_trace.ndjson")
    res = ctx.harness("c05rec", args=["-out", trace, "-n", n], pkg=PKG)
    for r in res:  # errors / panics while recording: re-executed through the probe carried by the line
        if r.get("ok"):
            continue
        again = _fresh(ctx, r.get("extra"))
        if again is None or again.get("ok"):
            raise MachineryError("failure while recording (%s) did not reproduce in a fresh process" % r.get("key"))
        ctx.disagree(again.get("key", r.get("key", "C05/record")), again.get("what", r.get("what", ""))[:2000],
                     {"harness": "c05", "pkg": PKG, "record": r.get("extra"), "result": again, "count": 1})

    expected = {}
    reported = set()

    def on_reject(rec, lineno):
        if not expected:
            # what the specification derives for every line (one more pass over the trace)
            e = ctx.tlc("Redaction_trace", "Redaction_trace_expect.cfg", workers=1, timeout=900,
                        env={"TRACE_FILE": trace})
            for x in e.records:
                expected[x["line"]] = x
        exp = expected.get(lineno)
        if exp is None:
            raise MachineryError("no expectation emitted for trace line %d" % lineno)
        probe = {"fam": "probe", "ver": rec["ver"], "algo": exp["algo"], "type": rec["type"], "api": rec["api"],
                 "raw": rec["raw"], "top": {}, "con": {}, "tpi": {}, "tpiobj": rec["tpiobj"],
                 "ktop": exp["ktop"], "kcon": exp["kcon"], "ktpi": exp["ktpi"]}
        r0 = _fresh(ctx, probe)
        if r0 is None or r0.get("ok"):
            raise MachineryError("recorded result of trace line %d did not reproduce in a fresh process" % lineno)
        key = r0.get("key", "C05/trace")
        if key in reported:
            return              # one report per canonical scenario
        reported.add(key)
        ctx.disagree(key, r0.get("what", ""), {"harness": "c05", "pkg": PKG, "record": probe, "result": r0, "count": 1})

    ctx.validate_trace("Redaction_trace", "Redaction_trace.cfg", trace, on_reject)
