"""X06 (growth of the specification; not one of the 20 listed properties) - Federation: a room replicated between
several homeservers, each running the library's event-processing pipeline; servers that have received the same
events agree, whatever the delivery order.

Fed.tla (on top of Room.tla / StateRes.tla / Auth.tla): 2-3 servers, each holding the events it processed, a verdict
per event (accepted / rejected against its auth events / rejected against the state before it), the room state after
every event it processed, its forward extremities and its current (resolved) room state; one global event store (the
DAG).  Actions: Create (creation prefix on server 1), Join (a server's first user joins through a resident server and
is handed the state), Send (a server builds an event on ITS extremities from ITS state), SendStale (a byzantine server
cites the auth events of an earlier state), Deliver, DeliverGap (missing prev events are fetched first).  Invariants
(stated over what the servers hold): Convergence, OrderIndependence (agreement with an observer that saw every event
at its creation: the results are a function of the DAG), RejectedNeverInState, BanHolds, OwnSendsAccepted,
OwnPrevsAccepted, HonestRoomsAgree, BadNeverAccepted + oracle sanity (TypeOK, TipsAreFrontier, AuthKnown,
HandoverClean, CurIsResolved).

spec -> code   Fed_gen.tla, mode "cover": every reachable TRANSITION within the bounds, each printed with one complete
               behaviour leading to it; mode "paths" (+ -simulate for the larger configurations): complete behaviours,
               every interleaving.  harness/cmd/x06 replays each behaviour on real servers - small structs whose every
               decision is the library's (EventBuilder.Build / AddAuthEvents, Allowed, NewEventFromUntrustedJSON,
               VerifyEventSignatures over a real KeyRing, VerifyEventAuthChain, ResolveConflictsNew,
               VerifyAuthRulesAtState or EventsLoader.LoadAndVerify, CheckSendJoinResponse,
               ReverseTopologicalOrdering) - and compares after every step; at the end Convergence is checked on the
               real servers and every honest server's deliveries are repeated in another order on a second server.
code -> spec   x06rec: three real servers, random interleavings, 15-25 events per room; Fed_trace.tla takes the same
               actions of Fed.tla and re-derives every logged result.
design check   five planted faults of the receipt pipeline (CONSTANT Fault): TLC must refute each with the invariant
               it is aimed at.
"""
import collections
import os
from concurrent.futures import ThreadPoolExecutor

from vlib.core import MachineryError

PKG = "x06"

PROPERTIES = ("Convergence OrderIndependence RejectedNeverInState BanHolds BanHoldsStrict OwnSendsAccepted OwnPrevsAccepted "
              "HonestRoomsAgree BadNeverAccepted")
SANITY = "TypeOK TipsAreFrontier AuthKnown HandoverClean"

# planted defect of the receipt pipeline -> the invariant that must catch it
FAULTS = [
    ("apply_rejected", "RejectedNeverInState"),     # a rejected event still updates the state
    ("softfail_rejects", "OrderIndependence"),      # failing the CURRENT state (step 6) is treated as a rejection
    ("rejected_tip", "OwnPrevsAccepted"),           # a rejected event becomes a forward extremity
    ("skip_state_check", "BanHolds"),               # step 5 is skipped: allowed by its auth events is enough
    ("trust_claim", "RejectedNeverInState"),        # the state after an event is taken from its sender
]


def cfg_text(ver, maxfree, n=2, byz="NoByz", maxbad=0, kinds="AllKinds", mode="cover", gap=False, late=False,
             ts="TS1", iddesc=False, fault="none", invariants=None, cur=False, bob=0, strictban=True):
    inv = invariants or ("%s %s%s Emit" % (SANITY, PROPERTIES if strictban else PROPERTIES.replace(" BanHoldsStrict", ""),
                                          " CurIsResolved" if cur else ""))
    return ("SPECIFICATION GSpec\nCONSTANTS\n  Start = 1\n  Ver = \"%s\"\n  MaxFree = %d\n  ForkFrom = 1\n  TSChoices <- %s\n"
            "  IdDesc = %s\n  Addl = {}\n  MaxBad = %d\n  Dishonest = %s\n  NServers = %d\n  Byz <- %s\n  Fault = \"%s\"\n"
            "  Gap = %s\n  LateJoin = %s\n  BobLevel %s\n  SendKinds <- %s\n  Mode = \"%s\"\n%sINVARIANTS %s\nCHECK_DEADLOCK FALSE\n"
            % (ver, maxfree, ts, "TRUE" if iddesc else "FALSE", maxbad, "FALSE" if byz == "NoByz" else "TRUE", n, byz, fault,
               "TRUE" if gap else "FALSE", "TRUE" if late else "FALSE", ("= %d" % bob) if bob else "<- NotListed", kinds, mode,
               "VIEW CoverView\n" if mode in ("cover", "none") else "", inv))


def plans(tier):
    """(name, cfg keyword arguments, simulated traces (0 = exhaustive), depth, harness mode)"""
    P = []
    if tier == "quick":
        # (every TLC run costs several seconds of JVM start-up: the quick tier is four generation runs - a byzantine
        # configuration contains the honest behaviours of its servers too -, one planted fault and one short trace)
        P += [("v10-byz", dict(ver="10", maxfree=2, byz="Byz2", maxbad=1, kinds="FaultKinds"), 0, 0, ""),
              # bob is a moderator: both servers send power events, the order state resolution replays them in matters
              ("v12-gap-mod", dict(ver="12", maxfree=2, kinds="ResKinds", gap=True, bob=3), 0, 0, ""),
              ("v10", dict(ver="10", maxfree=2, kinds="CoreKinds"), 0, 0, ""),
              ("v12-3servers", dict(ver="12", maxfree=1, n=3), 0, 0, "")]
        return P
    for ver in ("10", "12"):
        P += [(("v%s" % ver), dict(ver=ver, maxfree=2), 0, 0, ""),
              # (room version 12: with a moderator on the byzantine server)
              (("v%s-byz" % ver), dict(ver=ver, maxfree=2, byz="Byz2", maxbad=1, kinds="ByzKinds", bob=3 if ver == "12" else 0), 0, 0, ""),
              (("v%s-3servers" % ver), dict(ver=ver, maxfree=2, n=3, kinds="FaultKinds"), 0, 0, ""),
              (("v%s-gap" % ver), dict(ver=ver, maxfree=2, kinds="CoreKinds", gap=True, cur=True), 0, 0, "")]
        # bob is a moderator: both servers send power events, the order state resolution replays them in matters
        P += [(("v%s-mod" % ver), dict(ver=ver, maxfree=2, kinds="CoreKinds", bob=3), 0, 0, "")]
    P += [("v12-ts", dict(ver="12", maxfree=2, kinds="FaultKinds", ts="TS12"), 0, 0, "")]
    for ver in ("1", "6", "11"):
        P += [(("v%s" % ver), dict(ver=ver, maxfree=2, kinds="CoreKinds", bob=3 if ver == "1" else 0), 0, 0, ""),

              (("v%s-byz" % ver), dict(ver=ver, maxfree=2, byz="Byz2", maxbad=1, kinds="FaultKinds", cur=True), 0, 0, "")]
    P += [
        # later events get the smaller event-ID / SHA-1 ranks (tie-breaks the other way round)
        ("v10-iddesc", dict(ver="10", maxfree=2, kinds="PowerKinds", iddesc=True), 0, 0, ""),
        ("v1-iddesc", dict(ver="1", maxfree=2, kinds="PowerKinds", iddesc=True), 0, 0, ""),
        # three events beyond the prefix on two servers
        # (with a moderator on the second server the strict form of BanHolds is refuted here: see below)
        ("v10-3events", dict(ver="10", maxfree=3, kinds="TwoKinds", bob=3, strictban=False), 0, 0, ""),
        # a byzantine third server next to two honest ones
        ("v12-3servers-byz", dict(ver="12", maxfree=2, n=3, byz="Byz3", maxbad=1, kinds="FaultKinds"), 0, 0, ""),
        # the third server joins while the others are already sending
        ("v10-latejoin", dict(ver="10", maxfree=2, n=3, kinds="BanKinds", late=True, cur=True), 0, 0, ""),
        # every interleaving as a behaviour of its own
        ("v10-paths", dict(ver="10", maxfree=2, kinds="FaultKinds", mode="paths", gap=True), 0, 0, ""),
        ("v12-paths-byz", dict(ver="12", maxfree=2, byz="Byz2", maxbad=1, kinds="FaultKinds", mode="paths"), 0, 0, ""),
        # the same pipeline through EventsLoader.LoadAndVerify
        ("v10-loader", dict(ver="10", maxfree=2, kinds="CoreKinds"), 0, 0, "loader"),
        ("v12-byz-loader", dict(ver="12", maxfree=2, byz="Byz2", maxbad=1, kinds="FaultKinds"), 0, 0, "loader"),
        # longer histories on three servers, sampled
        ("v10-sim", dict(ver="10", maxfree=4, n=3, mode="paths", kinds="CoreKinds", gap=True, late=True, ts="TS12", bob=3, strictban=False), 64, 40, ""),
        ("v12-sim-byz", dict(ver="12", maxfree=4, n=3, byz="Byz3", maxbad=2, mode="paths", kinds="CoreKinds", gap=True), 64, 40, ""),
        ("v1-sim", dict(ver="1", maxfree=4, n=3, mode="paths", kinds="CoreKinds", ts="TS12", bob=3, strictban=False), 48, 40, ""),
    ]
    return P


SIM_WORKERS = 4

REQUIRED = ("step:create", "step:join", "step:send", "step:deliver", "verdict:accepted", "several-extremities",
            "branch:extremities-advance", "branch:current-state-resolved-anew")
REQUIRED_MERGE = ("merge-event",)        # an event on two extremities needs three events beyond the prefix
REQUIRED_BYZ = ("verdict:rejected", "bad-event", "branch:byzantine-server-believes-its-own-event", "branch:extremities-kept")
REQUIRED_STALE = ("step:stale", "verdict:staterejected")
REQUIRED_GAP = ("step:gap",)


def census(records, counts, all_steps):
    """vacuity guard: what the emitted behaviours end in (cover: one record per transition) / contain (paths)"""
    for rec in records:
        for st in (rec["steps"] if all_steps else rec["steps"][-1:]):
            counts["step:" + st["a"]] += 1
            for o in st["res"]:
                counts["verdict:" + o["v"]] += 1
                if len(o["tips"]) > 1:
                    counts["several-extremities"] += 1
            if len(rec["events"][st["e"] - 1]["prev"]) > 1:
                counts["merge-event"] += 1
            # branches of the receipt pipeline (TLC's -coverage cannot be used on Fed.tla: its cost-model construction
            # expands every operator application in place and does not terminate on the nesting Process -> StateOver ->
            # Resolve -> ... of this specification; the step kinds are the disjuncts of FNext, these are the branches
            # of Process)
            if st["a"] in ("send", "stale") and (st["e"] in rec["bad"] or st["e"] in rec["stale"]) and st["res"][0]["v"] == "accepted":
                counts["branch:byzantine-server-believes-its-own-event"] += 1
            if st["a"] in ("deliver", "gap"):
                o = st["res"][-1]
                counts["branch:extremities-%s" % ("advance" if o["e"] in o["tips"] else "kept")] += 1
                if len(o["tips"]) > 1 and o["e"] in o["tips"]:
                    counts["branch:current-state-resolved-anew"] += 1
        if rec["bad"]:
            counts["bad-event"] += 1


def fault_cfg(fault, inv):
    # two servers, the second byzantine (one bad or stale event), two events beyond the prefix
    return cfg_text("10", 2, byz="Byz2", maxbad=1, kinds="FaultKinds", mode="none", fault=fault, invariants=inv)


def trace_cfg(ctx, ver, byz):
    d = ctx._spec_dir()
    with open(os.path.join(d, "Fed_trace.cfg")) as f:
        txt = f.read()
    txt = txt.replace('Ver = "10"', 'Ver = "%s"' % ver)
    if byz:
        txt = txt.replace("Byz <- NoByz", "Byz <- Byz3").replace("MaxBad = 0", "MaxBad = 99").replace("Dishonest = FALSE", "Dishonest = TRUE")
    name = "Fed_trace_%s%s.cfg" % (ver.replace(".", "_"), "_byz" if byz else "")
    with open(os.path.join(d, name), "w") as f:
        f.write(txt)
    return name


def trace(ctx, ver, byz, runs, loader=False):
    """code -> spec: record `runs` rooms on three real servers and validate the log with Fed_trace.tla"""
    mode = ver + (":byz" if byz else "") + (":loader" if loader else "")
    path = os.path.join(ctx.scratch, "fed_trace_%s.ndjson" % mode.replace(":", "_"))
    args = ["-out", path, "-n", runs, "-mode", mode]

    def reproduce_result(r):
        again = [x for x in ctx.harness("x06rec", args=["-out", path + ".again", "-n", runs, "-mode", mode], pkg=PKG) if not x.get("ok", True)]
        if not any(x.get("key") == r.get("key") for x in again):
            raise MachineryError("the recorder's complaint %s did not reproduce in a fresh process" % r.get("key"))
        ctx.disagree(r.get("key", "X06/trace/recorder"), r.get("what", "")[:2000], {"harness": "x06rec", "pkg": PKG, "args": args, "count": 1})

    for r in ctx.harness("x06rec", args=args, pkg=PKG):
        if not r.get("ok", True):
            if r.get("key") == "panic":
                r["key"] = "X06/panic/x06rec"
            reproduce_result(r)

    def on_reject(rec, lineno):
        # the driver is deterministic given the seed: the same run in a fresh process must log the same line
        again = path + ".again"
        ctx.harness("x06rec", args=["-out", again, "-n", runs, "-mode", mode], pkg=PKG)
        with open(again) as f:
            lines = f.read().splitlines()
        import json
        if lineno > len(lines) or json.loads(lines[lineno - 1]) != rec:
            raise MachineryError("trace line %d of the %s trace did not reproduce in a fresh process" % (lineno, mode))
        kinds = ",".join(sorted(set(o["v"] for o in rec.get("res", [])))) or "-"
        what = ("three real servers (room version %s%s), run %d: after the step %s the servers hold %s; Fed.tla taking the same "
                "action does not arrive there (for a 'try' line: the library refused a send that Fed.tla's rules allow on the same state)"
                % (ver, ", hs3 byzantine" if byz else "", rec.get("run", 0),
                   {k: rec[k] for k in ("a", "s", "u", "kind", "t", "lvl", "rule", "ts", "via", "x", "e", "prev", "auth") if k in rec},
                   rec.get("res")))
        ctx.disagree("X06/%strace/%s/%s/%s" % ("loader/" if loader else "", rec.get("a"), rec.get("kind") or "-", kinds), what,
                     {"harness": "x06rec", "pkg": PKG, "args": args, "line": lineno, "record": rec, "count": 1})

    return ctx.validate_trace("Fed_trace", trace_cfg(ctx, ver, byz), path, on_reject, timeout=1500)


def run(ctx):
    ctx.assumptions += [
        "ed25519 signatures are unforgeable; every server has one key, known to every other server through a key database "
        "behind a real KeyRing; events were sent in 2020 and the keys are valid for 1000 days from now: no outcome depends "
        "on the wall clock",
        "the receipt checks modelled are steps 1-5 of 'Checks performed upon receipt of a PDU'; step 6 (soft failure against "
        "the current state) is left out: it depends on the order of receipt by design, does not influence the room state, and "
        "the library does not implement it (load.go: TODO performSoftFailCheck)",
        "a server is a struct that keeps events, verdicts, states and extremities; every decision about an event is made by "
        "a library function.  Harness glue, not judgement: the look-up of the server's own verdict on cited auth events "
        "('an event citing a rejected auth event is rejected' - the library has no store to look that up in), replacing "
        "one (type, state_key) entry of a state, walking prev / auth edges through the store (extremities: accepted events "
        "no accepted event descends from; the auth chain handed to the resolver), depth = 1 + max",
        "a byzantine server is scripted: it sends events that the auth events it cites do not allow, or that cite the auth "
        "events of an earlier state of its own, and it believes its own events; joins go through honest servers",
        "a server that joined holds the state handed over at its join and processes only events all of whose prev events it "
        "has processed (DeliverGap: fetching at most two missing ancestors first); there is no /state_ids backfill in the "
        "model, so an event that is concurrent with a server's join is never processed by that server",
        "distinct events have distinct origin_server_ts (timestamp rank * 1000 + event-ID rank * 10 ms): real event IDs are "
        "hashes whose lexicographic order cannot be chosen, so the tie-break 'by event ID' of state resolution v2 is never "
        "reached (C10 exercises it with chosen IDs); room version 1: an event is built until the SHA-1 of its (random) "
        "event ID falls into the bucket of its rank",
        "BanHolds is checked within the bounds explored (state resolution v2 can in principle drop both of two conflicting "
        "ban events when both senders were demoted concurrently: that needs more events than the bounds contain)",
    ]
    quick = ctx.tier == "quick"
    ps = plans(ctx.tier)
    only = os.environ.get("X06_ONLY")        # development aid: a comma separated subset of the plans
    if only:
        ps = [p for p in ps if p[0] in only.split(",")]
    d = ctx._spec_dir()
    ctx.harness_build(pkg=PKG)
    jobs = []
    for name, kw, sim, depth, hmode in ps:
        cfg = "Fed_gen_%s_%s.cfg" % (ctx.tier, name.replace("-", "_"))
        with open(os.path.join(d, cfg), "w") as f:
            f.write(cfg_text(**kw))
        jobs.append((name, cfg, kw, sim, depth, hmode))
    ctx.notes["plans"] = [[name, kw, sim] for name, _, kw, sim, _, _ in jobs]

    par = 2 if quick else 3
    per = max(2, ctx.workers // par)

    def one(job):
        name, cfg, kw, sim, depth, hmode = job
        if sim:
            return ctx.tlc("Fed_gen", cfg, workers=SIM_WORKERS, timeout=1500, simulate=max(1, sim // SIM_WORKERS), depth=depth)
        return ctx.tlc("Fed_gen", cfg, workers=per, timeout=2400)

    counts = collections.Counter()
    total = 0
    import json
    with ThreadPoolExecutor(max_workers=par) as ex:
        # TLC runs at most `par` plans ahead of the replay (a plan's records are dropped once replayed)
        pending = collections.deque()
        todo = collections.deque(jobs)
        while todo or pending:
            while todo and len(pending) < par:
                job = todo.popleft()
                pending.append((job, ex.submit(one, job)))
            job, fut = pending.popleft()
            name, cfg, kw, sim, depth, hmode = job
            r = fut.result()
            recs = r.records
            r.records = None
            if sim:
                seen, uniq = set(), []
                for rec in recs:
                    k = json.dumps(rec, sort_keys=True)
                    if k not in seen:
                        seen.add(k)
                        uniq.append(rec)
                recs = uniq
            if not recs:
                raise MachineryError("Fed_gen %s emitted no behaviour (dead generator)" % name)
            c = collections.Counter()
            census(recs, c, kw.get("mode") == "paths")
            need = REQUIRED + (REQUIRED_MERGE if kw.get("maxfree", 0) >= 3 else ())
            if not sim:     # (a random sample is not asked to contain every class)
                need += REQUIRED_GAP if kw.get("gap") else ()
                if kw.get("byz", "NoByz") != "NoByz":
                    need += REQUIRED_BYZ + REQUIRED_STALE
            missing = [k for k in need if not c[k]]
            if missing:
                raise MachineryError("vacuous generation (%s): no emitted behaviour ends in / contains %s" % (name, ", ".join(missing)))
            counts.update(c)
            ctx.log("%s: replaying %d behaviours%s" % (name, len(recs), " (-mode %s)" % hmode if hmode else ""))
            ctx.replay_and_compare("x06", recs, args=(["-mode", hmode] if hmode else None), pkg=PKG)
            total += len(recs)
            del recs
    ctx.notes["behaviours_replayed"] = total
    ctx.notes["step_census"] = {k: counts[k] for k in sorted(counts)}

    # the invariants must catch planted defects of the receipt pipeline (the properties are not vacuous)
    states0, trans0 = ctx.states, ctx.transitions
    faults = FAULTS if not quick else [FAULTS[ctx.seed % len(FAULTS)]]
    for fault, inv in faults:
        name = "Fed_fault_%s.cfg" % fault
        with open(os.path.join(d, name), "w") as f:
            f.write(fault_cfg(fault, inv))
        fr = ctx.tlc("Fed_gen", name, allow_violation=True, expect_records=False, workers=4, timeout=900)
        if fr.violated != inv:
            raise MachineryError("Fed.tla with the planted pipeline defect %s: expected a violation of %s, TLC reports %s"
                                 % (fault, inv, fr.violated))
    ctx.states, ctx.transitions = states0, trans0      # refutation runs stop at the first counterexample
    ctx.notes["planted_model_faults_caught"] = ["%s->%s" % f for f in faults]

    # a statement about the DESIGN (never a verdict about the code): the strict form of BanHolds - "banned at every
    # extremity => banned in the resolved state" - is not a theorem of state resolution v2
    if not quick:
        name = "Fed_strictban.cfg"
        with open(os.path.join(d, name), "w") as f:
            f.write(cfg_text("10", 3, kinds="TwoKinds", bob=3, mode="none", invariants="BanHoldsStrict"))
        sr = ctx.tlc("Fed_gen", name, allow_violation=True, expect_records=False, workers=8, timeout=900)
        ctx.notes["ban_strict_form"] = (
            "TLC refutes BanHoldsStrict with three events beyond the prefix and a moderator on the second server (bob bans "
            "alice, bans her again on one branch, the creator bans bob on the other: both bans fail in resolution, alice is "
            "left without membership); the weak form BanHolds is an invariant of every plan"
            if sr.violated == "BanHoldsStrict" else "BanHoldsStrict holds within Fed_strictban.cfg (%s)" % sr.violated)
        ctx.states, ctx.transitions = states0, trans0

    # code -> spec
    if quick:
        ver = ("10", "12", "1")[ctx.seed % 3]
        lines = trace(ctx, ver, ctx.seed % 2 == 0, 2)
    else:
        lines = 0
        for ver in ("10", "12", "1", "6", "11"):
            lines += trace(ctx, ver, False, 3)
        lines += trace(ctx, "10", True, 3) + trace(ctx, "12", True, 2) + trace(ctx, "10", False, 2, loader=True)
    ctx.notes["trace_lines_validated"] = lines

    ctx.exhaustive = True
    ctx.notes["rule"] = (
        "cover plans: every transition (reachable state x Create / Join / Send / SendStale / Deliver / DeliverGap) of Fed.tla "
        "within the plan's bounds (room version, servers, events beyond the creation prefix, kinds of events, byzantine "
        "server and its budget of bad events, gaps, late join), one behaviour from the empty room per transition; paths "
        "plans: every complete behaviour (every interleaving); plans with a trace count are seeded random samples of "
        "complete behaviours of larger configurations; distinct = (version, servers, last step and kind of its event, "
        "verdicts, merge / number of extremities, whether real state resolution took part, bad / stale events)")
    if any(sim for _, _, _, sim, _, _ in jobs):
        ctx.notes["simulated"] = "plans with a trace count are random samples (seeded), the others are exhaustive"
