"""C20 - login tokens: Tokens.tla  <->  tokens package."""


def run(ctx):
    ctx.assumptions += [
        "macaroon HMAC chain is unforgeable (symbolic signature model)",
        "model instants are realised by shifting the expiry caveat relative to the real clock; boundaries closer than 2 s to the real clock are not exercised",
    ]
    cfg = "Tokens_gen_%s.cfg" % ctx.tier
    r = ctx.tlc("Tokens_gen", cfg)
    ctx.exhaustive = True
    ctx.notes["rule"] = ("every Validate/GetUser outcome of every behaviour of Tokens.tla within the config bounds "
                         "(issue parameters x alterations x validation instants x validation parameters); "
                         "distinct = distinct (call, alteration sequence, live/expired, same key, same user, verdict) classes")
    ctx.notes["constants"] = cfg
    ctx.replay_and_compare("c20", r.records)
