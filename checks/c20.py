"""C20 - login tokens: Tokens.tla  <->  tokens package."""


def run(ctx):
    ctx.assumptions += [
        "macaroon HMAC chain is unforgeable (symbolic signature model)",
        "model instants are realised by shifting the expiry caveat relative to the real clock; boundaries closer than 2 s to the real clock are not exercised",
        "the real-time sequence (validate, wait past the expiry, validate again) uses lifetimes of 2-3 s with margins of 0.5 s / 1.5 s; a run too slow to validate within the lifetime is skipped as inconclusive",
    ]
    cfg = "Tokens_gen_%s.cfg" % ctx.tier
    r = ctx.tlc("Tokens_gen", cfg)
    ctx.exhaustive = True
    ctx.notes["rule"] = ("every Validate/GetUser outcome of every behaviour of Tokens.tla within the config bounds "
                         "(issue parameters x alterations x validation instants x validation parameters); "
                         "distinct = distinct (call, alteration sequence, live/expired, same key, same user, verdict) classes")
    ctx.notes["constants"] = cfg
    ctx.replay_and_compare("c20", r.records)
    # secrets of particular lengths sharing a prefix (64-byte keys differing in their second half, their 32-byte
    # prefix, ...): different secrets like any others
    rk = ctx.tlc("Tokens_gen", "Tokens_gen_keys.cfg")
    ctx.replay_and_compare("c20", rk.records)
    # Issue, Validate, time passes, Validate: one token string presented before and after its expiry in real time
    # (the only behaviour of Tokens.tla that shifting the expiry caveat cannot realise); lifetimes of 2 and 3 s
    seq = [{"secret": s, "user": u, "dur": d} for s in ("k1", "k1 ") for u in ("@alice:example.org", "user1") for d in (2, 3)]
    # ... and issues at chosen instants inside a wall-clock second (early, middle, late)
    seq += [{"secret": "k1", "user": "@alice:example.org", "dur": d, "phase": ph} for d in (0, 5, 3600) for ph in (40, 510, 960)]
    ctx.replay_and_compare("c20seq", seq)
