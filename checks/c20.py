"""C20 - login tokens: Tokens.tla  <->  tokens package."""


def run(ctx):
    ctx.assumptions += [
        "macaroon HMAC chain is unforgeable (symbolic signature model)",
        "model instants are realised by shifting the expiry caveat relative to the real clock; boundaries closer than 2 s to the real clock are not exercised",
        "the real-time sequence (validate, wait past the expiry, validate again) uses lifetimes of 2-3 s with margins of 0.5 s / 1.5 s; a run too slow to validate within the lifetime is skipped as inconclusive",
    ]
    cfg = "Tokens_gen_%s.cfg" % ctx.tier
    r = ctx.tlc("Tokens_gen", cfg)
    ctx.exhaustive = True
    ctx.notes["rule"] = ("every Validate / GetUser / ValidateRead (validate for the user read from the token) outcome of every "
                         "behaviour of Tokens.tla within the config bounds "
                         "(issue parameters x alterations x validation instants x validation parameters), and of the user-ID "
                         "alphabet family (frame x character class x position of the issued user ID; read back, validated as read, "
                         "validated for every neighbouring user ID); "
                         "distinct = distinct (call, alteration sequence, live/expired, same key, same user, verdict"
                         "[, character class @ position > class validated for]) classes")
    ctx.notes["constants"] = cfg
    ctx.replay_and_compare("c20", r.records)
    r.records = None   # millions of records in the thorough tier: release them before the next family
    # secrets of particular lengths sharing a prefix (64-byte keys differing in their second half, their 32-byte
    # prefix, ...): different secrets like any others
    rk = ctx.tlc("Tokens_gen", "Tokens_gen_keys.cfg")
    ctx.replay_and_compare("c20", rk.records)
    # the alphabet of the user ID: every character class (URL-escape characters, separators, controls, Unicode, lengths)
    # at every position of a full Matrix ID and of a bare localpart - issued by the real GenerateLoginToken, read back,
    # validated for the user read, and validated for every neighbour (same frame, another class at that position)
    rc = ctx.tlc("Tokens_class_gen", "Tokens_gen_class_%s.cfg" % ctx.tier)
    ctx.replay_and_compare("c20", rc.records)
    # Issue, Validate, time passes, Validate: one token string presented before and after its expiry in real time
    # (the only behaviour of Tokens.tla that shifting the expiry caveat cannot realise); lifetimes of 2 and 3 s
    seq = [{"secret": s, "user": u, "dur": d} for s in ("k1", "k1 ") for u in ("@alice:example.org", "user1") for d in (2, 3)]
    # ... and issues at chosen instants inside a wall-clock second (early, middle, late)
    seq += [{"secret": "k1", "user": "@alice:example.org", "dur": d, "phase": ph} for d in (0, 5, 3600) for ph in (40, 510, 960)]
    ctx.replay_and_compare("c20seq", seq)
