"""C18 - no input from the network can crash the library: Lifecycle.tla <-> the whole public surface reachable with
remote data.

Level `exploration`: the structured half of the quantifier (well-formed events with one or two faulty fields, key
responses, headers, identifiers, response bodies, make_join / send_join answers x room versions x pipelines of at
most three operations) is ENUMERATED by TLC from Lifecycle_gen.tla and executed against the real library, every call
under recover() and every record in a worker process (so that an unrecoverable crash is attributed too); the
"all byte strings" half is SAMPLED by a seeded byte-level mutational driver whose recorded (call, outcome) lines are
validated by Lifecycle_trace.tla, which accepts only `ok | error`.  No coverage feedback is used anywhere."""
import json
import os

from vlib.core import MachineryError

PKG = "c18"

FAMILIES = {
    "quick": ["xshape", "rawxshape", "wf", "sig", "evall", "ev1", "ev3", "ev2", "raw", "rawevent", "join"],
    "thorough": ["xshape", "rawxshape", "ev2x", "wf", "sig", "evall", "env", "ev1a", "ev1b", "ev1c", "ev1xa", "ev1xb", "ev1xc", "ev3", "ev2", "raw",
                 "rawevent", "join"],
}
PROBES = {"quick": 6000, "thorough": 150000}


def _extra(r):
    e = r.get("extra")
    return e if isinstance(e, dict) else {}


def _keys_of(r):
    """every finding key of a failing result (a pipeline can crash in several functions)"""
    fs = _extra(r).get("findings") or []
    ks = [f["key"] for f in fs if f.get("key")]
    if r.get("key") and r["key"] not in ks:
        ks.insert(0, r["key"])
    return ks


def _report(ctx, cmd, records, results, label):
    """Group failing results by finding key; re-execute the first record of every group ALONE in a fresh process
    (harness -mode isolate: one worker process per record) and report the groups that reproduce."""
    if len(results) != len(records):
        raise MachineryError("harness %s answered %d of %d records (%s)" % (cmd, len(results), len(records), label))
    ctx.evaluations += len(results)
    ctx.traces_validated += len(results)
    groups = {}
    for r in results:
        m = _extra(r).get("machine")
        if m:
            raise MachineryError("specification / harness mismatch (%s): %s" % (label, m))
        nt = r.get("nt")
        if nt:
            ctx.nontrivial.add(nt)
        if not r.get("ok"):
            for k in _keys_of(r):
                groups.setdefault(k, []).append(r)
    if len(ctx.samples) < 6 and results:
        for r in results[:: max(1, len(results) // 2)][:2]:
            ctx.samples.append({"harness": cmd, "record": records[r["i"]],
                                "result": {k: v for k, v in r.items() if k not in ("i", "extra")}})
    if not hasattr(ctx, "_c18_seen"):
        ctx._c18_seen = set()
    seen = ctx._c18_seen
    for k in list(groups):
        if k in seen:            # reported by an earlier family: one report per canonical key
            del groups[k]
    if not groups:
        return
    seen.update(groups)
    keys = sorted(groups)
    firsts = [records[groups[k][0]["i"]] for k in keys]
    again = [r for r in ctx.harness(cmd, firsts, args=["-mode", "isolate"], pkg=PKG) if "i" in r]
    if len(again) != len(firsts):
        raise MachineryError("reproduction run answered %d of %d records" % (len(again), len(firsts)))
    for k, rec, r2 in zip(keys, firsts, again):
        if r2.get("ok") or k not in _keys_of(r2):
            raise MachineryError("finding %s did not reproduce in a fresh process: %s" % (k, json.dumps(rec)[:400]))
        what = r2.get("what", "")
        for f in _extra(r2).get("findings") or []:
            if f.get("key") == k and f.get("key") != r2.get("key"):
                what = "%s panicked (%s) in operation %s; same input as %s: %s" % (
                    f.get("func"), f.get("value"), f.get("op"), r2.get("key"), what)
        stack = ""
        for f in _extra(r2).get("findings") or []:
            if f.get("key") == k:
                stack = f.get("stack", "")
        vers = sorted(set(str(records[r["i"]].get("ver")) for r in groups[k] if isinstance(records[r["i"]], dict)))
        res = {x: r2[x] for x in r2 if x != "extra"}
        res["input_b64"] = _extra(r2).get("input", "")
        res["stack"] = stack[:3000]
        ctx.disagree(k, what[:3000], {"harness": cmd, "pkg": PKG, "args": [], "record": rec, "result": res,
                                       "count": len(groups[k]), "versions": vers})


DOMAINLESS = {"12", "org.matrix.hydra.11"}
ALL_VERSIONS = {"1", "2", "3", "4", "5", "6", "7", "8", "9", "10", "11", "12", "org.matrix.msc3667", "org.matrix.msc3787",
                "org.matrix.msc4014", "org.matrix.hydra.11"}
# the stages a create event with a foreign room-ID shape has to be taken through, the auth check of the event itself first
SHAPE_STAGES = ["AuthCheck:event", "Resolve:authchain:all", "Resolve:checkstate:state", "Resolve:new:both", "Handle:MakeJoin"]


def _shape_obligations(cfg, records):
    """The cross-shape family is only worth something if it really offers, for EVERY room version, a create event (and a
    member and another event) whose room ID has the shape of the other family of versions, and takes the create event
    through the auth check of the event itself and the stages built on it.  A generator that stops doing so is broken."""
    have = {}
    for r in records:
        if r.get("p1") != "top/room_id":
            continue
        have.setdefault((r["ver"], r["type"]), {}).setdefault(r["c1"], set()).update(r["ops"][1:])
    for v in sorted(ALL_VERSIONS):
        want = "other" if v in DOMAINLESS else "opaque43"
        for t in ("create", "member", "message"):
            ops = have.get((v, t), {}).get(want)
            if ops is None:
                raise MachineryError("%s: no %s subject with room ID class %s in room version %s" % (cfg, t, want, v))
            if t == "create":
                missing = [o for o in SHAPE_STAGES if o not in ops]
                if missing:
                    raise MachineryError("%s: the create event with room ID class %s of room version %s is not taken through %s"
                                         % (cfg, want, v, missing))


def run(ctx):
    ctx.level = "exploration"
    ctx.exhaustive = False
    ctx.assumptions += [
        "UserIDForSender behaves like a homeserver's querier: a sender ID that is a user ID maps to itself, a known "
        "pseudo ID to its user, an unknown well-formed pseudo ID to (nil, nil), anything else to an error",
        "signature checks use a verifier / key ring that already holds the keys of the servers involved; "
        "IsRejected answers false; EventProvider / StateProvider stubs return exactly the requested events they know",
        "only entry points reachable with remote data count: the Trusted parsing functions are exercised only on bytes "
        "that the untrusted parser produced (Reload / Headered round trips); deliberate panics on programmer error "
        "(fewer than two state sets, nil querier, RoomID.Domain() called by the application) are not exercised",
        "every input class is realised by one concrete member; the byte-string half of the quantifier is sampled by a "
        "seeded mutational driver without coverage guidance (coverage-guided fuzzing is deliberately not used)",
        "a hang (no answer for 300 s) is a machinery error, not a verdict",
        "handlers: HandleInvite / HandleInviteV3 / HandleSendJoin / HandleMakeJoin / HandleMakeLeave, PerformJoin, PerformInvite and "
        "RequestBackfill are driven with the remote event / answer of the pipeline and harness callbacks; the callbacks answer "
        "within their contracts only (normal, (nil, nil), nothing, an error, everything rejected): a callback that breaks its "
        "contract (a verifier returning fewer results than requests, a provider returning other events than asked for) is not remote input",
        "the sibling constructors NewEventFromTrustedJSON / NewEventFromHeaderedJSON are given bytes the untrusted parser accepted",
        "room-ID shapes: two families exist (with a domain; '!' + 43 URL-safe base64 characters); each shape is realised by an unrelated "
        "member, by the ID derived from the room's own create event, and by its nearest neighbours (42 / 44 characters, standard base64 alphabet)",
    ]
    ctx.notes["rule"] = (
        "TLC enumerates Lifecycle_gen.tla families %s: subject type x field (path) x input class (single faults; "
        "double faults over identifier/structure fields) x room versions x pipelines Parse > [mutator] > observer of "
        "<= 3 operations (constructors: untrusted / trusted / headered; roles of the event in resolution: state, auth, both, "
        "every event listed twice, state sets holding nothing the checks need; handlers, PerformInvite, RequestBackfill; "
        "application callbacks answering normally / (nil, nil) / nothing / an error / everything rejected) - the well-formed "
        "subject, an edge-class family and the cross-version room-ID-shape family (the room ID of a create / member / other event - "
        "and of the create event inside state, send_join, transaction and backfill bodies and of the room a PerformJoin answer describes - has the shape "
        "of the OTHER family of room versions: domainless in versions with domain-carrying room IDs and conversely; every stage from the "
        "auth check of the event itself to state resolution and the handlers) for ALL 16 versions already in the quick tier - with relevance pruning (an accessor is paired only with faults in field groups it reads; "
        "nothing follows a parse the design fixes to fail), plus raw inputs (identifiers, JSON documents, signed "
        "objects, key responses, Authorization headers, response bodies x every decode target) and make_join / "
        "send_join answers; then %d seeded byte-level mutants of the repository's test vectors and harness-built "
        "inputs; distinct = distinct (family, type, input class, pipeline, parse result, outcome sequence)"
        % (FAMILIES[ctx.tier], PROBES[ctx.tier]))
    ctx.notes["constants"] = "Lifecycle_gen_{%s}_%s.cfg" % (",".join(FAMILIES[ctx.tier]), ctx.tier)

    # concretiser self-test: the fault-free subject of every (version, type) parses unredacted and is authorised
    for r in ctx.harness("c18self", pkg=PKG):
        m = _extra(r).get("machine")
        if m:
            raise MachineryError("concretiser self-test: " + m)

    # code -> spec recording runs next to the generation (it only needs the harness)
    from concurrent.futures import ThreadPoolExecutor
    ctx._spec_dir()          # create the scratch copy of spec/ before any thread starts
    ctx.harness_build(pkg=PKG)
    pool = ThreadPoolExecutor(max_workers=3 if ctx.tier == "quick" else 2)
    rec = pool.submit(record, ctx, PROBES[ctx.tier])

    # spec -> code: TLC runs of the families are independent (a few at a time); the pipelines of a family are
    # executed as soon as it has been generated
    def gen(fam):
        cfg = "Lifecycle_gen_%s_%s.cfg" % (fam, ctx.tier)
        return cfg, ctx.tlc("Lifecycle_gen", cfg, timeout=1800, heap="12g", workers=max(2, ctx.workers // 2))

    futures = [pool.submit(gen, fam) for fam in FAMILIES[ctx.tier]]
    try:
        for fut in futures:
            cfg, r = fut.result()
            if not r.records:
                raise MachineryError("no records from %s (dead generator)" % cfg)
            if cfg.startswith("Lifecycle_gen_xshape_"):
                _shape_obligations(cfg, r.records)
            results = [x for x in ctx.harness("c18", r.records, pkg=PKG, timeout=3000) if "i" in x]
            _report(ctx, "c18", r.records, results, cfg)
            ctx.log("%s: %d pipelines executed, %d failing" % (cfg, len(results), sum(1 for x in results if not x.get("ok"))))
            del r, results
        recorded = rec.result()
    finally:
        pool.shutdown(wait=True, cancel_futures=True)

    # code -> spec
    validate(ctx, *recorded)


def record(ctx, n):
    trace = os.path.join(ctx.scratch, "c18_trace.ndjson")
    return trace, ctx.harness("c18rec", args=["-out", trace, "-n", n, "-par", max(2, ctx.workers // 4)], pkg=PKG, timeout=3000)


def validate(ctx, trace, res):
    summary = [r for r in res if r.get("summary")]
    failing = [r for r in res if "i" in r]
    if not summary:
        raise MachineryError("c18rec wrote no summary (dead recorder)")
    ctx.log("c18rec: %s" % json.dumps(summary[0])[:600])
    for k in summary[0].get("kinds", []):
        ctx.nontrivial.add("rec:" + k.split("=")[0])
    by_id = {}
    for r in failing:
        p = _extra(r).get("probe")
        if p is None:
            raise MachineryError("failing recorder line without a probe: %s" % json.dumps(r)[:300])
        by_id[_extra(r).get("id")] = r

    # every panic seen while recording: reproduce the probe alone in a fresh process, one report per key
    groups = {}
    for r in failing:
        fs = _extra(r).get("findings") or []
        for k in [f["key"] for f in fs] or [r.get("key")]:
            groups.setdefault(k, []).append(r)
    reported = set()
    if groups:
        keys = sorted(groups)
        probes = [_extra(groups[k][0])["probe"] for k in keys]
        again = [r for r in ctx.harness("c18probe", probes, args=["-mode", "isolate"], pkg=PKG) if "i" in r]
        if len(again) != len(probes):
            raise MachineryError("probe reproduction answered %d of %d" % (len(again), len(probes)))
        for k, p, r2 in zip(keys, probes, again):
            if r2.get("ok") or k not in _keys_of(r2):
                raise MachineryError("recorded panic %s did not reproduce in a fresh process (probe seed %s, %s)" % (k, p.get("seed"), p.get("mut")))
            what = r2.get("what", "")
            for f in _extra(r2).get("findings") or []:
                if f.get("key") == k and k != r2.get("key"):
                    what = "%s panicked (%s) in %s; same input as %s: %s" % (f.get("func"), f.get("value"), f.get("op"), r2.get("key"), what)
            ctx.disagree(k, what[:3000], {"harness": "c18probe", "pkg": PKG, "args": [], "record": p,
                                           "result": {x: r2[x] for x in r2 if x != "extra"}, "count": len(groups[k])})
            reported.add(k)

    with open(trace) as f:
        lines = [json.loads(x) for x in f.read().splitlines() if x.strip()]
    ids = {ln["id"] for ln in lines}

    def on_reject(rec, lineno):
        r = by_id.get(rec.get("id"))
        if r is None:
            raise MachineryError("trace line %d (datum %s) is rejected by Lifecycle_trace.tla but no panic was recorded for it: "
                                 "the call vocabulary of harness and specification differ: %s" % (lineno, rec.get("id"), json.dumps(rec)[:500]))
        ks = [f["key"] for f in (_extra(r).get("findings") or [])] or [r.get("key")]
        if not all(k in reported for k in ks):
            raise MachineryError("rejected trace line %d carries an unreported finding %s" % (lineno, ks))

    ctx.validate_trace("Lifecycle_trace", "Lifecycle_trace.cfg", trace, on_reject, max_rejections=100000)
    # a failing datum must have been rejected by the trace specification as well (the two directions agree)
    missing = [i for i in by_id if i not in ids]
    if missing:
        raise MachineryError("failing data %s have no trace line" % missing[:5])
