"""C10 - state resolution returns the state the room version's algorithm defines.
Room.tla builds room DAGs (honest servers, forks of any shape); StateRes.tla transcribes v1 / v2 / v2.1 stage by
stage; every fork pair of every reachable room is a resolution query replayed through ResolveConflictsNew and
ResolveStateConflictsV2New.  In the other direction a seeded driver grows larger rooms (up to ~28 events, pairs and
triples of state sets, all three algorithms) with real events / auth / resolution and StateRes_trace.tla
recomputes every logged result.
Power levels of the room model vary the `users` map and `users_default` (creation prefixes 4 / 5 set it to 50 / 100,
the free kind "pld" changes it; the recorder sets and changes it too): the sender power of the power ordering (R2)
and the auth rules read the effective level - an entry, or users_default for a user without one."""
from vlib import room


def run(ctx):
    ctx.repro_attempts = 6   # order- and schedule-dependent misbehaviour is retried in fresh processes
    ctx.exhaustive = True
    ctx.notes["rule"] = ("every fork pair of every room reachable in Room.tla within the plans of vlib/room.py "
                         "(creation prefix incl. users_default absent / 50 / 100 x version x MaxFree free events); distinct = (version, kinds of the "
                         "events that differ between the state sets, resolved state)")
    ctx.notes["plans"] = [list(p) for p in room.plans(ctx.tier)]
    room.generate(ctx, on_batch=lambda recs: ctx.replay_and_compare("c10", recs))
    room.record_and_validate(ctx, 1500 if ctx.tier == "quick" else 10000)
