"""C10 - state resolution returns the state the room version's algorithm defines.
Room.tla builds room DAGs (honest servers, forks of any shape); StateRes.tla transcribes v1 / v2 / v2.1 stage by
stage; every fork pair of every reachable room is a resolution query replayed through ResolveConflictsNew and
ResolveStateConflictsV2New.  In the other direction a seeded driver grows larger rooms (up to ~28 events, pairs and
triples of state sets, all three algorithms) with real events / auth / resolution and StateRes_trace.tla
recomputes every logged result.
Power levels of the room model vary the `users` map and `users_default` (creation prefixes 4 / 5 set it to 50 / 100,
the free kind "pld" changes it; the recorder sets and changes it too): the sender power of the power ordering (R2)
and the auth rules read the effective level - an entry, or users_default for a user without one.
The power-levels events also vary how they WRITE their levels (event field `spell`: integers, strings, padded strings,
floats before version 6 - room versions 1-9 read the same level from each; Room.tla picks the spelling of the creation prefix and of
every later power-levels event from the run's SpellSet, the recorder per room): every reader of a level, the sender
power of the power ordering included, must read it as the room version does (StateRes!LevelsSpellingFree).
Depths are ranks: version-1 queries are also resolved with the ranks realised as int64 depths next to MinInt64 /
MaxInt64 and more than 2^63 apart around a pivot (StateRes!V1DepthRankOnly: the definition reads their order only),
v2 / v2.1 queries with depths that run against the DAG (never read)."""
from vlib import room


def run(ctx):
    ctx.repro_attempts = 6   # order- and schedule-dependent misbehaviour is retried in fresh processes
    ctx.exhaustive = True
    ctx.notes["rule"] = ("every fork pair of every room reachable in Room.tla within the plans of vlib/room.py "
                         "(creation prefix incl. users_default absent / 50 / 100 x spelling of the levels x version x MaxFree free events) "
                         "x realisations of the depth ranks (v1: natural, extreme; v2: natural, against the DAG); distinct = (version, kinds of the "
                         "events that differ between the state sets, spelling, resolved state)")
    ctx.notes["plans"] = [list(p) for p in room.plans(ctx.tier, ctx.seed)]
    room.generate(ctx, on_batch=lambda recs: ctx.replay_and_compare("c10", recs))
    room.record_and_validate(ctx, 1500 if ctx.tier == "quick" else 10000)
