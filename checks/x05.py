"""X05 (not a listed property; growth of the specification) - the invite handshake seen from the INVITING server.

InviteFlow.tla <-> gomatrixserverlib.PerformInvite (performinvite.go, invite.go) end to end against the invited side:
                   the real HandleInvite / HandleInviteV3 with B's own key for the honest behaviour, a scripted server
                   for the misbehaving ones (transport error; another event - other room, other type, other state key,
                   non-invite membership; A's signature stripped; no signatures; the event echoed without B's
                   signature; an earlier genuine invite of another user; forged unsigned.invite_room_state).

Properties (invariants of InviteFlow.tla over history variables, written from the server-server API "Inviting to a
room", the authorisation rules for membership = invite, the auth_events selection and the doc comments):
  AllowedOnly          an event is returned only if the version is supported, the inviter may invite by the auth state
                       on A and the invitee is not already joined
  ReturnedIsTheInvite  the returned event is the m.room.member invite of the invitee in the room; v2: its event ID is
                       that of the event A built, v3: the proto event completed; valid signature of A and (remote
                       invitee / pseudo IDs) of B; unsigned.invite_room_state is the stripped state
  SentIsTheInvite      what goes on the wire is that event (v3: the proto event) with the stripped state
  NoLeak / CheckBeforeSend   nothing sent for a local invitee or when A knows beforehand that the call fails; v2: the
                       auth check precedes the send (v3: documented as checked afterwards); at most one request
  References           auth_events = what the rules need and exists, prev_events = forward extremities truncated to 20
                       (NOTSPEC limits; 10 auth events can never be reached by an invite), depth from the latest events
  EnvErrors            querier errors / RoomExists = false -> error, nothing sent
  Complete / WhySound  the call succeeds exactly when nothing stands against it
Design freedom: constant Repair (A keeps its own event and takes only B's signature from the answer: an answer whose only
defects are A's missing signature or a changed "unsigned" is then repaired instead of refused); both designs satisfy every
invariant (InviteFlow_repair.cfg), the replay accepts either outcome for such answers.
"""
import collections
import os

from vlib.core import MachineryError

# planted defect of A's mechanics in the model -> the invariant that must refute it
FAULTS = [
    ("return_unchecked", "ReturnedIsTheInvite"),
    ("send_before_check", "NoLeak"),
    ("local_sends", "NoLeak"),
    ("skip_joined", "AllowedOnly"),
    ("skip_check", "AllowedOnly"),
    ("no_truncate", "References"),
    ("ignore_noroom", "EnvErrors"),
]

ACTIONS = ("Prepare", "Precheck", "Build", "CheckAllowed", "Send", "RemoteHandle", "RemoteMisbehave", "NetFail",
           "Receive", "Return")


def _fault_cfg(ctx, fault, inv):
    d = ctx._spec_dir()
    name = "InviteFlow_fault_%s.cfg" % fault
    with open(os.path.join(d, name), "w") as f:
        f.write('SPECIFICATION Spec\nCONSTANTS\n  VerSet <- VersFault\n  Budget = 1\n  Fault = "%s"\n'
                '  Repair = FALSE\nINVARIANTS TypeOK %s\nCHECK_DEADLOCK FALSE\n' % (fault, inv))
    return name


def _census(records):
    """vacuity guard: every path, every outcome reason and every behaviour of B occurs in the emitted behaviours"""
    c = collections.Counter()
    for r in records:
        path = ("v3" if r["ver"] == "org.matrix.msc4014" else "v2") + ("/local" if r["local"] else "/remote")
        c["path:" + path] += 1
        c["res:" + r["out"]["res"]] += 1
        c["why:" + r["out"]["why"]] += 1
        c["remote:" + r["sc"]["remote"]] += 1
        c["sent:%d" % len(r["sent"])] += 1
        c["order:" + ",".join(r["order"])] += 1
        c["nprev:%d" % r["built"]["nprev"]] += 1
        c["stripped:" + r["sc"]["stripped"]] += 1
    return c


REQUIRED = (
    ["path:v2/local", "path:v2/remote", "path:v3/local", "path:v3/remote", "res:ok", "res:err", "sent:0", "sent:1",
     "order:check,send", "order:send,check", "order:check", "nprev:1", "nprev:20", "stripped:supplied", "stripped:generated"]
    + ["why:" + w for w in ("state_err", "unsupported", "sid_err", "mem_err", "joined", "latest_err", "noroom", "creator_err",
                            "auth_err", "notallowed", "remote_failed", "bad_answer", "store_err")]
    + ["remote:" + k for k in ("honest", "neterr", "echo", "strip_a_sig", "unsigned", "other_room", "other_type", "other_skey",
                               "non_invite", "other_user", "other_irs", "no_skey", "other_sender")])


def run(ctx):
    ctx.assumptions += [
        "ed25519 is unforgeable: B can sign anything under its own name (and, in a pseudo-ID room, with the room key it chose "
        "for its user) but cannot produce A's signature over an event A did not sign; the 'other_user' answer is an event A "
        "really signed earlier",
        "A's queriers are honest views of ONE room state (state querier, event querier and auth-event provider agree); the only "
        "divergence modelled is the documented race: the membership table already has the invitee joined while the state "
        "snapshot does not",
        "the federation client (the caller's FederatedInviteClient) is a transparent transport: B's answer must parse as an "
        "untrusted event of the room version (fields, content hash) and is handed to PerformInvite as B sent it, including "
        "unsigned.  A client that returns the untrusted parse itself (as Dendrite's does) drops unsigned: then "
        "invite_room_state of the returned event is absent for every remote invitee (thorough tier: replayed in that mode too, "
        "with that one clause not compared; recorded in the evidence as an observation)",
        "honest B = the real HandleInvite / HandleInviteV3 with B's key, a real KeyRing holding A's key, the stripped state A "
        "sent, and B's own view of the room (unknown / known / invitee already joined)",
        "doc comment of PerformInvite: for a local invitee 'nothing' may be returned: (nil, nil) is accepted there; an event, if "
        "returned, must be the invite",
        "error classes are compared only where the Matrix specification names one (unsupported room version, forbidden for "
        "an unauthorised invite and for the already-joined refusal); otherwise any error is an error",
        "an invite needs at most five auth events (create, power levels, join rules, the two memberships): the documented limit "
        "of 10 auth_events cannot be reached through PerformInvite and is not exercised (invariant Sanity)",
        "the empty stripped state (a state querier that yields nothing for an existing room) is not modelled",
    ]
    tier = ctx.tier
    ctx._spec_dir()
    ctx.harness_build(pkg="x05")
    r = ctx.tlc("InviteFlow_gen", "InviteFlow_gen_%s.cfg" % tier, coverage=bool(os.environ.get("X05_COVERAGE")),
                workers=min(ctx.workers, 8))
    if not r.records:
        raise MachineryError("InviteFlow_gen produced no behaviour")
    if os.environ.get("X05_COVERAGE"):
        dead = [a for a in ACTIONS if not r.coverage.get(a)]
        ctx.notes["coverage_actions"] = {a: r.coverage.get(a, 0) for a in ACTIONS}
        if dead:
            raise MachineryError("InviteFlow.tla: actions never taken: %s" % ", ".join(dead))
    census = _census(r.records)
    missing = [k for k in REQUIRED if not census[k]]
    if missing:
        raise MachineryError("vacuous generation: no emitted behaviour has %s" % ", ".join(missing))
    ctx.log("InviteFlow: %d behaviours, %d versions" % (len(r.records), len(set(x["ver"] for x in r.records))))
    ctx.replay_and_compare("x05", r.records, pkg="x05")
    if tier == "thorough":
        # the same behaviours with a federation client that returns the untrusted parse of B's answer (drops unsigned)
        remote = [x for x in r.records if not x["local"]]
        res = ctx.replay_and_compare("x05", remote, args=["-mode", "untrusted"], pkg="x05")
        ctx.notes["untrusted_parse_client"] = {
            "replayed": len(remote),
            "returned_event_without_invite_room_state": sum(1 for x in res if "irs-dropped-by-client" in (x.get("nt") or "")),
        }
    # the other design the specification allows for A (Repair = TRUE) satisfies every invariant as well
    ctx.tlc("InviteFlow_gen", "InviteFlow_repair.cfg", expect_records=False, workers=2)
    # the invariants must refute planted defects of the model's mechanics (the properties are not vacuous)
    faults = FAULTS if tier == "thorough" else [FAULTS[(ctx.seed + k * 3) % len(FAULTS)] for k in range(2)]
    for fault, inv in faults:
        fr = ctx.tlc("InviteFlow_gen", _fault_cfg(ctx, fault, inv), allow_violation=True, expect_records=False, workers=2)
        if fr.violated != inv:
            raise MachineryError("InviteFlow.tla with the planted defect %s: expected a violation of %s, TLC reports %s"
                                 % (fault, inv, fr.violated))
    ctx.exhaustive = True
    ctx.notes["rule"] = (
        "every completed behaviour of InviteFlow.tla over room version x local/remote invitee x supplied/generated stripped "
        "state x at most Budget deviations from the base scenario (inviter joined with enough power, invitee unknown to the "
        "room, no race, one forward extremity, no failing querier, honest B that does not know the room) in the dimensions "
        "inviter membership, invitee membership, race, power level, creator, failing querier, forward extremities, behaviour "
        "of B, B's view; distinct = (path, outcome, reasons against the call, behaviour of B)")
    ctx.notes["constants"] = "InviteFlow_gen_%s.cfg" % tier
    ctx.notes["census"] = {k: census[k] for k in sorted(census)}
    ctx.notes["planted_model_faults_refuted"] = ["%s->%s" % f for f in faults]
