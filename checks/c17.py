"""C17 - identifiers, size limits and per-version traits follow the specification.

spec -> code, four specifications, every record replayed by harness/cmd/c17:

  Ident.tla        identifier grammars (user IDs strict / historical, room IDs, server names) as declarative
                   recognisers; the speller emits strings atom by atom ("free": every sequence over the class
                   alphabet; "struct": grammar-guided with a bounded number of deviations and multi-character
                   atoms).  Replayed through spec.NewUserID, spec.NewRoomID, spec.ParseAndValidateServerName,
                   gomatrixserverlib.SplitID (one pass per parser).
  Base64_gen.tla   unpadded base64 in both alphabets over byte strings hitting sextets 62 / 63.
  Limits.tla       255 code points / 255 bytes / 65 536 bytes on receipt (content hash matching or not: the
                   redacted survivor is judged the same way), on build and in CheckFields; family "place": the
                   same totals 65 535 / 65 536 / 65 537 with the bulk of the bytes in content, in unsigned, in
                   both, in type / state key at their limits, in prev_events, in auth_events, in the signatures
                   of many servers, CheckFields also after SetUnsigned / Sign and on headered JSON.
                   Besides the error every receipt and every build is judged on what it hands on (`ret`): with
                   "ok" and with "persistable" the event comes back (fields intact) and EventJSONs.UntrustedEvents
                   keeps it, a refused one is dropped by it; families "batch2" / "batch3": lists of received events
                   (ok, byte-only excess per field, code-point excess per field, not an event) through
                   UntrustedEvents: exactly the accepted and persistable items come back, in order.
  VersionTable.tla the 16 x 12 trait matrix: getters and one behavioural probe per function-valued entry.
"""

import concurrent.futures

# user IDs: both parses of the same string in one process, in both orders (historical then strict, strict then
# historical): a verdict must not depend on what was parsed before
IDENT_MODES = ["uhs", "ush", "rm", "sn", "split"]


def run(ctx):
    t = ctx.tier
    ctx.exhaustive = True
    ctx.assumptions += [
        "IPv6 validity is a table of 15 valid and 18 invalid bodies (RFC 3513 text forms); other bracketed bodies "
        "made of IPv6 characters are not judged",
        "contested grammar clauses are not judged (verdict 'free'): '+' in a strict localpart, the empty localpart in "
        "historical mode, NUL in a room ID's opaque part, more than 255 bytes but at most 255 code points",
        "base64: only canonical unpadded spellings in the two alphabets are judged; padded, mixed-alphabet, "
        "invalid-character, impossible-length and non-canonical inputs must merely not crash",
        "events are hashed and signed with a real ed25519 key (EventBuilder.Build and an independent hash-and-sign); "
        "signature verification itself is not part of this property",
        "key-validity probes keep margins of hours / days to the real clock",
        "what is handed on: a room ID over the byte limit only is found before there is an event, so whether "
        "anything comes back with that persistable report is not judged; nor is what the constructors return next "
        "to a non-persistable error",
        "room IDs as the room_id of an event: a string the grammar refuses must not get through any constructor; a "
        "valid room ID must get through in the form the version uses (domainless in 12, with a domain in 1 and 10); "
        "the other form is not judged",
        "on receipt the event that is judged is the received JSON without its unsigned member (the receiver drops "
        "it, with age_ts / outlier / destinations, before there is an event); a received JSON that is over 65 536 "
        "bytes only with that member may be accepted or refused (never reported persistable), and what is accepted "
        "has at most 65 536 bytes of JSON",
    ]
    ctx.notes["rule"] = (
        "Ident: every string the speller of Ident.tla reaches (free: all sequences of <= %d atoms over 19 character "
        "classes; struct: sigil/localpart/host/port positions with <= %d deviations from the canonical skeleton, "
        "PAD strings closed at total lengths 254/255/256; stray: 6 valid identifiers x {LF, CR, TAB, space, NUL} x "
        "(inserted at every position | replacing every character | runs of 2 / CR LF / up to 255 / up to 256 bytes at 5 spots)), "
        "each judged by 4 recognisers + SplitID, room-ID-shaped ones also as room_id of an event x 3 constructors' versions x receipt / trusted; "
        "Base64: all byte strings of <= 3 bytes over the %s byte alphabet x spelling variants, and each of these x JSON spelling "
        "(plain | one position escaped, every position x every applicable style of backslash-u lower / upper hex, backslash-solidus | all positions escaped); "
        "Limits: field x shape (code points / bytes at, below, above 255; 1-, 2-, 4-byte characters) x path x version "
        "x content hash on receipt (match / mismatch re-parsed after redaction / mismatch unchanged by redaction), "
        "JSON sizes 65535/65536/65537, the same sizes x where the bulk of the bytes is (content, unsigned, half each, "
        "40 bytes of unsigned at the boundary of the total and of the event proper, type + state key at 255, prev_events, "
        "auth_events, signatures of many servers) x path (receipt, Build with ProtoEvent.Unsigned / EventBuilder.SetUnsigned, "
        "CheckFields on trusted / headered JSON, after SetUnsigned, after Sign), and every pair of excesses (field, byte-only | code points) on two of type / state key / sender / room ID / event size; "
        "every receipt / build also judged on the event handed on and on what EventJSONs.UntrustedEvents keeps; lists of <= %d received events over 9 item kinds x 16 versions; "
        "VersionTable: 16 versions x (getters + 44 probes). "
        "distinct = distinct (parser, grammar description, verdict) / (variant, length, alphabet) / "
        "(family, path, version class, shape class, verdict) / (probe, outcome) classes"
        % ((3, 2, "7-value", 2) if t == "quick" else (4, 3, "12-value", 3)))

    jobs = [("Ident_gen", "Ident_gen_free_%s.cfg" % t, "ident"), ("Ident_gen", "Ident_gen_struct_%s.cfg" % t, "ident"),
            ("Ident_gen", "Ident_gen_stray_%s.cfg" % t, "ident"),
            ("Base64_gen", "Base64_gen_%s.cfg" % t, "b64"), ("Base64_gen", "Base64_gen_json_%s.cfg" % t, "b64"),
            ("Limits_gen", "Limits_gen_batch_%s.cfg" % t, "limits"),
            ("Limits_gen", "Limits_gen_single_%s.cfg" % t, "limits"), ("Limits_gen", "Limits_gen_pair_%s.cfg" % t, "limits"),
            ("Limits_gen", "Limits_gen_create_%s.cfg" % t, "limits"), ("Limits_gen", "Limits_gen_place_%s.cfg" % t, "limits"),
            ("VersionTable_gen", "VersionTable_gen_%s.cfg" % t, "table")]
    if t == "quick":
        # quick: the full single-field and pair families run for one version per untrusted constructor (1, 10, 12;
        # pairs also msc4014); the core of the single-field family runs for all 16 versions (the lenient byte limit
        # is a per-version grant).  thorough: the full families for all 16 versions.
        jobs.insert(5, ("Limits_gen", "Limits_gen_core_quick.cfg", "limits"))

    def replay(cmd, records):
        if cmd == "ident":
            for mode in IDENT_MODES:   # one pass per parser
                ctx.replay_and_compare("ident", records, args=["-mode", mode], pkg="c17")
        else:
            ctx.replay_and_compare(cmd, records, pkg="c17")

    if t == "quick":
        # the generators are independent: run TLC on all of them at once (wall time) and replay, in a fixed order
        # (the short generators first), each as soon as it is there - while the long ones are still running
        jobs.sort(key=lambda j: 0 if j[2] in ("limits", "table") else 1 if j[2] == "b64" else 2)
        ctx._spec_dir()
        ctx.harness_build(pkg="c17")
        # at most 8 TLC processes at a time (memory), the long generators submitted first; the results are
        # taken in the fixed replay order whatever the order of completion
        long_first = {"Ident_gen_struct_quick.cfg": 0, "Base64_gen_quick.cfg": 1, "Ident_gen_free_quick.cfg": 2,
                      "Ident_gen_stray_quick.cfg": 3, "Base64_gen_json_quick.cfg": 4}
        with concurrent.futures.ThreadPoolExecutor(max_workers=8) as ex:
            futs = {}
            for m, cfg, _ in sorted(jobs, key=lambda j: long_first.get(j[1], 9)):
                futs[cfg] = ex.submit(ctx.tlc, m, cfg, 4, 600)
            results = []
            for m, cfg, cmd in jobs:
                r = futs[cfg].result()
                results.append((r.distinct, r.generated))
                replay(cmd, r.records)
                del r
        # the counters were updated from several threads: restate them from the results
        ctx.states = sum(d for d, _ in results)
        ctx.transitions = sum(g for _, g in results)
        ctx.tlc_runs.sort(key=lambda x: (x["module"], x["cfg"]))
    else:
        for m, cfg, cmd in jobs:
            r = ctx.tlc(m, cfg, timeout=1500)
            replay(cmd, r.records)
            del r
