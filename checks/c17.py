"""C17 - identifiers, size limits and per-version traits follow the specification.

spec -> code, four specifications, every record replayed by harness/cmd/c17:

  Ident.tla        identifier grammars (user IDs strict / historical, room IDs, server names) as declarative
                   recognisers; the speller emits strings atom by atom ("free": every sequence over the class
                   alphabet; "struct": grammar-guided with a bounded number of deviations and multi-character
                   atoms).  Replayed through spec.NewUserID, spec.NewRoomID, spec.ParseAndValidateServerName,
                   gomatrixserverlib.SplitID (one pass per parser).
  Base64_gen.tla   unpadded base64 in both alphabets over byte strings hitting sextets 62 / 63.
  Limits.tla       255 code points / 255 bytes / 65 536 bytes on receipt, on build and in CheckFields.
  VersionTable.tla the 16 x 12 trait matrix: getters and one behavioural probe per function-valued entry.
"""

IDENT_MODES = ["us", "uh", "rm", "sn", "split"]


def run(ctx):
    t = ctx.tier
    ctx.exhaustive = True
    ctx.assumptions += [
        "IPv6 validity is a table of 15 valid and 18 invalid bodies (RFC 3513 text forms); other bracketed bodies "
        "made of IPv6 characters are not judged",
        "contested grammar clauses are not judged (verdict 'free'): '+' in a strict localpart, the empty localpart in "
        "historical mode, NUL in a room ID's opaque part, more than 255 bytes but at most 255 code points",
        "base64: only canonical unpadded spellings in the two alphabets are judged; padded, mixed-alphabet, "
        "invalid-character, impossible-length and non-canonical inputs must merely not crash",
        "events are hashed and signed with a real ed25519 key (EventBuilder.Build and an independent hash-and-sign); "
        "signature verification itself is not part of this property",
        "key-validity probes keep margins of hours / days to the real clock",
    ]
    ctx.notes["rule"] = (
        "Ident: every string the speller of Ident.tla reaches (free: all sequences of <= %d atoms over 19 character "
        "classes; struct: sigil/localpart/host/port positions with <= %d deviations from the canonical skeleton, "
        "PAD strings closed at total lengths 254/255/256), each judged by 4 recognisers + SplitID; "
        "Base64: all byte strings of <= 3 bytes over the %s byte alphabet x spelling variants; "
        "Limits: field x shape (code points / bytes at, below, above 255; 1-, 2-, 4-byte characters) x path x version, "
        "JSON sizes 65535/65536/65537, and pairs (byte-only excess + hard excess); "
        "VersionTable: 16 versions x (getters + 34 probes). "
        "distinct = distinct (parser, grammar description, verdict) / (variant, length, alphabet) / "
        "(family, path, version class, shape class, verdict) / (probe, outcome) classes"
        % ((3, 2, "7-value") if t == "quick" else (4, 3, "12-value")))

    # --- identifiers ---------------------------------------------------------------------------
    for fam in ("free", "struct"):
        r = ctx.tlc("Ident_gen", "Ident_gen_%s_%s.cfg" % (fam, t), timeout=1500)
        for mode in IDENT_MODES:
            ctx.replay_and_compare("ident", r.records, args=["-mode", mode], pkg="c17")
        del r

    # --- base64 ----------------------------------------------------------------------------------
    r = ctx.tlc("Base64_gen", "Base64_gen_%s.cfg" % t)
    ctx.replay_and_compare("b64", r.records, pkg="c17")

    # --- size limits -------------------------------------------------------------------------------
    for fam in ("single", "pair"):
        r = ctx.tlc("Limits_gen", "Limits_gen_%s_%s.cfg" % (fam, t))
        ctx.replay_and_compare("limits", r.records, pkg="c17")

    # --- version table -----------------------------------------------------------------------------
    r = ctx.tlc("VersionTable_gen", "VersionTable_gen_%s.cfg" % t)
    ctx.replay_and_compare("table", r.records, pkg="c17")
