"""C06 - an event verifies only if every protocol-required server validly signed it.

EventSigs.tla <-> VerifyEventSignatures / VerifyAllEventSignatures over a real KeyRing.

spec -> code: every scenario (16 room versions x event kind x server-identity coincidences x signature state per
required server x what the other servers carry x time mode) is realised as a real event built with
EventBuilder.Build and signed with PDU.Sign by real ed25519 keys; the verifier is a real gomatrixserverlib.KeyRing
over an in-memory KeyDatabase whose entries (valid_until_ts / expired_ts) encode the validity faults; nil vs error
of VerifyEventSignatures and of VerifyAllEventSignatures (the scenario between a valid and an unsigned control event)
is compared with Verify of the specification.

The time line has ends (EventSigs.tla, Instants): origin_server_ts 0, 1, 2^63 and the largest instant the room version
admits (2^53 - 1 where canonical JSON is enforced, 2^64 - 1 before), with the key entries placed at / around those
instants, keys in the database or at a fetcher.  Batches: several events that need the same keys at different instants
go through ONE KeyRing.VerifyJSONs call (the requests are those VerifyEventSignatures builds, collected); every message
must get the verdict it gets alone, and the key sources must be asked for the latest instant a key is needed for."""

PKG = "c06"


def run(ctx):
    ctx.assumptions += [
        "symbolic cryptography: ed25519 is unforgeable (a corrupted / stale / other-key signature never verifies); "
        "real key pairs derived from fixed seeds",
        "time: origin_server_ts is placed in the verifier's past (key validity faults are +-1 h around it, the "
        "valid_until_ts = origin_server_ts boundary exactly) or 6 / 8 days in its future (keys valid 30 more days): "
        "the 7-day cap is exercised to +-1 day of the real clock only; the expired_ts boundary is not exercised exactly",
        "the ends of the time line: origin_server_ts = 0, 1 (in the past like any instant), 2^63 (where admitted) and the "
        "largest admitted instant (2^53 - 1 where canonical JSON is enforced on events, else 2^63 - 1 / with FullRange 2^64 - 1; far beyond 7 days "
        "from now), for %s, every signature state that says something about time and exists there (0 in the key tables "
        "means none: valid_until_ts = origin_server_ts does not exist at 0, an entry before origin_server_ts not at 0 / 1, "
        "one after it not at the largest instant) and absent / corrupt / wrong key / unknown key, keys in the database, at "
        "a fetcher, with a volunteering fetcher; pseudo-ID rooms at 0 and 1 only" % (
            "a message, an invite, a restricted join (a pseudo-ID join)" if ctx.tier == "quick" else "every event"),
        "batches through one KeyRing.VerifyJSONs call (room versions %s; %s messages; a message or an invite sent at "
        "every sequence of instants from 0 / 1 / the ordinary past / 2^63 / the largest): the key of the sender's server is "
        "current, has valid_until_ts or expired_ts at the instant of one of the messages, or is held by a notary-like source "
        "with a cached copy (valid_until_ts at one message's instant) and a fresh one, answering a request for validity up "
        "to T with the cached copy if it reaches T; in the database / at a fetcher; one message's signature corrupted; "
        "verdict per message, and the instant the database / fetcher / notary is asked for (first call) = the latest "
        "instant of the batch" % (("1, 4, 5, 6, 10, 12", "2") if ctx.tier == "quick" else ("all but the pseudo-ID one", "1-3")),
        "signatures are made over an INDEPENDENT redacted form: the projection of the event onto the keep lists that "
        "Redaction.tla derives for the room version and event type (carried by each record), signed with SignJSON; the "
        "signature PDU.Sign makes must be the same (key C06/signed-form/...); event types with their own keep lists "
        "(aliases, create, join_rules, power_levels, history_visibility, redaction, member with "
        "join_authorised_via_users_server / third_party_invite) are enumerated with the crypto states only",
        "boundaries on data: valid_until_ts = origin_server_ts (valid), = origin_server_ts - 1 ms (invalid where strict), "
        "expired_ts = origin_server_ts (invalid: a key is valid strictly before its expired_ts) and + 1 ms (valid)",
        "malformed signature values (not base64 / wrong length / empty) alone (fails) and next to a good signature of the same "
        "server or on servers that are not required (must not matter)",
        "failing key sources: the database / the fetcher answering every lookup with an error, for fully signed events (no "
        "key, no success); pseudo-ID joins: mxid_mapping ok / missing / its server signature corrupted (an mxid_mapping "
        "without any signature is accepted by the library: outside the property sentence, not compared)",
        "batches: [valid control, scenario, unsigned control] (the two controls share one event ID) and the scenario's event "
        "next to a twin with the same event ID and the opposite signature validity, in both orders; "
        "org.example.member: a non-membership event dressed like an invite with join_authorised_via_users_server",
        "presentation `received` (not for joins of pseudo-ID rooms, whose mxid_mapping redaction drops; in room version 8 the redacted form of a restricted join has lost join_authorised_via_users_server - repaired by room version 9 - so the authorising server is not required of it): the signed event gets a top-level key added in transit and is parsed with "
        "NewEventFromUntrustedJSON (content hash fails -> redacted form): same verdict as for the event as signed; "
        "enumerated with the plain key sources and silent other servers",
        "key sources: by default every key is in the database and the key ring has no fetcher; for %s the keys of "
        "%s are only at a key fetcher, and / or the fetcher volunteers an unexpired copy (valid a day from now) "
        "of every database-held key of a required server; expectation: an expired key held by the database is final, "
        "a key held past its valid_until_ts is asked for again and the fresher copy counts (state after_vu becomes ok), "
        "nothing else a fetcher volunteers matters. One VerifyJSONs call per verdict; the database's StoreKeys is a no-op "
        "(what is written back is C12 / X02 territory)" % (
            ("room versions 2, 4, 6, 11, 12", "one required server") if ctx.tier == "quick"
            else ("all room versions but the pseudo-ID one", "any subset of the required servers")),
        "pseudo-ID rooms (org.matrix.msc4014): modelled: the sender key and, for invites, the invited key must have "
        "self-signed (key ID ed25519:1); left out: faults on the mxid_mapping of joins (always present and validly "
        "signed by the user's homeserver here) and join_authorised_via_users_server (it names a user ID whose server "
        "cannot self-sign: such joins never verify in the library)",
        "membership events other than joins carrying join_authorised_via_users_server require nothing more",
    ]
    ctx.exhaustive = True
    ctx.notes["rule"] = (
        "every scenario of EventSigs.tla: 16 room versions x {message and 6 event types with their own redaction keep lists, join, invite, leave, ban, knock} x target on "
        "the sender's / another server x join_authorised_via_users_server absent / naming the sender's, the target's or "
        "a third server x event-ID server = / != sender's server (room versions 1-2) x (all ok | all absent | %s "
        "carrying one of 16 non-ok states) x other servers absent / signing validly%s x key sources (database / fetcher "
        "per required server, fetcher volunteering or not), plus origin_server_ts 6 / 8 days ahead, plus the ends of the time line (0, 1, 2^63, largest admitted) x time-related and basic signature states x key sources, plus batches (sequences of instants x key entry of the sender's server x where it is x corrupted message) through one key-ring call; distinct = distinct (kind, roles and states of the required servers, strict / lax / pseudo, others, time)"
        % (("one required server", "") if ctx.tier == "quick" else ("one or two required servers", " / signing invalidly")))
    cfg = "EventSigs_gen_%s.cfg" % ctx.tier
    # FullRange (cfg constant, TRUE): instants of 2^63 ms and beyond are included (room versions 1-5, where canonical JSON
    # does not cap origin_server_ts).  They exposed the wrap of StrictValiditySignatureCheck through time.Time in room
    # version 5 (fixed in /repo by 471b701; keys C06/*2p6[34]*).
    ctx.assumptions += ["FullRange: instants 2^63 and 2^64 - 1 included"]
    ctx.notes["constants"] = cfg
    r = ctx.tlc("EventSigs_gen", cfg, timeout=1500)
    ctx.replay_and_compare("c06", r.records, pkg=PKG)
