"""X01 (not a listed property; growth of the specification, DESIGN.md section 9) - sticky events (MSC4354):
Sticky.tla <-> PDU.IsSticky / StickyEndTime."""


def run(ctx):
    ctx.exhaustive = True
    ctx.notes["rule"] = "every Send/Receive/Query behaviour of Sticky.tla over 7 instants x 6 durations (stable, unstable)"
    r = ctx.tlc("Sticky_gen", "Sticky_gen.cfg")
    ctx.replay_and_compare("sticky", r.records)
