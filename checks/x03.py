"""X03 (not a listed property; growth of the specification) - the outbound federation client end to end.

FedAPI.tla <-> fclient.FederationClient (36 calls of federationclient.go / client.go) against an in-process
               receiving server: TLS httptest server on loopback reached through the resolver / well-known seams
               of C16 (net.DefaultResolver -> loopback DNS stub, http.DefaultTransport -> well-known stub); the
               server splits and percent-decodes the raw request target, runs the real fclient.VerifyHTTPRequest
               with a real KeyRing, and answers from a small set of responses.

Properties (invariants of FedAPI.tla, stated over history variables):
  Fidelity          the receiver recovers the route and exactly the identifiers the caller passed, slot by slot
  Authenticity      signed calls verify at the destination for (origin named by the caller, destination); unsigned
                    calls carry no X-Matrix header; no identity for the origin -> nothing is sent
  ResponseHandling  non-2xx -> typed error and an empty result; malformed 2xx -> error; well-formed -> typed result;
                    404 on an endpoint with an older variant -> the older variant is asked
  Destination       the request arrives where resolution of the server name says (Host header, TLS server name)
plus RouteUnambiguous and the encoding lemmas (ASSUME EncodingLemmas: the escape sets are sufficient and necessary).
"""
import os

from vlib.core import MachineryError

# planted defect of the model sender -> the invariant that must catch it (the invariants have teeth)
FAULTS = [
    ("noesc_path_slash", "Fidelity"), ("noesc_path_pct", "Fidelity"),
    ("noesc_query_amp", "Fidelity"), ("noesc_query_plus", "Fidelity"),
    ("sign_first", "Authenticity"), ("sign_path_only", "Authenticity"),
    ("auth_on_unsigned", "Authenticity"), ("unknown_origin_sends", "Authenticity"),
    ("no_resolve", "Destination"),
    ("drop_result", "ResponseHandling"), ("populate_on_error", "ResponseHandling"), ("no_fallback", "ResponseHandling"),
]


def _fault_cfg(ctx, fault):
    d = ctx._spec_dir()
    with open(os.path.join(d, "FedAPI_gen_quick.cfg")) as f:
        txt = f.read()
    txt = txt.replace('Fault = "none"', 'Fault = "%s"' % fault)
    txt = "\n".join(line[:-len(" Emit")] if line.startswith("INVARIANTS") and line.endswith(" Emit") else line
                    for line in txt.split("\n"))
    name = "FedAPI_fault_%s.cfg" % fault
    with open(os.path.join(d, name), "w") as f:
        f.write(txt)
    return name


def run(ctx):
    ctx.assumptions += [
        "DNS and the well-known lookup are replaced by in-process stubs at net.DefaultResolver / http.DefaultTransport (the seams "
        "of C16 and of the repository's own tests); the federation request itself travels over real TLS (HTTP/1.1 or HTTP/2, seeded) "
        "to a loopback listener; certificate validation is off (WithSkipVerify), default port 8448 is not exercised (C16 compares it "
        "at the ResolveServer level)",
        "the receiving server is Go's net/http: the raw request target is r.RequestURI; segments are split at '/' before "
        "percent-decoding (what a router working on the encoded path does)",
        "transaction IDs are restricted to URL-safe text: the library documents that as the caller's obligation (TransactionID doc comment)",
        "the older-variant fallback after 404 (send_join / send_leave / invite v2 -> v1, hierarchy -> MSC2946 path) is expected as the "
        "API recommends / the library documents; a 400 M_UNRECOGNIZED answer is not modelled; the room-version condition of the "
        "invite fallback is not modelled",
        "request bodies are compared with the API's request schemas member by member; members the API marks optional may be absent "
        "when they have their zero value",
    ]
    tier = ctx.tier
    r = ctx.tlc("FedAPI_gen", "FedAPI_gen_%s.cfg" % tier, coverage=bool(os.environ.get("X03_COVERAGE")))
    if not r.records:
        raise MachineryError("FedAPI_gen produced no scenario")
    calls = sorted(set(x["call"] for x in r.records))
    ctx.log("FedAPI: %d scenarios over %d calls" % (len(r.records), len(calls)))
    ctx.replay_and_compare("x03", r.records, pkg="x03")
    # the invariants must catch planted defects of the model sender (spec-side mutation: the properties are not vacuous)
    faults = FAULTS if tier == "thorough" else [FAULTS[(ctx.seed + k * 5) % len(FAULTS)] for k in range(2)]
    for fault, inv in faults:
        fr = ctx.tlc("FedAPI_gen", _fault_cfg(ctx, fault), allow_violation=True, expect_records=False, workers=4)
        if fr.violated != inv:
            raise MachineryError("FedAPI.tla with the planted sender defect %s: expected a violation of %s, TLC reports %s"
                                 % (fault, inv, fr.violated))
    ctx.exhaustive = True
    ctx.notes["rule"] = (
        "every completed behaviour of FedAPI.tla over (call x identifier class per slot x origin identity x way the destination "
        "resolves x answer [x answer to the older endpoint variant]) with at most Budget deviations from the base scenario "
        "(all slots plain, first identity, explicit port, well-formed 200); two slots carrying '/' or '?' at once count as one "
        "deviation; distinct = (call, non-plain slots and their classes, origin, resolution, answers)")
    ctx.notes["constants"] = "FedAPI_gen_%s.cfg" % tier
    ctx.notes["calls"] = calls
    ctx.notes["planted_model_faults_caught"] = ["%s->%s" % f for f in faults]
