"""C01 - canonical JSON: CanonJSON.tla  <->  CanonicalJSON / CanonicalJSONAssumeValid / EnforcedCanonicalJSON /
IRoomVersion.CheckCanonicalJSON.

spec -> code: TLC enumerates every presentation (whitespace, member order, escape spellings, -0) the writer of
CanonJSON.tla can produce for the values of the CanonJSON_gen.tla families, and every Corrupt action; each
finished text is rendered to bytes by the table of harness/cmd/c01/render.go and run through the real
functions for every registered room version; the outputs must be the canonical text the specification
computed (Canon), applying twice must change nothing, invalid texts must be refused, the enforced variant
must refuse exactly when MatrixBase.tla says the version enforces and a number is not an integer literal
within +/-(2^53-1).  Kinds do not cross (CanonJSON.tla section 3b): the characters of every number literal of the
families, and the spellings lenient number readers accept (inf / nan words, hex floats, +1, .5, 01, 1_0, blanks),
are also written BETWEEN QUOTES - as string values and object keys, alone and next to real numbers, plain and with
an escaped character; the history variable nums (literals written by the EmitNumber action) and the invariants
KindsDoNotCross / QuotedIsNoNumber state that the enforced verdict depends on the numbers alone.
The ORDER of keys (CanonJSON.tla section 8b): the canonical order is the order of code points, stated in the
specification as the order of the UTF-8 bytes (KeyOrderIsByteOrder, CanonKeysInByteOrder) and told apart from the
order of UTF-16 code units, which differs exactly across the surrogate gap (UnitOrderDiffersExactly); the order
family writes keys of every class an ordering can tell apart (ASCII, two-byte, BMP below / above the surrogates,
supplementary planes - raw and as escaped surrogate pairs -, boundary characters of each) against each other: alone,
after common prefixes, before misleading suffixes, against their own extensions, in nested objects, three at a
time, and the whole alphabet in one object (also as members 114..129 of a wide one).  A disagreement that is a
matter of member order is keyed C01/canon/key-order/<class that belongs first>-before-<class found first>.

code -> spec: a seeded driver builds random documents from tokens (depth <= 6, random BMP / astral code
points, random number literals, number-like string values and keys, keys over an alphabet of every ordering class, token-level damage), logs tokens and observed results; CanonJSON_trace.tla
parses the tokens with the specification's reader and re-derives every logged result.  Rejected lines are
turned into generation records by the same module (TRACE_MODE=explain) and re-executed through the replay
harness in fresh processes."""
import json
import os

from vlib.core import MachineryError

CHUNK = 5000


def _split(records):
    tabs = [r for r in records if isinstance(r, dict) and "table" in r]
    recs = [r for r in records if isinstance(r, dict) and "table" not in r]
    if not tabs:
        raise MachineryError("CanonJSON_gen did not emit the room version table")
    enforce = tabs[0]["enforce"]
    args = ["enforce=" + ",".join(sorted(v for v, e in enforce.items() if e)),
            "versions=" + ",".join(sorted(enforce))]
    return recs, args


def _explain_and_replay(ctx, rejected, args, tag):
    """Rejected trace lines -> generation records (computed by TLC) -> replay harness (fresh processes)."""
    path = os.path.join(ctx.scratch, "c01_rejected_%s.ndjson" % tag)
    with open(path, "w") as f:
        for rec in rejected:
            f.write(json.dumps(rec, separators=(",", ":")) + "\n")
    r = ctx.tlc("CanonJSON_trace", "CanonJSON_explain.cfg", workers=1, timeout=900,
                env={"TRACE_FILE": path, "TRACE_MODE": "explain"})
    recs = [x for x in r.records if isinstance(x, dict) and "text" in x]
    if len(recs) != len(rejected):
        raise MachineryError("explain mode returned %d records for %d rejected trace lines" % (len(recs), len(rejected)))
    body = ctx.replay_and_compare("c01", recs, args=args, pkg="c01")
    agree = [b for b in body if b.get("ok")]
    if agree:
        raise MachineryError("%d trace line(s) rejected by CanonJSON_trace are accepted by the replay harness "
                             "(trace specification and replay disagree), e.g. %s"
                             % (len(agree), json.dumps(recs[agree[0]["i"]])[:400]))


def run(ctx):
    quick = ctx.tier == "quick"
    ctx.assumptions += [
        "texts are token sequences rendered to bytes by the table in harness/cmd/c01/render.go; the same table is "
        "written in TLA+ (CanonJSON.tla section 8) and the two are compared on recorded documents",
        "number literals are literals modulo negative zero: -0 is written 0, every other literal is preserved verbatim; "
        "for -0.0 / -0e1 like literals both the verbatim and the sign-less form are admitted (not fixed by the statement)",
        "texts with a lone surrogate escape or duplicate keys are outside the statement's 'valid' and inside the JSON "
        "grammar: only absence of panics is checked for them",
        "the literal -0 under the enforced variant is not constrained",
        "a string or object key is a string whatever its characters are: the room version 6 rule applies to values of "
        "kind number only (NumLook of CanonJSON.tla classifies what a number reader would make of a string; no expected "
        "result depends on it)",
        "object keys are ordered as sequences of code points of the DECODED keys (= bytewise order of their UTF-8), not as "
        "UTF-16 code units (RFC 8785) and not as the escaped text",
    ]
    ctx.exhaustive = True
    ctx.notes["rule"] = ("every finished behaviour of the CanonJSON.tla writer for every scenario of the CanonJSON_gen.tla families "
                         "(str, num, numstr, keynum, lenient, keys, order, ws, nest, mix, cor, edge, look, nestkeys, wide, dup) within the tier's budgets, each run for all 16 room versions; "
                         "plus recorded random documents validated by CanonJSON_trace.tla; "
                         "distinct = distinct (family, text class, corrupt action, inadmissible number, -0, number look of the strings) classes")
    cfg = "CanonJSON_gen_%s.cfg" % ctx.tier
    ctx.notes["constants"] = cfg

    # ---- spec -> code
    # heap: the quick run needs about 1.5 GB; without a cap the JVM takes a quarter of the machine's memory before it
    # collects, and on a machine shared with other checks the kernel's OOM killer ends it (TLC rc=137: a machinery
    # error, not a verdict).  A killed run is tried once more.
    def gen():
        return ctx.tlc("CanonJSON_gen", cfg, workers=min(6 if quick else 12, ctx.workers), timeout=2400,
                       heap="3g" if quick else "24g")
    try:
        r = gen()
    except MachineryError as e:
        if "rc=137" not in str(e):
            raise
        ctx.log("TLC was killed (rc=137, out of memory on the machine?): once more")
        r = gen()
    recs, args = _split(r.records)
    ctx.replay_and_compare("c01", recs, args=args, pkg="c01")

    # ---- code -> spec
    total = 8000 if quick else 50000
    done = 0
    k = 0
    while done < total:
        n = min(CHUNK, total - done)
        trace = os.path.join(ctx.scratch, "c01_trace_%d.ndjson" % k)
        res = ctx.harness("c01rec", args=["-out", trace, "-n", n, "-seed", ctx.seed * 1000 + k], pkg="c01")
        for x in res:  # panics while recording: re-executed through the replay harness
            if not x.get("ok"):
                probe = {"fam": "trace", "text": x.get("extra") or [], "st": "unclassified", "cor": "none",
                         "exp": [], "alt": [], "bad": [], "nz": False, "look": []}
                body = ctx.replay_and_compare("c01", [probe], args=args, pkg="c01")
                if body and body[0].get("ok"):
                    raise MachineryError("a panic seen while recording did not reproduce through the replay harness: %s"
                                         % json.dumps(x)[:600])
        rejected = []
        ctx.validate_trace("CanonJSON_trace", "CanonJSON_trace.cfg", trace,
                           lambda rec, lineno: rejected.append(rec),
                           max_rejections=10 ** 9, timeout=1500, env={"TRACE_MODE": "validate"})
        if rejected:
            _explain_and_replay(ctx, rejected, args, str(k))
        done += n
        k += 1
