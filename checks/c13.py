"""C13 - federation request authentication: FedRequest.tla <-> fclient Sign / HTTPRequest / VerifyHTTPRequest.

spec -> code: every Receive outcome of FedRequest.tla within the tier's bounds (request classes x emit style x
tamper sets of size <= 2 (incl. method / request target changed in letter case only) x receiver configuration x key database state) is realised with the real sender
(FederationRequest.Sign with an ed25519 key, HTTPRequest, Request.Write), tampered with as text, read back with
http.ReadRequest and verified by the real VerifyHTTPRequest over a real KeyRing; accept/refuse and the five
reported fields are compared; an accepted request then stays in use while the same receiver handles later requests (Later: bodies of the same
length / shorter / longer / none) and must go on reporting what it reported.
spec -> code (names): every server name FedName_gen.tla builds near the IPv6-literal grammar (token kinds: groups, colons,
dotted quad, zone identifier, over-long / non-hex group, brackets, port) is given a text, a request is validly signed under
it and given to VerifyHTTPRequest: accepted iff FedName!ValidName; a valid name also serves as destination.
code -> spec: seeded random Authorization headers built from the token alphabet of FedHeader.tla go through
the real ParseAuthorization; FedRequest_trace.tla re-derives every parsed field from the tokens."""
import json
import os

from vlib.core import MachineryError

PKG = "c13"


def run(ctx):
    ctx.assumptions += [
        "ed25519 signatures are unforgeable (symbolic signature in the model; real keys in the harness)",
        "the receiver sees what http.ReadRequest makes of the transmitted bytes (method, RequestURI, Host, headers, body); "
        "Content-Length follows the transmitted body",
        "JSON bodies are compared as JSON values (the signature covers the canonical form; Sign re-encodes the content); "
        "bodies contain no fractional / exponent numbers (canonical-JSON number handling is property C01)",
        "key validity instants are placed >= 1 h away from the real clock (valid: now+1h..6d, beyond 7 days: now+8d..365d, "
        "lapsed: now-1h..30d, expired old key: now-1h..30d); `now` given to VerifyHTTPRequest is the real clock",
        "verdict left open (either answer; an accepted request must still be the signed one) where the property sentence is "
        "silent: scheme spelled X-MATRIX / x-matrix, sig re-encoded in padded or URL-safe base64",
        "a receiver whose local-name function rejects every name is not given requests without destination parameter",
        "server names: an IPv6 literal is the RFC 4291 section 2.2 text form in brackets ('::' stands for one or more groups; no zone "
        "identifier); a run of digits and dots that is not an IPv4 address is a DNS name; port = 1-5 digits <= 65535 (0 allowed)",
        "later requests (Later) are handled by the same goroutine with the same key ring, one after the other",
        "header grammar trace: values without comma, quote or backslash; lower-case parameter names; commas never dropped "
        "(outside these the grammars in circulation disagree and the property sentence does not decide)",
    ]
    cfg = "FedRequest_gen_%s.cfg" % ctx.tier
    r = ctx.tlc("FedRequest_gen", cfg, timeout=1500, heap="4g")    # (bounded heap: the machine is shared)
    ctx.exhaustive = True
    ctx.notes["rule"] = (
        "every Receive outcome of FedRequest.tla with (deviations from the base request: method, URI class, origin shape, "
        "destination shape, name spelling, rarer body classes, entry point, number of signing keys, emit style, key state, "
        "keys known to the receiver, rarer receiver configurations) + (tamperings, at most 2, one per wire component) <= Budget "
        "(quick 2, thorough 3), fully crossed with body class {none, object, non-UTF-8} x destination ownership {primary, "
        "secondary, foreign} x receiver configuration {single, multi}: all single tamperings and all pairs; distinct = distinct "
        "(tamper set, body, ownership, configuration, key state, keys, entry, shapes, spellings, style, verdict) classes; "
        "accepted requests x class of later requests {same length, shorter, longer, no body} within the budget; "
        "plus token-kind classes of the header trace")
    ctx.notes["constants"] = cfg
    ctx.replay_and_compare("c13", r.records, pkg=PKG)

    # server names: the grammar of FedName.tla, token by token
    rn = ctx.tlc("FedName_gen", "FedName_gen_%s.cfg" % ctx.tier, timeout=600, heap="2g")
    ctx.notes["rule_names"] = (
        "every name FedName_gen.tla builds: IPv6 literal bodies (a groups, '::' or not, b groups, dotted-quad tail or not, "
        "a + b <= MaxTotal) x one defect (zone identifier at the end / inside, group of 5+ digits, non-hex group, single colon at "
        "either end, dotted quad first, second '::') x bracketing (both, bare, open only, close only, doubled) x what follows "
        "(nothing, :port, ':' alone, port without colon), plus the non-literal names; distinct = distinct token-kind sequences; "
        "each validly signed as X-Matrix origin (key on file under the name as spelled) and, if valid, used as destination")
    ctx.replay_and_compare("c13name", rn.records, pkg=PKG)

    # code -> spec: header grammar
    n = 4000 if ctx.tier == "quick" else 60000
    trace = os.path.join(ctx.scratch, "c13_headers.ndjson")
    res = ctx.harness("c13rec", args=["-out", trace, "-n", n], pkg=PKG)
    for x in res:  # panics while recording
        if not x.get("ok"):
            ctx.disagree(x.get("key", "C13/header-grammar/panic"), x.get("what", "panic")[:2000],
                         {"harness": "c13hdr", "pkg": PKG, "record": x.get("extra"), "result": x, "count": 1})

    def on_reject(rec, lineno):
        out = [x for x in ctx.harness("c13hdr", [rec], pkg=PKG) if "i" in x]   # fresh process
        if not out or out[0].get("ok"):
            raise MachineryError("the logged ParseAuthorization result of trace line %d did not reproduce in a fresh process "
                                 "(logged %s)" % (lineno, json.dumps(rec.get("got"))))
        r0 = out[0]
        ctx.disagree(r0["key"], r0.get("what", ""), {"harness": "c13hdr", "pkg": PKG, "record": rec, "result": r0, "count": 1})

    ctx.validate_trace("FedRequest_trace", "FedRequest_trace.cfg", trace, on_reject)
    classes = set()
    with open(trace) as f:
        for line in f:
            t = json.loads(line)
            g = t["got"]
            usable = g["scheme"] == "X-Matrix" and g["origin"] and g["key"] and g["sig"]
            classes.add("hdr:" + ".".join(x["k"] for x in t["toks"] if x["k"] != "ows")[:160] + "|" + ("usable" if usable else "unusable"))
    ctx.add_nontrivial(classes)
