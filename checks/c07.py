"""C07 - event authorisation: Auth.tla <-> Allowed().

spec -> code: every scenario of the ten Auth_gen.tla families is concretised and the real verdict compared.
code -> spec: seeded random scenarios over the full vocabulary are run through Allowed(), logged, and the
trace is validated by Auth_trace.tla."""
from vlib import auth


def run(ctx):
    ctx.repro_attempts = 6   # verdicts that depend on map iteration order are retried in fresh processes
    auth.run_families(ctx, "c07", auth.FAMILIES_ALL)
    auth.record_and_validate(ctx, 16000 if ctx.tier == "quick" else 60000)
