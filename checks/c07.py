"""C07 - event authorisation: Auth.tla <-> Allowed()."""
from vlib import auth


def run(ctx):
    auth.run_families(ctx, "c07", auth.FAMILIES_ALL)
