"""C07 - event authorisation: Auth.tla <-> Allowed().

spec -> code: every scenario of the Auth_gen.tla families is concretised and the real verdict compared
(family placcess: also after the caller read a power-levels content through a public accessor and edited the
value it got - accessor results are copies); every behaviour of the provider state machine AuthProv.tla
(NewAuthEvents(list) / AddEvent / Clear, at most 4 operations) is replayed on a real AuthEvents: after every
step the provider serves the last event given for each slot, Valid() is true iff the events held are of one
room, and Allowed() on a message of room A / room B gives the specification's verdict.
code -> spec: seeded random scenarios over the full vocabulary (with random accessor-and-edit steps of the
caller before power-levels checks) are run through Allowed(), logged, and the trace is validated by
Auth_trace.tla."""
from vlib import auth


def run(ctx):
    ctx.repro_attempts = 6   # verdicts that depend on map iteration order are retried in fresh processes
    n = 16000 if ctx.tier == "quick" else 60000
    auth.run_families(ctx, "c07", auth.FAMILIES_ALL, record=n)
    auth.record_and_validate(ctx, n)
