"""C19, code -> spec direction for the DNS cache: trace validation of FREE-RUNNING concurrent executions.

`run_dnstrace(ctx)` (called from checks/c19.py):

  record   harness c19dnstrace (package c19, -race build): per run 4-8 real goroutines call the real lookup /
           DialContext freely on one real fclient.DNSCache (3-5 hosts, size 1-3, resolver failures, failing dials with
           the delete-and-retry path, expiry by rewriting entry.expires under the cache's mutex, lifetime 0).  Logged
           with one global atomic stamp: start / end of every call, entry and return of the resolver stub (they bracket
           the two critical sections of a miss), the dial hook, and - taken UNDER the cache's own mutex - the Expire
           steps and snapshots of the entry map.
  validate spec/DNSCache_trace.tla (EXTENDS DNSCache, its actions unchanged): the critical sections are internal
           steps that TLC places between the caller's own lines; depth-first search for a linearization, accepted by a
           high-water mark of consumed lines; the design's invariants (SizeBound, ServedFreshAndSequential,
           NoCrossHost, RefinesSequential, ...) are evaluated at every step.  Runs of one (size, lifetime) are
           concatenated (reset lines) into one TLC run.
  diagnose a run with NO linearization is searched again under each weakened design (Relax = oversize / stale /
           keepstale / wrongkey: exactly one faulty critical section allowed); if one explains it, the key is the design
           invariant that weakening breaks (collected along the path in `viol`), otherwise `no-linearization`.
  report   only after the SAME key showed again in two further fresh processes (other seeds): ctx.disagree with key
           C19/dnstrace/<invariant | no-linearization>.  Otherwise the rejection is recorded in ctx.notes only.
  teeth    every run of the check corrupts accepted traces (a served version, a dropped resolver return, an extra
           snapshot entry, ...) and hand-written traces of each weakened design, and requires TLC to reject them
           (resp. to accept them only under the weakening, with its invariant in `viol`): MachineryError otherwise.
"""
import json
import os
import random
import re
from concurrent.futures import ThreadPoolExecutor

from vlib.core import MachineryError

PKG = "c19"
CMD = "c19dnstrace"
MODULE = "DNSCache_trace"
RACE_ENV = {"GORACE": "halt_on_error=1 exitcode=66", "VERIF_RECORD_TIMEOUT": "90"}
RELAX = [("oversize", "SizeBound"), ("stale", "ServedFreshAndSequential"),
         ("keepstale", "RefinesSequential"), ("wrongkey", "NoCrossHost")]
WHAT = {
    "oversize": "the execution is explained only by a design whose eviction loop stops one entry early (`>` for `>=`): %s is broken",
    "stale": "an entry was served past its expiry: the execution is explained only by a design whose first critical section serves an expired entry; %s is broken",
    "keepstale": "an expired entry stayed in the map after the lookup that found it expired: the execution is explained only by a design whose first critical section does not delete the stale entry; %s is broken",
    "wrongkey": "an answer of the resolver was stored under another host's key: the execution is explained only by a design that stores under the wrong key; %s is broken",
    "": "no placement of the critical sections between the recorded lines makes the execution a behaviour of DNSCache.tla (%s), and no single weakened critical section explains it either",
}


# ------------------------------------------------------------------ cfg / TLC
def _cfg(ctx, size, dur0, relax="none", hosts=5):
    """Write (once) the cfg for (size, lifetime, relaxation, number of hosts) next to the scratch copy of the spec."""
    d = ctx._spec_dir()
    name = "DNSCache_trace_s%d%s_%s_h%d.cfg" % (size, "d0" if dur0 else "", relax, hosts)
    path = os.path.join(d, name)
    if not os.path.exists(path):
        with open(os.path.join(d, "DNSCache_trace.cfg")) as f:
            txt = f.read()
        txt = re.sub(r"\bSize = \d+", "Size = %d" % size, txt)
        txt = re.sub(r"Hosts = \{[^}]*\}", "Hosts = {%s}" % ", ".join('"%s"' % c for c in "abcde"[:hosts]), txt)
        txt = txt.replace("ZeroDuration = FALSE", "ZeroDuration = %s" % ("TRUE" if dur0 else "FALSE"))
        txt = txt.replace('Relax = "none"', 'Relax = "%s"' % relax)
        if relax != "none":
            # a weakened design breaks the design's invariants on purpose: they are collected in `viol`, not checked
            txt = re.sub(r"(?m)^INVARIANTS .*$", "INVARIANTS Mark", txt)
        tmp = path + ".%d.%d" % (os.getpid(), random.getrandbits(30))
        with open(tmp, "w") as f:
            f.write(txt)
        os.replace(tmp, path)
    return name


def _write(ctx, name, lines):
    path = os.path.join(ctx.scratch, name)
    with open(path, "w") as f:
        for x in lines:
            f.write(json.dumps(x, separators=(",", ":")) + "\n")
    return path


def _search(ctx, lines, size, dur0, relax="none", tag="t", timeout=900, hosts=5):
    """TLC depth-first search.  Returns (accepted, first line (1-based) no behaviour consumes, viol names)."""
    path = _write(ctx, "dnstrace_%s_%d.ndjson" % (tag, random.getrandbits(40)), lines)
    ok, rejected, out = ctx.tlc_trace(MODULE, _cfg(ctx, size, dur0, relax, hosts), path, timeout=timeout, dfs=True)
    if ok:
        m = re.search(r"TRACE_VIOL (\[.*?\])", out)
        if not m:
            raise MachineryError("DNSCache_trace: neither TRACE_REJECTED nor TRACE_VIOL in the TLC output:\n" + out[-1500:])
        return True, 0, json.loads(m.group(1).replace('\\"', '"'))
    return False, rejected[0], []


def _par(ctx, jobs, width):
    ctx._spec_dir()
    with ThreadPoolExecutor(max_workers=max(1, width)) as ex:
        futs = [ex.submit(j) for j in jobs]
        return [f.result() for f in futs]


# ------------------------------------------------------------------ recording
def _params(rng, n, quick, base=None):
    """Run parameters, drawn from the seed.  `base`: keep the shape of that run, new seeds (reproduction)."""
    out = []
    for i in range(n):
        if base is not None:
            r = dict(base, run=i + 1, seed=rng.randrange(1, 1 << 30))
        else:
            big = (not quick) and rng.random() < 0.35
            r = {"run": i + 1,
                 "g": rng.choice([4, 4, 5, 6] + ([7, 8] if big else [])),
                 "hosts": rng.choice([3, 4, 5]),
                 "size": rng.choice([1, 2, 2, 3]),
                 "dur0": rng.random() < 0.12,
                 "ops": rng.choice([3, 4, 5] + ([6] if big else [])),
                 "seed": rng.randrange(1, 1 << 30),
                 "procs": rng.choice([0, 0, 1, 2, 4]),
                 "pfail": rng.choice([0, 10, 25]),
                 "pdial": rng.choice([0, 25, 50]),
                 "pdfail": rng.choice([20, 40, 70]),
                 "pexp": rng.choice([10, 25, 40]),
                 "psnap": rng.choice([15, 30, 50]),
                 "yield": rng.choice([0, 30, 60])}
        out.append(r)
    return out


def _race_report(err):
    i = err.find("WARNING: DATA RACE")
    if i < 0:
        return None
    j = err.find("==================", i)
    return err[i:j if j > 0 else len(err)].strip()


LIB = "github.com/matrix-org/gomatrixserverlib"


def _race_key(report):
    """Canonical key as in checks/c19.py: the innermost library functions of the conflicting accesses."""
    funcs = set()
    lines = report.splitlines()
    for n, line in enumerate(lines):
        if re.match(r"^(Previous )?(read|write|atomic read|atomic write) at 0x[0-9a-f]+ by ", line.strip(), re.I):
            for f in lines[n + 1:n + 12:2]:
                f = f.strip()
                if f.startswith(LIB):
                    funcs.add(re.sub(r"\(\)$", "", f[len(LIB):].lstrip("./")))
                    break
            else:
                if n + 1 < len(lines):
                    funcs.add(re.sub(r"\(\)$", "", lines[n + 1].strip()))
    return "C19/race/" + "+".join(sorted(funcs) or ["unknown"])


def _record(ctx, runs):
    """One fresh harness process.  Returns [(run params, lines, nt, discard reason or None)], race report or None."""
    rc, out, err = ctx.harness(CMD, runs, race=True, env=RACE_ENV, raw=True, pkg=PKG)
    rep = _race_report(err)
    if rep:
        return [], rep
    if rc != 0:
        raise MachineryError("%s exited %d: %s" % (CMD, rc, err[-2000:]))
    res = [json.loads(x) for x in out.split("\n") if x.startswith("{")]
    if len(res) != len(runs):
        raise MachineryError("%s answered %d of %d runs" % (CMD, len(res), len(runs)))
    got = []
    for r in res:
        run = runs[r["i"]]
        if not r.get("ok"):
            # hang (deadlock / spinning eviction loop) or a panic outside the recover() of the calls
            got.append((run, None, r.get("key", "failed") + ": " + r.get("what", "")[:300], None))
            continue
        ex = r["extra"]
        got.append((run, ex["lines"], r.get("nt", ""), ex.get("discard")))
    return got, None


# ----------------------------------------------------------------- validation
def _validate(ctx, recs, width, tag):
    """recs: [(run, lines)].  Groups by (size, lifetime), one TLC search per group; a group that is rejected is
    searched again without the offending run.  Returns (accepted runs, [(run, lines, line number in the run)])."""
    groups = {}
    for run, lines in recs:
        groups.setdefault((run["size"], bool(run["dur0"])), []).append((run, lines))

    def one(key, members):
        acc, rej = [], []
        members = list(members)
        while members:
            flat, starts = [], []
            for run, lines in members:
                starts.append(len(flat))
                flat += lines
            ok, hw, _ = _search(ctx, flat, key[0], key[1], tag="%s_s%d%s" % (tag, key[0], "d0" if key[1] else ""))
            if ok:
                acc += members
                break
            k = max(i for i, s in enumerate(starts) if s < hw)
            # the reset line of run k+1 is not consumable when run k did not finish: blame run k then
            if hw - starts[k] == 1 and k > 0:
                k -= 1
                rej.append((members[k][0], members[k][1], len(members[k][1])))
            else:
                rej.append((members[k][0], members[k][1], hw - starts[k]))
            acc += members[:k]
            members = members[k + 1:]
            if len(rej) >= 3:
                break       # systematically rejected: enough candidates
        return acc, rej

    keys = sorted(groups)
    out = _par(ctx, [(lambda k=k: one(k, groups[k])) for k in keys], width)
    acc, rej = [], []
    for a, r in out:
        acc += a
        rej += r
    return acc, rej


PRIORITY = ["SizeBound", "ServedFreshAndSequential", "NoCrossHost", "RefinesSequential", "MissReturnsOwnAnswer",
            "MutexDiscipline", "TypeOK"]


def _explained(ctx, run, lines, relax, inv):
    """Does the design weakened by `relax` explain the run?  Returns the broken invariant to report, or None."""
    try:
        ok, _, viol = _search(ctx, lines, run["size"], bool(run["dur0"]), relax=relax, tag="dx_" + relax,
                              timeout=240, hosts=run["hosts"])
    except MachineryError as e:
        if "timed out" in str(e):       # the weakened design branches at every store: give up, not explained
            return None
        raise
    if not ok or not viol:
        return None
    return inv if inv in viol else [n for n in PRIORITY if n in viol][0]


def _diagnose(ctx, run, lines, width, only=None):
    """A run without a linearization: which weakened design explains it?  Returns (key suffix, weakening).
    The three weakenings that branch rarely are searched first (side by side); storing under another key branches at
    every store and is searched only when none of them explains the run."""
    for batch in (RELAX[:3], RELAX[3:]):
        modes = [(r, i) for r, i in batch if only in (None, r)]
        res = _par(ctx, [(lambda r=r, i=i: _explained(ctx, run, lines, r, i)) for r, i in modes], width)
        for (relax, inv), hit in zip(modes, res):
            if hit:
                return hit, relax
    return "no-linearization", ""


def _describe(run, lines, at):
    lo = max(0, at - 7)
    ctxt = " | ".join(json.dumps(x, separators=(",", ":"), sort_keys=True) for x in lines[lo:at])
    return ("%d goroutines, %d hosts, size %d%s: the recorded execution is rejected at its line %d of %d; last lines: %s"
            % (run["g"], run["hosts"], run["size"], ", lifetime 0" if run["dur0"] else "", at, len(lines), ctxt[:900]))


def _failkey(nt):
    """hang / panic of a whole run: `hang: no result within ...` -> hang"""
    return nt.split(":")[0].split("/")[-1]


def _shows_again(ctx, run, key, relax, traced, rng, quick, width):
    """ONE fresh harness process: 8 runs of the same shape with other seeds.  A witness if the same key shows."""
    got, race = _record(ctx, _params(rng, 8, quick, base=run))
    if race:
        return None
    todo = []
    for r2, l2, nt2, disc in got:
        if l2 is None:
            if _failkey(nt2) == key:
                return {"run": r2, "failure": nt2}
        elif not disc:
            todo.append((r2, l2))
    if not traced or not todo:
        return None
    _, rej2 = _validate(ctx, todo, width, "repro")
    for r2, l2, at2 in rej2[:3]:
        if _diagnose(ctx, r2, l2, width, only=relax or None)[0] == key:
            return {"run": r2, "rejected_at_line": at2, "lines": l2}
    return None


# ------------------------------------------------------------------ self tests
def _corruptions(lines, rng):
    """Corruptions of an ACCEPTED run that no behaviour of the design can explain."""
    out = []
    idx = [i for i, x in enumerate(lines) if x["e"] == "end" and x["st"] in ("hit", "miss")]
    if idx:
        i = rng.choice(idx)
        out.append(("served-version", lines[:i] + [dict(lines[i], v=lines[i]["v"] + 500)] + lines[i + 1:]))
    idx = [i for i, x in enumerate(lines) if x["e"] == "rok"]
    if idx:
        i = rng.choice(idx)
        out.append(("dropped-resolver-return", lines[:i] + lines[i + 1:]))
    idx = [i for i, x in enumerate(lines) if x["e"] == "snap"]
    if idx:
        i = rng.choice(idx)
        extra = {"h": "e", "vh": "e", "v": 900, "fresh": True}
        out.append(("extra-snapshot-entry", lines[:i] + [dict(lines[i], ents=lines[i]["ents"] + [extra])] + lines[i + 1:]))
    idx = [i for i, x in enumerate(lines) if x["e"] == "end" and x["st"] == "hit"]
    if idx:
        i = rng.choice(idx)
        out.append(("hit-logged-as-miss", lines[:i] + [dict(lines[i], st="miss")] + lines[i + 1:]))
    idx = [i for i, x in enumerate(lines) if x["e"] == "start"]
    if idx:
        i = rng.choice(idx)
        out.append(("dropped-start", lines[:i] + lines[i + 1:]))
    return out


def _L(s):
    return [json.loads(x) for x in s.strip().splitlines()]


# hand-written executions of each weakened design (size 1; what the changed library would log)
SYNTHETIC = {
    # a is stored, expired, and then served from the cache
    "stale": _L("""
{"e":"reset","run":1,"size":1,"dur0":false}
{"e":"start","p":"g1","k":"lookup","h":"a"}
{"e":"rcall","p":"g1","h":"a"}
{"e":"rok","p":"g1","v":1}
{"e":"end","p":"g1","st":"miss","h":"a","v":1}
{"e":"expire","h":"a"}
{"e":"start","p":"g2","k":"lookup","h":"a"}
{"e":"end","p":"g2","st":"hit","h":"a","v":1}
{"e":"snap","ents":[{"h":"a","vh":"a","v":1,"fresh":false}]}
"""),
    # size 1 and two entries
    "oversize": _L("""
{"e":"reset","run":1,"size":1,"dur0":false}
{"e":"start","p":"g1","k":"lookup","h":"a"}
{"e":"rcall","p":"g1","h":"a"}
{"e":"rok","p":"g1","v":1}
{"e":"end","p":"g1","st":"miss","h":"a","v":1}
{"e":"start","p":"g2","k":"lookup","h":"b"}
{"e":"rcall","p":"g2","h":"b"}
{"e":"rok","p":"g2","v":2}
{"e":"end","p":"g2","st":"miss","h":"b","v":2}
{"e":"snap","ents":[{"h":"a","vh":"a","v":1,"fresh":true},{"h":"b","vh":"b","v":2,"fresh":true}]}
"""),
    # the expired entry is still in the map while its lookup is inside the resolver
    "keepstale": _L("""
{"e":"reset","run":1,"size":1,"dur0":false}
{"e":"start","p":"g1","k":"lookup","h":"a"}
{"e":"rcall","p":"g1","h":"a"}
{"e":"rok","p":"g1","v":1}
{"e":"end","p":"g1","st":"miss","h":"a","v":1}
{"e":"expire","h":"a"}
{"e":"start","p":"g2","k":"lookup","h":"a"}
{"e":"rcall","p":"g2","h":"a"}
{"e":"snap","ents":[{"h":"a","vh":"a","v":1,"fresh":false}]}
{"e":"rok","p":"g2","v":2}
{"e":"end","p":"g2","st":"miss","h":"a","v":2}
{"e":"snap","ents":[{"h":"a","vh":"a","v":2,"fresh":true}]}
"""),
    # the answer for a is stored under b
    "wrongkey": _L("""
{"e":"reset","run":1,"size":1,"dur0":false}
{"e":"start","p":"g1","k":"lookup","h":"a"}
{"e":"rcall","p":"g1","h":"a"}
{"e":"rok","p":"g1","v":1}
{"e":"end","p":"g1","st":"miss","h":"a","v":1}
{"e":"snap","ents":[{"h":"b","vh":"a","v":1,"fresh":true}]}
"""),
}


def _self_tests(ctx, accepted, rng, width, quick):
    """The search must reject what no behaviour explains, and the weakened designs must explain exactly their own."""
    jobs, names = [], []
    pool = [(run, lines) for run, lines in accepted if len(lines) >= 30] or accepted
    run, lines = rng.choice(pool)
    cors = _corruptions(lines, rng)
    if quick:
        cors = rng.sample(cors, min(2, len(cors)))
    for name, bad in cors:
        names.append("corrupt:" + name)
        jobs.append(lambda bad=bad, run=run: not _search(ctx, bad, run["size"], bool(run["dur0"]), tag="self")[0])
    for relax, inv in RELAX:
        if quick and relax != RELAX[ctx.seed % len(RELAX)][0]:
            continue
        syn = SYNTHETIC[relax]
        names.append("strict-rejects:" + relax)
        jobs.append(lambda syn=syn: not _search(ctx, syn, 1, False, tag="self")[0])
        names.append("weakened-explains:" + relax)
        jobs.append(lambda syn=syn, relax=relax, inv=inv: (lambda r: r[0] and inv in r[2])(_search(ctx, syn, 1, False, relax=relax, tag="self")))
        if not quick:
            for other, _ in RELAX:
                if other != relax:
                    names.append("%s-not-explained-by:%s" % (relax, other))
                    jobs.append(lambda syn=syn, other=other: not _search(ctx, syn, 1, False, relax=other, tag="self")[0])
    res = _par(ctx, jobs, width)
    failed = [n for n, ok in zip(names, res) if not ok]
    if failed:
        raise MachineryError("DNSCache_trace self-tests failed (the search accepts what it must reject, or a weakened "
                             "design does not explain its own execution): %s" % ", ".join(failed))
    return names


# ------------------------------------------------------------------------ main
def run_dnstrace(ctx, n_runs=None):
    quick = ctx.tier == "quick"
    rng = random.Random(ctx.seed * 7919 + 19)
    width = max(2, min(6, ctx.workers // 2))
    n = n_runs or (36 if quick else 700)
    per_proc = 36 if quick else 100
    ctx.harness_build(race=True, pkg=PKG)
    ctx.assumptions += [
        "dnstrace: the critical sections of dnscache.go carry no hook; each is an internal step placed by TLC between "
        "the caller's own recorded lines (start / resolver entry / resolver return / dial hook / end); Expire and the "
        "snapshots are performed and stamped under the cache's own mutex, so their place among the critical sections is exact",
        "dnstrace: time is abstract: an entry is expired iff the recorder expired it (entry.expires moved two hours into "
        "the past under the mutex; lifetimes are one hour or zero)",
    ]

    runs = _params(rng, n, quick)
    recs, discarded, failed = [], [], []
    for i in range(0, len(runs), per_proc):
        got, race = _record(ctx, runs[i:i + per_proc])
        if race:
            got2, race2 = _record(ctx, runs[i:i + per_proc])
            if race2 and _race_key(race2) == _race_key(race):
                key = _race_key(race2)
                ctx.disagree(key, "race detector while goroutines ran freely on one DNS cache: " + race2[:1500],
                             {"harness": CMD, "pkg": PKG, "race": True, "records": runs[i:i + 4], "report": race2, "count": 1})
                return
            raise MachineryError("race report of %s did not reproduce:\n%s" % (CMD, race[:1500]))
        for run, lines, nt, disc in got:
            if lines is None:
                failed.append((run, nt))
            elif disc:
                discarded.append(disc)
            else:
                recs.append((run, lines))
                ctx.nontrivial.add("dnstrace:" + nt)
    if len(discarded) > max(3, len(runs) // 10):
        raise MachineryError("dnstrace: %d of %d runs discarded by the recorder (%s)" % (len(discarded), len(runs), discarded[0]))
    if not recs and not failed:
        raise MachineryError("dnstrace: no run recorded (dead recorder)")

    accepted, rejected = _validate(ctx, recs, width, "main")
    n_lines = sum(len(l) for _, l in accepted)
    ctx.traces_validated += n_lines
    ctx.evaluations += sum(len(l) for _, l in recs)
    ctx.notes["dnstrace"] = {"runs_recorded": len(recs), "runs_accepted": len(accepted), "lines_accepted": n_lines,
                             "runs_discarded_by_recorder": len(discarded), "runs_rejected": len(rejected) + len(failed)}

    if accepted:
        tests = _self_tests(ctx, accepted, rng, width * 2, quick)
        ctx.notes["dnstrace"]["self_tests"] = len(tests)

    # ---- rejections: diagnose, then demand the same key from two further fresh processes ---------------------
    cands = []
    for run, what in failed:
        cands.append((run, None, 0, _failkey(what), "", what))
    seen = set()
    for run, lines, at in rejected[:6]:
        key, relax = _diagnose(ctx, run, lines, width)
        if key in seen:
            continue
        seen.add(key)
        cands.append((run, lines, at, key, relax, WHAT[relax] % key + ". " + _describe(run, lines, at)))
    reported, unrepro = set(), []
    for run, lines, at, key, relax, what in cands:
        if key in reported:
            continue
        attempts, witness = 0, []
        while len(witness) < 2 and attempts < (6 if quick else 10):
            attempts += 1
            w = _shows_again(ctx, run, key, relax, lines is not None, rng, quick, width)
            if w:
                witness.append(w)
        if len(witness) >= 2:
            reported.add(key)
            ctx.disagree("C19/dnstrace/" + key, what,
                         {"harness": CMD, "pkg": PKG, "race": True, "record": run, "lines": lines, "rejected_at_line": at,
                          "shown_again_in_fresh_processes": witness, "count": 1})
        else:
            unrepro.append({"key": key, "run": run, "rejected_at_line": at, "shown_again": len(witness), "attempts": attempts})
    if unrepro:
        ctx.notes["dnstrace"]["rejections_not_reproduced"] = unrepro[:10]
        ctx.log("dnstrace: %d rejection(s) did not show again in two fresh processes and are not reported" % len(unrepro))
    ctx.notes["dnstrace_rule"] = ("free-running executions: %d runs of 4-8 goroutines x 3-6 calls on one cache (3-5 hosts, size 1-3, "
                                  "resolver / dial faults, expiry, lifetime 0), sampled by seed; distinct = parameter shape + "
                                  "set of outcome classes observed in the run" % len(recs))


def replay_dnstrace(ctx, rp):
    """bin/check C19 --replay <file> for a C19/dnstrace/* disagreement: the stored recording is searched again, then
    the run is recorded again (fresh processes, other seeds) until the same key shows."""
    pl = rp["payload"]
    key = rp["key"].split("/")[-1]
    run, lines = pl["record"], pl.get("lines")
    rng = random.Random(ctx.seed * 31 + 7)
    width = max(2, min(6, ctx.workers // 2))
    ctx.harness_build(race=True, pkg=PKG)
    print("stored :", rp["key"], "-", rp["what"][:600])
    relax = ""
    if lines:
        ok, at, _ = _search(ctx, lines, run["size"], bool(run["dur0"]), tag="replay")
        k2, relax = (None, "") if ok else _diagnose(ctx, run, lines, width)
        print("stored recording: %s" % ("accepted by DNSCache_trace (the specification changed?)" if ok else
                                        "rejected at line %d, diagnosis %s" % (at, k2)))
    for attempt in range(8):
        w = _shows_again(ctx, run, key, relax, lines is not None, rng, ctx.tier == "quick", width)
        if w:
            print("now    : shows again (fresh process, attempt %d): %s" % (attempt + 1, json.dumps(w)[:600]))
            print("VIOLATION property=C19 replay=%s" % rp.get("_path", ""))
            return 1
    print("now    : did not show again in 8 fresh processes")
    return 0
