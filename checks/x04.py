"""X04 (not a listed property; growth of the specification) - backfill as a fault-tolerant protocol.

Backfill.tla <-> gomatrixserverlib.RequestBackfill (backfill.go) together with EventsLoader.LoadAndVerify as it is
                 used there: a requesting server, an ordered list of remote servers, the caller's event provider and
                 state provider.  The world is a room history of Room.tla (real auth relations; the auth rules and
                 state resolution are those of Auth.tla / StateRes.tla) with faults of the world (an event its sender
                 may not send, an event carrying another room's ID, provider / state-provider behaviours per event).
                 Actions: World, Call, Lookup, Ask, Answer (transport error, empty, correct slice, shorter, older window,
                 more than the limit, slice with a hole; one PDU with a destroyed signature / unparsable / listed twice /
                 twice with one forged copy / replaced by a valid event of another room), Verify, Merge, CancelEarly,
                 CancelInFlight, Abort, Finish.

Properties (invariants of Backfill.tla over the history variables):
  ReturnedSafe       every returned event was sent by an asked server, belongs to the room, passes the auth checks
                     (documented tolerance: an event whose ONLY failure is the signature check is returned)
  NothingLost        every event an asked server sent that belongs to the room and passes the auth checks is returned
  NoDuplicates       no event is returned twice
  AskDiscipline      servers are asked in the given order with the caller's limit and from IDs, the next one only while
                     fewer than `limit` events are collected; a failing server does not end the round
  TopoOrdered        the result is in topological order by prev_events
  Quiescence         no from IDs: nobody is asked (not even for servers), nothing returned; no servers / limit 0: nobody
                     asked; a cancelled context: nobody contacted afterwards, error and no events
  ErrorReport        no error is invented; a round in which every asked server failed reports an error (the rest is left open)
  StateCallsInOrder  the StateProvider is called in topological order, earliest event first (per transaction)
plus the oracle-sanity invariants TypeOK, HonestWorld, HonestRun, FaultsShow, CollectionMatches.

Every completed behaviour is replayed into ONE real RequestBackfill call (harness/cmd/x04): really built and signed
events, a twin room for the foreign events, a real KeyRing over an in-memory key database, a scripted BackfillRequester
recording every call.
"""
import os
from concurrent.futures import ThreadPoolExecutor

from vlib.core import MachineryError

PKG = "x04"

# planted defect of the model requester -> the invariant that must catch it (the invariants have teeth)
FAULTS = [
    ("no_dedup", "NoDuplicates"), ("stop_on_error", "AskDiscipline"), ("ask_all", "AskDiscipline"),
    ("keep_auth_failures", "ReturnedSafe"), ("no_room_check", "ReturnedSafe"), ("no_final_sort", "TopoOrdered"),
    ("cancel_ignored", "Quiescence"), ("sp_unsorted", "StateCallsInOrder"), ("drop_sig_failures", "NothingLost"),
    ("swallow_error", "ErrorReport"),
]

# every registered room version but org.matrix.msc4014 (pseudo IDs: senders are keys, user IDs come from
# mxid_mapping in the member events - the room model of Room.tla and the harness cannot carry that)
VERSIONS = ["1", "2", "3", "4", "5", "6", "7", "8", "9", "10", "11", "12",
            "org.matrix.msc3667", "org.matrix.msc3787", "org.matrix.hydra.11"]


def plans(tier):
    """(Start, Ver, MaxFree, NServers, LimitSet, FromModes, SliceKinds, Budget, MaxWorld)"""
    P = []
    if tier == "quick":
        # the room with a side branch and a merge (creation prefix 3): every behaviour with at most two deviations
        P += [(3, "10", 0, 2, "Limits013", "FromAll", "SlicesQuick", 2, 1)]
        # event format v1 (room version 1) and domainless room IDs / privileged creators (12): one limit
        P += [(3, "1", 0, 2, "Limits2", "FromAll", "SlicesQuick", 2, 1),
              (3, "12", 0, 2, "Limits2", "FromAll", "SlicesQuick", 2, 1)]
        # every room with one more event on top of the first creation prefix (forks from event 5): the protocol's
        # single deviations in an undisturbed world
        P += [(1, "12", 1, 2, "Limits3", "FromAll", "SlicesQuick", 1, 0)]
        return P
    # the room with a side branch and a merge, every registered version: every behaviour with at most two deviations
    for ver in VERSIONS:
        P += [(3, ver, 0, 2, "Limits0123" if ver in ("1", "10", "12") else "Limits013", "FromAll", "SlicesAll", 2, 1)]
    for ver in ("1", "10", "12"):
        P += [(3, ver, 0, 3, "Limits24", "FromAll", "SlicesAll", 3, 0),     # three servers, three deviations of the protocol
              (1, ver, 1, 2, "Limits3", "FromAll", "SlicesAll", 1, 1),      # every room with one more event, single deviations
              (2, ver, 0, 2, "Limits0135", "FromTip", "SlicesAll", 2, 2)]   # second prefix, up to two deviations of the world
    for ver in ("10", "12"):
        P += [(1, ver, 1, 2, "Limits2", "FromAll", "SlicesAll", 2, 0)]      # every room with one more event, two deviations
    P += [(3, "10", 0, 3, "Limits2", "FromTip", "SlicesAll", 3, 1)]         # three deviations, one of them in the world
    return P


def _cfg(ctx, base, name, subst, invariants=None):
    d = ctx._spec_dir()
    with open(os.path.join(d, base)) as f:
        txt = f.read()
    out = []
    for line in txt.split("\n"):
        s = line.strip()
        for k, v in subst.items():
            if s.startswith(k + " =") or s.startswith(k + " <-"):
                line = "  %s %s %s" % (k, "<-" if s.startswith(k + " <-") else "=", v)
        if invariants is not None and s.startswith("INVARIANTS"):
            line = "INVARIANTS " + invariants
        out.append(line)
    with open(os.path.join(d, name), "w") as f:
        f.write("\n".join(out))
    return name


def _plan_cfg(ctx, n, p):
    start, ver, maxfree, ns, limits, frm, slices, budget, maxworld = p
    return _cfg(ctx, "Backfill_gen_%s.cfg" % ctx.tier, "Backfill_gen_%s_%d.cfg" % (ctx.tier, n),
                {"Start": start, "Ver": '"%s"' % ver, "MaxFree": maxfree, "NServers": ns, "LimitSet": limits,
                 "FromModes": frm, "SliceKinds": slices, "Budget": budget, "MaxWorld": maxworld})


# what the behaviours replayed must contain between them (record-derived coverage: no action, answer kind, carriage
# fault, world deviation or outcome of the specification is dead within the tier's bounds)
def _coverage(recs):
    seen = set()
    for r in recs:
        seen.add("from=%d" % min(len(r["from"]), 2))
        seen.add("servers=%d" % min(len(r["servers"]), 2))
        seen.add("asks=%d" % min(len(r["asks"]), 2))
        seen.add("cancel=" + r["cancel"])
        seen.add("err=" + r["out"]["err"])
        seen.add("errloose=%s" % r["out"]["errloose"])
        seen.add("limit0" if r["limit"] == 0 else "limit+")
        seen.add("room-of-%d-events" % len(r["events"]))
        if len(r["out"]["events"]) > r["limit"] > 0:
            seen.add("more-than-limit")
        for e in r["events"]:
            seen.add("F=" + e["f"])
            seen.add("P=" + e["p"])
            seen.add("SP=" + e["sp"])
        for c in r["cls"]:
            seen.add("worth=" + c)
        ret = set(r["out"]["events"])
        offered = {}
        for a in r["asks"]:
            seen.add("answer=" + a["kind"])
            seen.add("wire=" + a["fk"])
            for c in a["classes"]:
                seen.add("class=" + c)
            if len(a["spcalls"]) > 1:
                seen.add("spcalls>1")
            for p in a["pdus"]:
                k = p["id"] + (100 if p["w"] == "foreign" else 0)
                if p["w"] != "malformed":
                    offered[k] = offered.get(k, 0) + 1
        if any(n > 1 for n in offered.values()):
            seen.add("same-event-from-two-answers")
        if any(k not in ret for k in offered):
            seen.add("offered-not-returned")
    return seen


WANT = {"from=0", "from=1", "from=2", "servers=0", "servers=1", "servers=2", "asks=0", "asks=1", "asks=2",
        "cancel=no", "cancel=early", "cancel=inflight", "err=none", "err=transport", "err=cancelled",
        "errloose=True", "errloose=False", "limit+", "more-than-limit",
        "F=none", "F=disallowed", "F=wrongroom", "P=returns", "P=nothing", "P=errors",
        "SP=exact", "SP=lagging", "SP=nothing", "SP=ids_error", "SP=state_error",
        "worth=ok", "worth=chain", "worth=rules",
        "answer=error", "answer=empty", "answer=full", "answer=short", "answer=older", "answer=over", "answer=cancel",
        "wire=none", "wire=badsig", "wire=malformed", "wire=dup", "wire=sigcopy", "wire=foreign",
        "class=ok", "class=sig", "class=chain", "class=rules", "class=invalid",
        "spcalls>1", "same-event-from-two-answers", "offered-not-returned"}


def run(ctx):
    ctx.assumptions += [
        "ed25519 signatures are unforgeable; a bad signature is a corrupted, foreign-key, missing or all-zero signature of "
        "the sender's server; events were sent in 2020 and the keys are valid for 1000 days from now: no outcome depends "
        "on the wall clock",
        "documented tolerance, modelled as documented: RequestBackfill passes on events whose ONLY failure is the signature "
        "check (comment in backfill.go); an event that fails the signature check AND an auth check is not passed on "
        "(Backfill_asbuilt.cfg: TLC refutes ReturnedSafe for the rule 'the first failing check classifies, signature "
        "failures are tolerated')",
        "the error return is loosely documented ('TODO: When does it make sense to return errors?'): demanded are only "
        "'nobody failed -> no error', 'everybody asked failed -> an error' and 'cancelled before a server is contacted -> "
        "error and no events'; with failures and answers mixed the model reports the last failure alongside the partial "
        "result and the harness accepts either; an empty server list is left open too (ServersAtEvent: 'An empty list "
        "will fail the request' - the library returns no error)",
        "the context is cancelled either before the call or while a request is in flight (that request then fails with "
        "the context's error); a cancelled context is honoured at the next point a server would be contacted; cancellation "
        "in the middle of a verification is not modelled",
        "the caller's event provider answers a request for an event ID with that event, with nothing or with an error; "
        "the state provider reports per event the state before it (exact, one event behind, empty) or fails (listing the "
        "IDs / returning the events); the twin room (foreign events) is known to both providers without deviations",
        "a correct server answers with the events named by the from IDs and their ancestors, newest first, up to the limit "
        "(GET /backfill); the order of the PDUs inside a transaction is the server's business (seeded: as is / shuffled)",
        "StateProvider calls are compared per transaction: in topological order; for every PDU that passes the signature "
        "and auth-chain checks; for no event that is not a PDU of the transaction",
    ]
    tier = ctx.tier
    ps = plans(tier)
    ctx.notes["plans"] = [list(p) for p in ps]
    jobs = [(p, _plan_cfg(ctx, n, p)) for n, p in enumerate(ps)]
    par = 4 if tier == "quick" else 3
    per = max(2, ctx.workers // par)
    faults = FAULTS if tier == "thorough" else [FAULTS[(ctx.seed + k * 3) % len(FAULTS)] for k in range(2)]

    def one(job):
        p, cfg = job
        return ctx.tlc("Backfill_gen", cfg, workers=per, timeout=1500, heap="4g")

    def asbuilt():
        # the as-built acceptance rule against ReturnedSafe (a verdict about the DESIGN; the replay is what speaks about the code)
        return ctx.tlc("Backfill_gen", "Backfill_asbuilt.cfg", workers=2, timeout=600, allow_violation=True, expect_records=False, heap="4g")

    def fault(fi):
        # the invariants must catch planted defects of the model requester (spec-side mutation: the properties are not vacuous)
        f, inv = fi
        cfg = _cfg(ctx, "Backfill_fault.cfg", "Backfill_fault_%s.cfg" % f, {"Fault": '"%s"' % f}, invariants="TypeOK " + inv)
        fr = ctx.tlc("Backfill_gen", cfg, workers=2, timeout=600, allow_violation=True, expect_records=False, heap="4g")
        if fr.violated != inv:
            raise MachineryError("Backfill.tla with the planted requester defect %s: expected a violation of %s, TLC reports %s"
                                 % (f, inv, fr.violated))
        return "%s->%s" % fi

    # the behaviours of a plan are replayed as soon as the plan is done (and dropped: a thorough run produces some
    # 300 000 records); the other TLC jobs go on meanwhile
    cov, nrec = set(), 0
    with ThreadPoolExecutor(max_workers=par) as ex:
        futs = [ex.submit(one, j) for j in jobs]
        fab = ex.submit(asbuilt)
        ffs = [ex.submit(fault, fi) for fi in faults]
        for f in futs:
            r = f.result()
            if not r.records:
                raise MachineryError("Backfill_gen produced no behaviour for one of the plans")
            cov |= _coverage(r.records)
            nrec += len(r.records)
            ctx.replay_and_compare("x04", r.records, pkg=PKG)
            r.records = None
        ab = fab.result()
        ctx.notes["planted_model_faults_caught"] = [f.result() for f in ffs]
    # (Grow: rooms of 7 events are rooms the room model built on top of the first creation prefix)
    dead = sorted((WANT | {"room-of-7-events", "room-of-10-events"} | ({"answer=gap", "room-of-8-events"} if tier == "thorough" else set())) - cov)
    if dead:
        raise MachineryError("Backfill.tla: within the bounds of the %s tier no behaviour shows %s (dead action / disjunct)" % (tier, dead))
    ctx.log("Backfill: %d behaviours from %d plans replayed; record-derived coverage complete (%d features)" % (nrec, len(ps), len(cov)))
    ctx.notes["asbuilt"] = (
        "TLC refutes %s for SigTolerance=first (an event that fails the signature check is never put through the auth "
        "checks: with a destroyed signature an event the auth rules reject is passed on)" % ab.violated
        if ab.violated else "SigTolerance=first satisfies ReturnedSafe within Backfill_asbuilt.cfg")
    if ab.violated not in (None, "ReturnedSafe"):
        raise MachineryError("Backfill_asbuilt.cfg: expected ReturnedSafe to be refuted (or to hold), TLC reports %s" % ab.violated)
    ctx.exhaustive = True
    ctx.notes["rule"] = (
        "every completed behaviour of Backfill.tla over (room of the plan x from IDs {none, newest event, two branch tips} x limit "
        "x server list length x per asked server an answer {error, empty, correct slice, shorter, older window, over the limit, "
        "slice with a hole} with at most one PDU carried {bad signature, malformed, twice, twice with a forged copy, foreign twin} "
        "x cancellation {early, in flight} x deviations of the world {disallowed event, wrong room ID, provider nothing / errors, "
        "state provider lagging / nothing / ids error / state error}) with at most Budget deviations from the base scenario "
        "(every server answers the correct slice, nothing else happens), at most MaxWorld of them in the world; behaviours in "
        "which a deviation of the world cannot show are not replayed; distinct = (version, from mode, server count, answer kinds "
        "with wire fault and worth of the faulted event, world deviations with event type, cancellation, outcome, concrete shapes)")
    ctx.notes["constants"] = "Backfill_gen_%s.cfg + plans" % tier
    ctx.notes["record_coverage"] = sorted(cov)
