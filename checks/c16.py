"""C16 - server-name resolution and outbound network policy.

Resolve.tla   <-> fclient.ResolveServer / LookupWellKnown / Client (destinationTripper) with in-process
                  stubs at http.DefaultTransport and net.DefaultResolver (loopback miekg/dns server)
ResolveFn.tla     the same algorithm as a function of (server name, world); Resolve_gen checks FnAgrees
ResolveSeq.tla <-> ONE fclient.Client sending a sequence of requests to different, related server names of one
                  world (every name has a well-known document and SRV records of its own): each request is
                  judged by the resolution of its own server name, whatever the client remembers
NetPolicy.tla <-> the dialer control function (overlay accessor) and real loopback connections made by a
                  Client configured with WithAllowDenyNetworks
"""
import json

import os

from vlib.core import MachineryError

# planted defects of the client design (CONSTANT Fault of ResolveSeq.tla), each refuted by TLC
SEQ_FAULTS = ["shared_tls", "alias_deleg", "alias_dest", "key_host", "key_sni"]


def _group(records):
    """One harness record per scenario: the outcomes of all latitudes become the list `allowed`."""
    by = {}
    order = []
    for r in records:
        k = json.dumps([r["origin"], r["wk"], r["srv"]], sort_keys=True)
        g = by.get(k)
        if g is None:
            g = by[k] = {"fam": "resolve", "origin": r["origin"], "wk": r["wk"], "srv": r["srv"],
                         "lwk": {"ok_any": [], "addr": r["lwk"]["addr"]}, "spell": r["spell"], "nsrvq": 0, "allowed": []}
            order.append(k)
        g["nsrvq"] = max(g["nsrvq"], r["nsrvq"])
        if r["lwk"]["ok"] not in g["lwk"]["ok_any"]:
            g["lwk"]["ok_any"].append(r["lwk"]["ok"])
        v = {"refused": r["refused"], "result": r["result"], "wkreqs": r["wkreqs"]}
        lat = "%s/%s/%s/%s" % (r["lat"]["srverr"], r["lat"]["baddeleg"], r["lat"]["redirect"], r["lat"]["tie"])
        for a in g["allowed"]:
            if a["refused"] == v["refused"] and a["result"] == v["result"] and a["wkreqs"] == v["wkreqs"]:
                a["lats"].append(lat)
                break
        else:
            v["lats"] = [lat]
            g["allowed"].append(v)
    out = []
    for k in order:
        g = by[k]
        # latitudes are only enumerated where the scenario can read them; the strictest reading (go on with the
        # next step / refuse an invalid delegation / follow / "ab") comes first: it is the one quoted in messages
        g["allowed"].sort(key=lambda a: (0 if "next/refuse/follow/ab" in a["lats"] else 1))
        out.append(g)
    return out


def run(ctx):
    ctx.assumptions += [
        "DNS and HTTPS are replaced by in-process stubs at net.DefaultResolver / http.DefaultTransport (the seams of the repository's own tests); "
        "SRV targets always arrive fully qualified (trailing dot), as the wire format delivers them",
        "lookup errors are SERVFAIL answers (immediate); time-outs are not exercised (no wall-clock dependence)",
        "where the Matrix specification is silent (SRV lookup failure, m.server that is no valid server name) any of the "
        "outcomes next-step / :8448 / refusal resp. refusal / step 4 is accepted; likewise a well-known redirect to a good "
        "document may be followed or ignored, SRV records of equal priority may come in either order, a negative max-age "
        "may count as stale-at-once or as absent, and with several A records of which only some are permitted only the "
        "safety half (no connection to a refused address) is checked",
        "real connections (Host/SNI per target, allow/deny end to end) are confined to 127.0.0.0/8; port 8448 and IPv6 "
        "literal targets are compared at the ResolveServer level only",
        "an IPv4-mapped IPv6 address is the IPv4 address it embeds; ranges of one family contain no address of the other",
        "cache lifetime: +-2 s against the real clock; the code documents no lower / upper bound on the lifetime",
        "request sequences through one client: a client may remember the resolution of a server name and spare a LATER request "
        "for the SAME server name its lookups (no lifetime is demanded of that memory; the world does not change during a "
        "sequence); every destination is a live loopback listener, hence every port-less name of those worlds has an SRV record",
    ]
    tier = ctx.tier
    # ---- resolution
    r = ctx.tlc("Resolve_gen", "Resolve_gen_%s.cfg" % tier)
    scen = _group([x for x in r.records if x.get("fam") == "resolve"])
    if not scen:
        raise MachineryError("Resolve_gen produced no scenario")
    rc = ctx.tlc("Resolve_gen", "Resolve_gen_cache.cfg")
    ctx.log("resolve: %d scenarios (%d behaviours), cache: %d" % (len(scen), len(r.records), len(rc.records)))
    ctx.replay_and_compare("c16resolve", scen + rc.records, pkg="c16")
    # ---- one client, several requests, different server names (ResolveSeq.tla)
    rs = ctx.tlc("ResolveSeq_gen", "ResolveSeq_gen_%s.cfg" % tier)
    if not rs.records:
        raise MachineryError("ResolveSeq_gen produced no scenario")
    ctx.log("sequences through one client: %d" % len(rs.records))
    ctx.replay_and_compare("c16resolve", rs.records, pkg="c16")
    # the invariant must refute planted defects of the client design (it is not vacuous)
    states0, trans0 = ctx.states, ctx.transitions
    faults = SEQ_FAULTS if tier != "quick" else [SEQ_FAULTS[ctx.seed % len(SEQ_FAULTS)]]
    for fault in faults:
        name = "ResolveSeq_fault_%s.cfg" % fault
        with open(os.path.join(ctx._spec_dir(), name), "w") as f:
            f.write('SPECIFICATION Spec\nCONSTANTS\n  Fault = "%s"\n  Depth = "quick"\n'
                    'INVARIANTS PerRequestTarget\nCHECK_DEADLOCK FALSE\n' % fault)
        fr = ctx.tlc("ResolveSeq_gen", name, allow_violation=True, expect_records=False, workers=2, timeout=300)
        if fr.violated != "PerRequestTarget":
            raise MachineryError("ResolveSeq.tla with the planted client defect %s: expected a violation of PerRequestTarget, "
                                 "TLC reports %s" % (fault, fr.violated))
    ctx.states, ctx.transitions = states0, trans0      # refutation runs stop at the first counterexample
    ctx.notes["planted_model_faults_caught"] = ["%s->PerRequestTarget" % f for f in faults]
    # ---- network policy
    n1 = ctx.tlc("NetPolicy_gen", "NetPolicy_gen_ctl_%s.cfg" % tier)
    n2 = ctx.tlc("NetPolicy_gen", "NetPolicy_gen_e2e_%s.cfg" % tier)
    ctx.replay_and_compare("c16netpolicy", n1.records, pkg="c16")
    ctx.replay_and_compare("c16netpolicy", n2.records, pkg="c16")
    ctx.exhaustive = True
    ctx.notes["rule"] = (
        "every behaviour of Resolve.tla over (server-name shape x well-known outcome x SRV outcomes of the names the algorithm "
        "reads x latitude), every ResolveSeq.tla scenario (sequence of 2-4 requests of one client over 6 related server names x "
        "well-known documents and SRV kinds of the hosts the sequence reads) and every NetPolicy.tla scenario (allow x deny sequences up to the configured length x candidate "
        "address x network / way of reaching) within the cfg bounds; distinct = (name shape, well-known class, SRV class, "
        "outcome variant, trip), (relations of the requests to their predecessors, steps) resp. (family, network, list shapes, reach, verdict) classes")
    ctx.notes["constants"] = "Resolve_gen_%s.cfg Resolve_gen_cache.cfg ResolveSeq_gen_%s.cfg NetPolicy_gen_ctl_%s.cfg NetPolicy_gen_e2e_%s.cfg" % (tier, tier, tier, tier)
