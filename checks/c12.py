"""C12 - the key ring accepts a signature only from a fetched key valid at that time.

spec -> code
  KeyRing.tla / KeyRing_gen.tla: every scenario of the exhaustive families (single: validity boundaries,
  rows with both / neither timestamp; twin: the same (server, key ID) twice with different timestamps and
  rules; versions: every registered room version's own SignatureValidityCheck, strictness from MatrixBase;
  pair: batches, several key IDs, unsupported / unsigned, per-key fetcher behaviours; dberr: database
  failures and the empty batch) and a seeded simulation of the widest family (batch) is replayed into a real
  gomatrixserverlib.KeyRing with scripted KeyDatabase / KeyFetchers (harness c12ring).
  KeyResponse.tla / KeyResponse_gen.tla: CheckKeys, ServerKeys.PublicKey and the real DirectKeyFetcher /
  PerspectiveKeyFetcher over a scripted KeyClient with really signed / mis-signed responses (c12resp).
  The dup* modes add ONE response whose JSON text writes a top-level member twice (verify_keys /
  old_verify_keys / server_name / valid_until_ts / signatures; the smuggled copy before or after the genuine
  one; what it holds): the keys handed out - by CheckKeys, by the fetchers, and to a real KeyRing over them
  that is asked to verify a message signed with the relay's key - must be those of the one reading the
  signatures cover (KeyResponse.tla: Reading, OnlyWhatIsSigned); refusing such a response is allowed too.
code -> spec
  c12rec runs seeded random batches (wider vocabulary) through a real KeyRing and logs the DBFetch / Fetch /
  Store calls at the real call boundaries; KeyRing_trace.tla replays the stages of KeyRing.tla along them.

Verdicts come only from the clauses of the property (unsound / incomplete / overfetch / notstored / results /
toperr; response acceptance).  Differences from the staged design that the property leaves open are counted
in the evidence (design_deviations) and never reported as violations."""
import json
import os

from vlib.core import MachineryError

RING_INVS = ("OneResultEach Sound Complete SoundOnScenario OnlyNeeded InOrder NothingWithoutKeys "
             "StoredFetched NothingInvented TopErrOnlyDB ClassSane Emit")


def _note_deviations(ctx, body, tag):
    dev = ctx.notes.setdefault("design_deviations", {})
    n = 0
    for r in body:
        ex = r.get("extra")
        if isinstance(ex, dict) and ex.get("design"):
            n += 1
            e = dev.setdefault(ex["design"], {"count": 0, "first": ex.get("what", ""), "from": tag})
            e["count"] += 1
    if n:
        ctx.log("%s: %d scenario(s) differ from the staged design inside what the property allows (not a verdict)" % (tag, n))


def _ring_family(ctx, fam, simulate=None):
    cfg = "KeyRing_gen_%s_%s.cfg" % (fam, ctx.tier)
    if simulate:
        per_worker = max(1, simulate // ctx.workers)
        r = ctx.tlc("KeyRing_gen", cfg, simulate=per_worker, depth=40, timeout=1500)
        seen, recs = set(), []
        for rec in r.records:
            k = json.dumps(rec, sort_keys=True)
            if k not in seen:
                seen.add(k)
                recs.append(rec)
        recs.sort(key=lambda x: json.dumps(x, sort_keys=True))
    else:
        r = ctx.tlc("KeyRing_gen", cfg, timeout=1500)
        recs = r.records
    body = ctx.replay_and_compare("c12ring", recs, pkg="c12")
    _note_deviations(ctx, body, "KeyRing/" + fam)
    return len(recs)


def _responses(ctx):
    r = ctx.tlc("KeyResponse_gen", "KeyResponse_gen_%s.cfg" % ctx.tier, workers=min(8, ctx.workers))
    body = ctx.replay_and_compare("c12resp", r.records, pkg="c12")
    _note_deviations(ctx, body, "KeyResponse")
    return len(r.records)


def _batches(path):
    """trace file -> {batch id: [(lineno, record)]}"""
    out = {}
    with open(path) as f:
        for n, line in enumerate(f, 1):
            line = line.strip()
            if line:
                rec = json.loads(line)
                out.setdefault(rec["b"], []).append((n, rec))
    return out


def _record_and_validate(ctx, n):
    trace = os.path.join(ctx.scratch, "c12_trace.ndjson")
    res = ctx.harness("c12rec", args=["-out", trace, "-n", n], pkg="c12")
    for r in res:
        if not r.get("ok"):
            ctx.disagree("panic/VerifyJSONs", r.get("what", "panic")[:2000],
                         {"scenario": r.get("extra"), "count": 1})
    rejected = []
    ctx.validate_trace("KeyRing_trace", "KeyRing_trace.cfg", trace, lambda rec, lineno: rejected.append((rec, lineno)))
    if not rejected:
        return
    # re-execute every rejected batch in a fresh process and validate that trace on its own
    batches = _batches(trace)
    ids = sorted(set(rec["b"] for rec, _ in rejected))
    scen = [batches[b][0][1]["sc"] for b in ids]
    sin = os.path.join(ctx.scratch, "c12_rejected_scenarios.ndjson")
    with open(sin, "w") as f:
        for s in scen:
            f.write(json.dumps(s, separators=(",", ":")) + "\n")
    again = os.path.join(ctx.scratch, "c12_trace_again.ndjson")
    ctx.harness("c12rec", args=["-in", sin, "-out", again], pkg="c12")
    ok, rej2, _ = ctx.tlc_trace("KeyRing_trace", "KeyRing_trace.cfg", again)
    b2 = _batches(again)
    line_batch = {}
    for b, lines in b2.items():
        for n_, rec in lines:
            line_batch[n_] = (b, rec)
    reproduced = {}
    for n_ in rej2:
        b, rec = line_batch[n_]
        reproduced.setdefault(b, rec)
    missing = [ids[i] for i in range(len(ids)) if (i + 1) not in reproduced]
    if missing:
        raise MachineryError("%d rejected trace batch(es) did not reproduce in a fresh process (first: batch %s)"
                             % (len(missing), missing[0]))
    groups = {}
    for i, b in enumerate(ids):
        rec = reproduced[i + 1]
        end = b2[i + 1][-1][1]
        key = "C12/trace/%s-not-explained" % rec["ev"]
        if end.get("displaced"):
            key += "/displaced-by-unrequested-key"
        groups.setdefault(key, []).append((scen[i], [r for _, r in b2[i + 1][1:]]))
    for key, items in sorted(groups.items()):
        sc, lines = items[0]
        ctx.disagree(key, "the stages of KeyRing.tla do not explain the recorded calls/results of this batch: "
                     + json.dumps(lines)[:600],
                     {"harness": "c12rec", "pkg": "c12", "scenario": sc, "lines": lines, "count": len(items)})


def run(ctx):
    ctx.assumptions += [
        "ed25519 is unforgeable (symbolic signatures: an entry verifies iff its signer is the public key obtained); "
        "keys are real ed25519 pairs derived from the seed",
        "no clock hook: every valid_until_ts / expired_ts / request timestamp is placed at now + h hours with "
        "|h| >= 1 h from now and from now + 7 d; boundaries between two data fields (ts = valid_until_ts, "
        "ts = expired_ts, CheckKeys' now parameter) are exercised exactly",
        "reading of the validity clause: valid_until_ts (and the 7-day cap) is enforced only where the room version "
        "demands strict checking; lenient rooms (v1-v4) only enforce expired_ts, as the Matrix specification says",
        "garbage signatures are well-formed base64 strings that verify under no key (a non-base64 value makes "
        "VerifyJSON refuse the whole signatures object: JSON signing, not this property)",
        "the scripted database answers only for the names it is asked for",
        "which room versions demand strict checking is taken from MatrixBase.tla (Matrix specification: v5 and later, "
        "unstable identifiers by the base their MSC names), not from the library's table",
        "a response that writes a top-level member twice may be read as its signatures read it (last copy), refused by "
        "the checks, or fail to decode (the scripted client then behaves as fclient: error / entry left out); the "
        "property statement does not choose between these, any of the three outcomes is accepted",
        "concrete spellings (server names incl. IP literals / names differing by a suffix, key IDs differing only in "
        "letter case or by a prefix) vary with seed mod 3; each run uses one variant",
    ]
    ctx.exhaustive = True
    ctx.notes["rule"] = (
        "KeyRing_gen families single/twin/versions/pair/dberr: every scenario within the cfg bounds (requests x database entry per "
        "wanted key x per-key behaviour of up to two fetchers x timestamps x strict/lenient); family batch: seeded "
        "TLC simulation, duplicates removed; KeyResponse_gen: every scenario of the four modes and of the four dup* modes (member written twice x before/after x "
        "smuggled content x genuine response x way it arrives; layout and spelling of the smuggled copy vary with a hash of "
        "seed and scenario); trace: seeded random "
        "batches. distinct = distinct (family, per-request result, must-class, observed call shape) classes")
    quick = ctx.tier == "quick"
    total = 0
    # quick: all exhaustive families in one TLC run (KeyRing_gen_exh_quick.cfg); thorough: one run per family
    for fam in (("exh",) if quick else ("single", "twin", "versions", "pair", "dberr")):
        total += _ring_family(ctx, fam)
    total += _ring_family(ctx, "batch", simulate=4000 if quick else 96000)
    total += _responses(ctx)
    ctx.notes["scenarios_replayed"] = total
    _record_and_validate(ctx, 1500 if quick else 40000)
