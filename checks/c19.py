"""C19 - shared caches and parallel key fetching are safe under concurrency.

Designs (TLC, all interleavings within the bounds, VIEW without the history variables):
  DNSCache.tla        fclient/dnscache.go   size bound, served-unexpired, no cross-host answers, every critical
                                            section is a step of the sequential cache, deadlock freedom and
                                            termination of the eviction loop (liveness; size >= 1)
  KeyFetchPool.tla    keyring.go            explicit worker pool (job queue of capacity Q filled by the caller, then W
                                            workers): result = union of the per-server successes, deadlock freedom
                                            and termination for Q = #servers; Q < #servers deadlocks (sanity cfg);
                                            the caller's context: live / cancelled before / past its deadline /
                                            cancelled at any moment of the call - the call still returns (a pool that
                                            stops handing out work without closing the queue deadlocks: sanity cfg)
  KeyFetchBatches.tla keyring.go            several overlapping batches on one fetcher, callers that go away, servers
                                            with a behaviour of their own (answers / notary only / down / transient
                                            fault): what a batch returns depends on its own context and the servers
                                            only (sharing the outcome of an in-flight fetch refuted: sanity cfg)
  TransportCache.tla  fclient/client.go     one transport per TLS name, every caller of a name is handed the cached one
                                            (split lookup/create refuted in TransportCache_split.cfg), never
                                            half-initialised, bounded retries; the reaper between ANY two steps never
                                            meets a transport without its lastUsed stamp (stamping after the critical
                                            section refuted in TransportCache_touchoutside.cfg)
  LazyID.tla          eventV2.go            NoDataRace with an explicit happens-before relation (the design with
                                            an atomic / eager cache holds; the code as it is does not)
spec -> code (deterministic, -race build): TLC behaviours of the *_gen wrappers are replayed step by step against
  the real DNS cache (scripted resolver + dial control as scheduler gates), the real DirectKeyFetcher (gated
  KeyClient, completion order from TLC; plus batches of 1..130 distinct servers around the 64-worker limit with an
  instant scripted client: result and termination; the same sizes and the TLC schedules under cancelled / expired
  contexts, and TLC schedules of overlapping batches, one record at a time with "every goroutine is parked" as the
  deadlock test: c19batches) and the real federation round tripper (gated resolver underneath the transports; runs of
  consecutive critical sections - reaper passes around a getTransport - queued on the real transports mutex and
  handed over without a gap); after every step the real maps are compared with the model.
stress (sampled, -race build): k goroutines on the read-only accessors of ONE freshly parsed event (v10, v12), on
  KeyRing.VerifyJSONs over overlapping servers, on one DNS cache and on one transport cache; results must equal
  the sequential evaluation.  A race-detector report (GORACE halt_on_error=1 exitcode=66) is a violation.
"""
import json
import os
import random
import re
import sys

from vlib.core import MachineryError

PKG = "c19"
RACE_ENV = {"GORACE": "halt_on_error=1 exitcode=66", "VERIF_RECORD_TIMEOUT": "90"}
LIB = "github.com/matrix-org/gomatrixserverlib"


# ----------------------------------------------------------------- race reports
def _race_report(err):
    i = err.find("WARNING: DATA RACE")
    if i < 0:
        return None
    j = err.find("==================", i)
    return err[i:j if j > 0 else len(err)].strip()


def _race_key(report):
    """Canonical key: the innermost library functions of the conflicting accesses."""
    funcs = set()
    lines = report.splitlines()
    for n, line in enumerate(lines):
        if re.match(r"^(Previous )?(read|write|atomic read|atomic write) at 0x[0-9a-f]+ by ", line.strip(), re.I):
            for f in lines[n + 1:n + 12:2]:
                f = f.strip()
                if f.startswith(LIB):
                    funcs.add(re.sub(r"\(\)$", "", f[len(LIB):].lstrip("./")))
                    break
            else:
                if n + 1 < len(lines):
                    funcs.add(re.sub(r"\(\)$", "", lines[n + 1].strip()))
    return "C19/race/" + "+".join(sorted(funcs) or ["unknown"])


def _race_what(report):
    head = []
    for line in report.splitlines():
        if line.startswith("Goroutine "):
            break
        head.append(line.rstrip())
    return "race detector: " + "\n".join(head).strip()


def _run_raw(ctx, cmd, records, args=None):
    rc, out, err = ctx.harness(cmd, records, args=args, race=True, env=RACE_ENV, raw=True, pkg=PKG)
    return rc, out, err


def _report_race(ctx, cmd, records, err, what_prefix, tries=4):
    """A race report terminated the harness: reproduce it in a fresh process, then report it."""
    report = _race_report(err)
    key = _race_key(report)
    for _ in range(tries):
        rc, _, err2 = _run_raw(ctx, cmd, records)
        rep2 = _race_report(err2)
        if rep2 and _race_key(rep2) == key:
            ctx.disagree(key, what_prefix + _race_what(rep2),
                         {"harness": cmd, "pkg": PKG, "race": True, "records": records[:8], "report": rep2, "count": 1})
            return
    raise MachineryError("race report did not reproduce in %d fresh processes (%s):\n%s" % (tries, key, report))


def _replay(ctx, cmd, records, label):
    """spec -> code replay under -race; a race report is a violation, any other non-zero exit is machinery."""
    try:
        return ctx.replay_and_compare(cmd, records, race=True, env=RACE_ENV, pkg=PKG)
    except MachineryError as e:
        if "DATA RACE" not in str(e) and "exited 66" not in str(e):
            raise
    rc, _, err = _run_raw(ctx, cmd, records)
    if not _race_report(err):
        raise MachineryError("harness %s exited %d without a race report: %s" % (cmd, rc, err[-2000:]))
    _report_race(ctx, cmd, records, err, "%s replay of %d TLC schedules: " % (label, len(records)))
    return []


def _stress(ctx, name, cases):
    """One process per family: results vs the sequential evaluation; race report -> violation."""
    rc, out, err = _run_raw(ctx, "c19stress", cases)
    if _race_report(err):
        _report_race(ctx, "c19stress", cases, err, "%s, %d goroutines: " % (name, cases[0]["k"]))
        return
    if rc != 0:
        raise MachineryError("c19stress (%s) exited %d: %s" % (name, rc, err[-2000:]))
    res = [json.loads(l) for l in out.splitlines() if l.startswith("{")]
    if len(res) != len(cases):
        raise MachineryError("c19stress (%s) answered %d of %d cases" % (name, len(res), len(cases)))
    ctx.evaluations += sum(c["k"] * c["rounds"] for c in cases)
    for r in res:
        if r.get("nt"):
            ctx.nontrivial.add("stress:" + r["nt"])
        if not r.get("ok"):
            case = cases[r["i"]]
            again = [json.loads(l) for l in _run_raw(ctx, "c19stress", [case])[1].splitlines() if l.startswith("{")]
            if not again or again[0].get("ok"):
                # sampled schedule: try a few more times before giving up on the reproduction
                for _ in range(3):
                    again = [json.loads(l) for l in _run_raw(ctx, "c19stress", [case])[1].splitlines() if l.startswith("{")]
                    if again and not again[0].get("ok"):
                        break
                else:
                    raise MachineryError("stress mismatch did not reproduce: %s" % json.dumps(r)[:600])
            ctx.disagree(r.get("key", "C19/stress"), r.get("what", ""), {"harness": "c19stress", "pkg": PKG, "race": True,
                                                                      "records": [case], "result": again[0], "count": 1})


# -------------------------------------------------------------------- TLC parts
def _expect_violation(ctx, module, cfg, name):
    r = ctx.tlc(module, cfg, allow_violation=True, workers=1)
    if r.violated != name:
        raise MachineryError("%s/%s: expected TLC to refute %s (model sanity), got %r" % (module, cfg, name, r.violated))
    return r


def _coverage_ok(ctx, r, module, needed):
    missing = [a for a in needed if r.coverage.get(a, 0) == 0]
    if missing:
        raise MachineryError("%s: actions never taken in the coverage run: %s (coverage: %s)" % (module, missing, r.coverage))


def _par(ctx, jobs, width=3):
    """Run independent TLC jobs (callables) side by side; results in order.  Errors propagate."""
    from concurrent.futures import ThreadPoolExecutor
    ctx._spec_dir()
    with ThreadPoolExecutor(max_workers=width) as ex:
        futs = [ex.submit(j) for j in jobs]
        return [f.result() for f in futs]


VERSIONS = ["1", "2", "3", "4", "5", "6", "7", "8", "9", "10", "11", "12",
            "org.matrix.msc3667", "org.matrix.msc3787", "org.matrix.msc4014", "org.matrix.hydra.11"]


def _dedupe(records):
    seen, out = set(), []
    for r in records:
        s = json.dumps(r, sort_keys=True)
        if s not in seen:
            seen.add(s)
            out.append(r)
    return out


def _ctx_record(r):
    """A KeyFetchPool_gen record (one batch, context mode + cancel step) in the vocabulary of c19batches."""
    steps = []
    if r["mode"] in ("before", "deadline"):
        steps.append({"b": "b1", "s": "", "stage": "cancel", "o": "cancel" if r["mode"] == "before" else "deadline"})
    steps.append({"b": "b1", "s": "", "stage": "start", "o": ""})
    for s in r["steps"]:
        steps.append({"b": "b1", "s": s["s"], "stage": s["stage"], "o": "cancel" if s["stage"] == "cancel" else s["o"]})
    return {"req": {"b1": r["servers"]}, "steps": steps, "out": {"b1": r["succ"]}, "local": r["local"],
            "keyids": r["keyids"], "mode": r["mode"]}


def run(ctx):
    ctx.repro_attempts = 6   # order- and schedule-dependent misbehaviour is retried in fresh processes
    quick = ctx.tier == "quick"
    rng = random.Random(ctx.seed)
    ctx.assumptions += [
        "DNS cache size >= 1 (with size 0 the eviction loop spins while holding the mutex: DNSCache_size0.cfg refutes termination, as predicted; not exercised against the code)",
        "strictly increasing clock readings (expiry instants are distinct ranks in the model; a replay in which two real entries carry equal expiry instants is skipped)",
        "time is modelled by the environment steps Expire / Age, realised by rewriting entry.expires / lastUsed under the component's own mutex (no clock seam in the library)",
        "a KeyClient honours the caller's context (a call under a context that is done fails with its error at once); the 15 s per-request timeout the library derives from it never fires in a replay",
        "the transports mutex is used as a scheduler gate (held by the replay while the critical sections of the schedule queue up on it, then handed over in starvation mode): the order of the critical sections is the queue order, the hand-over without a gap is best effort and reported per chain in the coverage classes",
        "the yield points of the code are the resolver call, the dial and the KeyClient calls; interleavings inside the run between two yield points (dial failure -> delete -> re-lookup; resolver answer -> L2) are model-checked but not forced on the code: they are left to the race detector on randomised schedules",
        "linearisability is stated per critical section: a lookup is Read at L1 (hit) or Read at L1 + Store at L2 (miss); two concurrent misses on one host both resolve, which equals a sequential execution with an expiry between the two calls",
    ]

    # ---- 1. the designs (independent TLC runs, three at a time) ----------------------------------------------
    w = max(2, ctx.workers // 3)
    dns_cfgs = ["DNSCache_quick2.cfg"] if quick else ["DNSCache_thorough.cfg", "DNSCache_thorough2.cfg", "DNSCache_thorough3.cfg"]
    dns_live = ["DNSCache_live_quick.cfg"] if quick else ["DNSCache_live_quick.cfg", "DNSCache_live_thorough.cfg", "DNSCache_live_thorough2.cfg"]
    jobs = [lambda: ctx.tlc("DNSCache", "DNSCache_quick.cfg", coverage=True, workers=w)]
    jobs += [(lambda c=c: ctx.tlc("DNSCache", c, workers=w)) for c in dns_cfgs + dns_live + ["DNSCache_dur0.cfg"]]
    jobs += [lambda: _expect_violation(ctx, "DNSCache", "DNSCache_size0.cfg", "EveryCallReturns")]
    n_dns = len(jobs)
    jobs += [# every context mode (live, cancelled before, past its deadline, cancelled at any moment): W < #servers, Q = #servers
             lambda: ctx.tlc("KeyFetchPool", "KeyFetchPool_ctx.cfg", coverage=True, workers=w),
             lambda: ctx.tlc("KeyFetchPool", "KeyFetchPool_quick.cfg", workers=w),
             # fill before start needs Q >= #servers
             lambda: _expect_violation(ctx, "KeyFetchPool", "KeyFetchPool_smallqueue.cfg", "Deadlock"),
             # a pool that stops handing out servers once the context is done, without closing the queue
             lambda: _expect_violation(ctx, "KeyFetchPool", "KeyFetchPool_stopondone.cfg", "Deadlock"),
             # overlapping batches on one fetcher; sharing the outcome of an in-flight fetch between callers
             lambda: ctx.tlc("KeyFetchBatches", "KeyFetchBatches_quick.cfg", coverage=True, workers=w),
             lambda: _expect_violation(ctx, "KeyFetchBatches", "KeyFetchBatches_coalesce.cfg", "LiveCallerGetsWhatTheServersAnswer")]
    if not quick:
        jobs += [lambda: ctx.tlc("KeyFetchPool", "KeyFetchPool_bigqueue.cfg", workers=w),     # Q > #servers, W = 1
                 lambda: ctx.tlc("KeyFetchPool", "KeyFetchPool_startfirst.cfg", workers=w),   # workers first, Q = 1
                 lambda: ctx.tlc("KeyFetchPool", "KeyFetchPool_fewworkers.cfg", workers=w),
                 lambda: ctx.tlc("KeyFetchBatches", "KeyFetchBatches_all4.cfg", workers=w),
                 lambda: ctx.tlc("KeyFetchBatches", "KeyFetchBatches_thorough.cfg", workers=w)]   # three batches
    n_keys = len(jobs)
    jobs += [lambda: ctx.tlc("TransportCache", "TransportCache_quick.cfg", coverage=True, workers=w),
             lambda: ctx.tlc("TransportCache", "TransportCache_live.cfg", workers=w),
             # lookup and create as two critical sections without a second look: callers of one name get different transports
             lambda: _expect_violation(ctx, "TransportCache", "TransportCache_split.cfg", "CallersShareTheCachedTransport"),
             # lastUsed stamped after the critical section: insert ; Reaper ; Touch
             lambda: _expect_violation(ctx, "TransportCache", "TransportCache_touchoutside.cfg", "ReaperNeverMeetsAnUnstampedTransport"),
             lambda: ctx.tlc("LazyID", "LazyID_atomic.cfg", workers=w),
             lambda: _expect_violation(ctx, "LazyID", "LazyID_none.cfg", "NoDataRace")]
    if not quick:
        jobs += [lambda: ctx.tlc("TransportCache", "TransportCache_thorough.cfg", workers=w),
                 lambda: ctx.tlc("LazyID", "LazyID_eager.cfg", workers=w)]
    res = _par(ctx, jobs)
    _coverage_ok(ctx, res[0], "DNSCache", ["Call", "L1Retry", "ResolveOk", "ResolveFail", "L2Lock", "L2Evict", "L2Insert",
                                           "DialOk", "DialFail", "DelRetry", "Expire", "Done"])
    _coverage_ok(ctx, res[n_dns], "KeyFetchPool", ["Take", "Direct", "Notary", "Merge", "Return", "Send", "Close", "StartWorkers", "Cancel"])
    _coverage_ok(ctx, res[n_dns + 4], "KeyFetchBatches", ["Start", "Cancel", "Direct", "Notary", "Merge", "Return"])
    _coverage_ok(ctx, res[n_keys], "TransportCache", ["Call", "GetAgain", "SendOk", "SendFail", "Reaper", "Age"])
    ctx.notes["predicted_by_model"] = ("LazyID with Sync=none (the code as it is) violates NoDataRace; "
                                       "DNSCache with Size=0 violates EveryCallReturns; KeyFetchPool with a job queue smaller "
                                       "than the number of servers, filled before the workers start, deadlocks; so does a pool that stops handing "
                                       "out servers when the context is done without closing the queue; sharing the outcome of an "
                                       "in-flight fetch between overlapping batches hands a live caller the failure of one that went "
                                       "away; stamping lastUsed after the critical section lets the reaper meet an unstamped transport")

    # ---- 2. schedule replay (deterministic) -------------------------------------------------------------
    ctx.harness_build(race=True, pkg=PKG)   # once per run

    # enumerated: two callers (hosts = size + 1), size = number of hosts, lifetime 0, and ONE caller making three
    # consecutive calls (miss -> hit -> expiry -> miss, failed dial -> retry, hosts = size + 1 with eviction)
    gens = ["DNSCache_gen_quick.cfg", "DNSCache_gen_full.cfg", "DNSCache_gen_dur0.cfg", "DNSCache_gen_seq.cfg", "DNSCache_gen_seq3.cfg"]
    if not quick:
        gens += ["DNSCache_gen_thorough.cfg", "DNSCache_gen_thorough2.cfg"]
    sims = [("DNSCache_gen_sim.cfg", 600 if quick else 8000)] + ([] if quick else [("DNSCache_gen_sim1.cfg", 5000)])
    out = _par(ctx, [(lambda c=c: ctx.tlc("DNSCache_gen", c, workers=w)) for c in gens] +
               [(lambda c=c, n=n: ctx.tlc("DNSCache_gen", c, workers=1, simulate=n, depth=120)) for c, n in sims])
    dns, n_exh = [], 0
    for c, r in zip(gens, out):
        recs = r.records
        n_exh += len(recs)
        if quick and c in ("DNSCache_gen_seq.cfg", "DNSCache_gen_seq3.cfg"):
            recs = rng.sample(recs, min(len(recs), 2000))     # enumerated by TLC, sampled by seed in the quick tier
        dns += recs
    for r in out[len(gens):]:
        dns += r.records
    dns = _dedupe(dns)
    _replay(ctx, "c19dns", dns, "DNS cache")

    # all remaining generators side by side, then the replays one after the other
    gj = [lambda: ctx.tlc("KeyFetchPool_gen", "KeyFetchPool_gen_quick.cfg", workers=w),
          lambda: ctx.tlc("KeyFetchPool_gen", "KeyFetchPool_gen_quick3.cfg" if quick else "KeyFetchPool_gen_thorough.cfg", workers=w),
          # the caller's context: cancelled before / past its deadline / cancelled between two KeyClient completions
          lambda: ctx.tlc("KeyFetchPool_gen", "KeyFetchPool_gen_ctx.cfg" if quick else "KeyFetchPool_gen_ctx3.cfg", workers=w),
          # overlapping batches on ONE fetcher with callers that go away: enumerated for one shared server, simulated for
          # two servers (and three batches in the thorough tier)
          lambda: ctx.tlc("KeyFetchBatches_gen", "KeyFetchBatches_gen_one.cfg", workers=w),
          lambda: ctx.tlc("KeyFetchBatches_gen", "KeyFetchBatches_gen_sim.cfg", workers=1, simulate=350 if quick else 2000, depth=60),
          # one caller, one name: create -> use -> idle -> reap -> create again (a fresh transport), enumerated
          lambda: ctx.tlc("TransportCache_gen", "TransportCache_gen_seq.cfg", workers=w),
          lambda: ctx.tlc("TransportCache_gen", "TransportCache_gen_sim.cfg", workers=1, simulate=700 if quick else 2000, depth=80)]
    if not quick:
        gj += [lambda: ctx.tlc("KeyFetchBatches_gen", "KeyFetchBatches_gen_sim3.cfg", workers=1, simulate=1000, depth=90),
               lambda: ctx.tlc("TransportCache_gen", "TransportCache_gen.cfg", workers=w)]
    g = _par(ctx, gj, width=4)
    keys = _dedupe(g[0].records + g[1].records)
    _replay(ctx, "c19keys", keys, "key fetch pool")
    # sizes around the worker limit (64): the <= 3-server model cannot show what happens when W < #servers in the code
    sizes = [{"n": n, "pattern": ctx.seed * 2 + p} for n in (1, 63, 64, 65, 70, 130) for p in (0, 1)]
    sizes += [{"n": 0, "pattern": 0}, {"n": 0, "pattern": 0, "local": 2}, {"n": 64, "pattern": ctx.seed, "local": 1},
              {"n": 65, "pattern": ctx.seed, "local": 1}]
    _replay(ctx, "c19keysizes", sizes, "key fetch pool sizes")

    kctx = [_ctx_record(r) for r in g[2].records]
    one = g[3].records
    n_one = len(one)
    if quick:
        one = rng.sample(one, min(len(one), 250))
    bat = one + g[4].records + (g[7].records if not quick else [])
    # pool sizes around 64 and KeyRing.VerifyJSONs x context modes (instant scripted client that honours the context)
    csz = [{"kind": "sizes", "n": n, "pattern": ctx.seed + p, "mode": m, "cancel_at": c}
           for n in (1, 8, 64, 65, 130) for p in (0, 1)
           for m, c in (("before", 0), ("deadline", 0), ("mid", 1), ("mid", max(1, n // 2)), ("mid", n + 5), ("live", 0))]
    csz += [{"kind": "verify", "n": n, "pattern": ctx.seed, "mode": m, "cancel_at": c}
            for n in (1, 8, 70) for m, c in (("before", 0), ("deadline", 0), ("mid", 3), ("live", 0))]
    batches = _dedupe(kctx + bat) + csz
    _replay(ctx, "c19batches", batches, "key fetching: callers that go away, overlapping batches")

    trseq = g[5].records
    tr = g[6].records
    if not quick:
        full = g[8].records
        n_tr = len(full)
        tr = rng.sample(full, min(n_tr, 5000)) + tr
        ctx.notes["transport_schedules"] = "%d of %d enumerated (seeded sample) + simulated" % (min(n_tr, 5000), n_tr)
    tr = _dedupe(tr + (rng.sample(trseq, min(len(trseq), 250)) if quick else trseq))
    _replay(ctx, "c19tr", tr, "transport cache")

    # ---- 3. stress under the race detector (sampled) -----------------------------------------------------
    k = 8
    rounds = 25 if quick else 400
    for ver in ("10", "12"):
        cases = [{"case": "events", "ver": ver, "kind": kind, "tamper": tamper, "k": k, "rounds": rounds}
                 for kind in ("member", "create", "message") for tamper in (False, True)]
        _stress(ctx, "read-only accessors of one event parsed from untrusted JSON (room version %s)" % ver, cases)
    # every registered room version (eventV1 / eventV2 / eventV3 accessor sets), every constructor
    few = 6 if quick else 100
    _stress(ctx, "read-only accessors of one event, every registered room version",
            [{"case": "events", "ver": v, "kind": kind, "tamper": False, "k": k, "rounds": few}
             for v in VERSIONS for kind in ("member", "create", "message")])
    _stress(ctx, "read-only accessors of one event built by the trusted / headered constructors",
            [{"case": "events", "ver": v, "kind": kind, "tamper": tamper, "ctor": ctor, "k": k, "rounds": few}
             for v in VERSIONS for ctor in ("trusted", "headered")
             for kind, tamper in (("member", False), ("create", False), ("message", ctor == "trusted"))])
    # operations documented as returning a copy (SetUnsigned, Sign) next to the accessors of the shared event
    for cp in ("setunsigned", "sign"):
        _stress(ctx, "%s (returns a copy) next to the read-only accessors of one shared event" % cp,
                [{"case": "events", "ver": v, "kind": kind, "tamper": False, "copies": cp, "k": k, "rounds": 4 * few}
                 for v in (("1", "3", "10", "12") if quick else VERSIONS) for kind in ("member", "create")])
    _stress(ctx, "KeyRing.VerifyJSONs over overlapping servers (DirectKeyFetcher, scripted KeyClient)",
            [{"case": "verify", "k": k, "rounds": 10 if quick else 300, "servers": s, "seed": ctx.seed * 10 + s} for s in (2, 4)])
    _stress(ctx, "KeyRing.VerifyJSONs with a PerspectiveKeyFetcher in front of the DirectKeyFetcher",
            [{"case": "verify", "k": k, "rounds": 10 if quick else 300, "servers": s, "fetch": "perspective", "seed": ctx.seed * 10 + s} for s in (3, 5)])
    _stress(ctx, "lookups, DialContext with failing dials, expiry on one DNS cache (size 1, hosts - 1, = hosts; lifetime 0)",
            [{"case": "dns", "k": k, "rounds": 300 if quick else 5000, "size": sz, "hosts": 4, "seed": ctx.seed * 10 + sz} for sz in (1, 3, 4)] +
            [{"case": "dns", "k": k, "rounds": 300 if quick else 5000, "size": 2, "hosts": 4, "dur0": True, "seed": ctx.seed}])
    _stress(ctx, "getTransport / reaper on one transport cache",
            [{"case": "transport", "k": k, "rounds": 200 if quick else 5000, "seed": ctx.seed}])
    # the reaper as the goroutine of its own that it is: passes at an arbitrary rate next to first uses of fresh names
    _stress(ctx, "reaper passes next to first uses of fresh TLS names on one transport cache",
            [{"case": "transportreap", "k": k, "rounds": 300 if quick else 1200, "seed": ctx.seed}])
    # first use of a TLS name by several callers at once: the model's sequential reference (CallersShareTheCachedTransport)
    # on the real cache.  getTransport is one critical section, so no gate can force miss/miss/create/create: sampled.
    _stress(ctx, "concurrent first getTransport of fresh TLS names (all callers must share the cached transport)",
            [{"case": "transport1", "k": 16, "rounds": 6000 if quick else 40000, "seed": ctx.seed}])

    # ---- 4. code -> spec: free-running executions of the DNS cache against DNSCache_trace.tla ----
    from checks.c19_trace import run_dnstrace
    run_dnstrace(ctx)

    ctx.exhaustive = False
    ctx.notes["rule"] = (
        "designs: every interleaving of 2-3 callers over 2-3 hosts / servers / TLS names, size 1-2, with expiry, reaping and "
        "faults (TLC, exhaustive within the cfg bounds); replay: every behaviour of the 2-caller DNS_gen configs (%d schedules, "
        "enumerated) + seeded TLC simulation of the 3-caller configs; every completion order x fault pattern of the key-fetch "
        "pool gen configs (enumerated), the same with the caller's context cancelled before / past its deadline / cancelled "
        "between any two completions (enumerated); overlapping batches: every schedule of two batches on one shared server x "
        "server behaviour x cancellation (%d enumerated, sampled by seed in the quick tier) + seeded TLC simulation for two "
        "servers / three batches; transport schedules enumerated by TLC and sampled by seed (thorough) or simulated (quick), "
        "reaper passes also between a failed request and the second getTransport; "
        "distinct = distinct sets of (step -> caller position / outcome) classes per schedule; stress runs are sampled "
        "schedules under the race detector" % (n_exh, n_one))
    ctx.notes["schedules_replayed"] = {"dns": len(dns), "keys": len(keys), "key_pool_sizes": len(sizes), "transport": len(tr),
                                       "keys_contexts_and_overlapping_batches": len(batches)}


def replay(ctx, rp):
    """bin/check C19 --replay <file>: re-execute a stored disagreement under -race."""
    if rp["key"].startswith("C19/dnstrace/"):
        from checks.c19_trace import replay_dnstrace
        return replay_dnstrace(ctx, dict(rp, _path=os.path.abspath(sys.argv[-1])))
    pl = rp["payload"]
    recs = pl.get("records") or [pl["record"]]
    rc, out, err = _run_raw(ctx, pl["harness"], recs)
    rep = _race_report(err)
    print("stored :", rp["key"], "-", rp["what"][:400])
    if rep:
        print("now    :", _race_key(rep))
        print(_race_what(rep))
        print("VIOLATION property=C19 replay=%s" % os.path.abspath(sys.argv[-1]))
        return 1
    bad = [json.loads(l) for l in out.splitlines() if l.startswith("{") and not json.loads(l).get("ok")]
    print("now    :", json.dumps(bad[0]) if bad else "ok (exit %d)" % rc)
    if bad:
        print("VIOLATION property=C19 replay=%s" % os.path.abspath(sys.argv[-1]))
        return 1
    return 0
