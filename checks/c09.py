"""C09 - an auth verdict depends only on the event and the state it needs.

Checker.tla models the reusable checker (cache of create / power-levels / join-rules keyed by event identity);
TLC checks Coherent and OnlyNeeded over all check sequences; every sequence is replayed through ONE real
allowerContext driven as state resolution drives it, and through fresh Allowed().  Metamorphic variants
(insertion order, needed subset, padding with un-needed state, repetition, AddAuthEvents selection) are
applied to the Auth_gen.tla member / generic scenarios."""
from vlib import auth


def run(ctx):
    ctx.repro_attempts = 6   # order- and schedule-dependent misbehaviour is retried in fresh processes
    ctx.assumptions += ["in-package access to allowerContext through the build-time overlay accessor VerifChecker"]
    ctx.exhaustive = True
    ctx.notes["rule"] = ("all check sequences of length MaxLen over the 21-step pool of Checker.tla per version; "
                         "plus metamorphic variants of every scenario of the Auth_gen families member_self, "
                         "member_restricted, member_other, member_tpi, generic, structure, pl0, create")
    r = ctx.tlc("Checker_gen", "Checker_gen_%s.cfg" % ctx.tier, timeout=1500)
    ctx.replay_and_compare("c09", r.records)
    for fam in ["member_self", "member_restricted", "member_other", "member_tpi", "generic", "structure", "pl0", "create"]:
        g = auth.gen_family(ctx, fam)
        ctx.replay_and_compare("c09meta", g.records)
