"""C09 - an auth verdict depends only on the event and the state it needs.

Checker.tla models the reusable checker (cache of create / power-levels / join-rules keyed by the identity of the
event OBJECT - two objects can share an event ID: an event and its redacted copy, sender-chosen IDs); TLC checks
Coherent and OnlyNeeded over all check sequences; every sequence is replayed through ONE real allowerContext driven
as state resolution drives it, and through fresh Allowed().  Metamorphic variants (insertion order, needed subset,
padding with un-needed state, repetition, AddAuthEvents selection) are applied to the Auth_gen.tla member / generic
scenarios, with user IDs as sender IDs and - in the pseudo-ID room version - with sender keys and a key -> user
mapping."""
import os
from concurrent.futures import ThreadPoolExecutor

from vlib import auth
from vlib.core import MachineryError

PSEUDO = "org.matrix.msc4014"
# the quick version set of the Auth_gen families plus the pseudo-ID version (realised with sender keys)
QUICK_VERSIONS = '{"1", "6", "8", "10", "12", "%s"}' % PSEUDO
FAMILIES = ["member_self", "member_restricted", "member_other", "member_tpi", "generic", "structure", "pl0", "create"]


def gen_family(ctx, fam, workers):
    d = ctx._spec_dir()
    cfg = "Auth_gen_%s_c09_%s.cfg" % (fam, ctx.tier)
    versions = ("Versions = %s" % QUICK_VERSIONS) if ctx.tier == "quick" else "Versions <- VersionsAll"
    with open(os.path.join(d, cfg), "w") as f:
        f.write("SPECIFICATION Spec\nCONSTANTS\n  %s\n  Family = \"%s\"\n  PLDepth = \"small\"\n"
                "INVARIANTS %s\nCHECK_DEADLOCK FALSE\n" % (versions, fam, auth.INVS))
    return ctx.tlc("Auth_gen", cfg, timeout=1500, workers=workers)


def sequences(ctx, r):
    """Joins the pool records (one per version) with the compact sequence records of Checker_gen.tla."""
    pools = {x["ver"]: x["pool"] for x in r.records if "pool" in x}
    by_ver = {}
    for x in r.records:
        if "seq" in x:
            by_ver.setdefault(x["ver"], []).append(x)
    if not pools or set(pools) != set(by_ver):
        raise MachineryError("Checker_gen emitted pools for %s but sequences for %s" % (sorted(pools), sorted(by_ver)))
    for ver in sorted(by_ver):
        pool = pools[ver]
        out = []
        for x in by_ver[ver]:
            steps = []
            for n, want in zip(x["seq"], x["want"]):
                s = pool[n - 1]
                if s["n"] != n:
                    raise MachineryError("pool of version %s is not in index order" % ver)
                steps.append(dict(s, want=want))
            out.append({"ver": ver, "steps": steps})
        yield ver, out


def gen_small(ctx, module, cfg, workers):
    return ctx.tlc(module, cfg, timeout=1500, workers=workers)


def join_selection(r):
    """CheckerSel_gen: pool record per version + compact (scenario, provider) records -> full records for c09sel."""
    pools = {x["ver"]: x["selpool"] for x in r.records if "selpool" in x}
    out = []
    for x in r.records:
        if "selpool" in x:
            continue
        if x["ver"] not in pools:
            raise MachineryError("CheckerSel_gen emitted no pool for version %s" % x["ver"])
        s = pools[x["ver"]][x["n"] - 1]
        if s["n"] != x["n"]:
            raise MachineryError("selection pool of version %s is not in index order" % x["ver"])
        out.append(dict(x, st=s["st"], ev=s["ev"]))
    return out


def join_batches(r):
    """CheckerBatch_gen: template pool per version + compact batch records -> full records for c09batch."""
    pools = {x["ver"]: x["tpool"] for x in r.records if "tpool" in x}
    out = []
    for x in r.records:
        if "tpool" in x:
            continue
        if x["ver"] not in pools:
            raise MachineryError("CheckerBatch_gen emitted no pool for version %s" % x["ver"])
        pool = pools[x["ver"]]
        items = []
        for it in x["items"]:
            t = pool[it["t"] - 1]
            if t["n"] != it["t"]:
                raise MachineryError("template pool of version %s is not in index order" % x["ver"])
            items.append({"t": it["t"], "how": it["how"], "ev": t["ev"],
                          "view": t["alt"][x["focus"]] if it["how"] == "alt" else t["st"]})
        out.append({"ver": x["ver"], "focus": x["focus"], "items": items, "want": x["want"],
                    "pst": pool[x["items"][0]["t"] - 1]["st"]})
    return out


def expect_refuted(ctx, module, cfg, invariant, why):
    bad = ctx.tlc(module, cfg, timeout=600, workers=2, allow_violation=True, expect_records=False)
    if bad.violated != invariant:
        raise MachineryError("%s with %s should violate %s (%s), got %r" % (module, cfg, invariant, why, bad.violated))


def run(ctx):
    ctx.repro_attempts = 6   # order- and schedule-dependent misbehaviour is retried in fresh processes
    ctx.assumptions += ["in-package access to allowerContext through the build-time overlay accessor VerifChecker",
                        "in-package access to stateResolverV2.authAndApplyEvents through the overlay accessor VerifAuthAndApplyBatch "
                        "(a resolver set up as ResolveStateConflictsV2 sets it up)",
                        "pseudo-ID rooms: sender keys are ed25519 public keys derived from fixed seeds; the caller's "
                        "UserIDForSender knows exactly these keys; mxid_mapping signatures are not verified by the auth rules"]
    ctx.exhaustive = True
    ctx.notes["rule"] = ("all check sequences of length MaxLen over the 31-step pool of Checker.tla per version (chosen event "
                         "IDs; natural IDs + PDU.Redact() where a redacted power-levels / join-rules copy occurs; sender keys "
                         "in the pseudo-ID version); plus metamorphic variants of every scenario of the Auth_gen families "
                         "member_self, member_restricted, member_other, member_tpi, generic, structure, pl0, create, the "
                         "pseudo-ID version realised with sender keys (incl. padding with same-type-other-state-key events before / "
                         "after / between, AddAuthEvents over the full / needed / needed-without-create state); every operation "
                         "history (AddEvent / Clear / NewAuthEvents list) of length MaxOps over the 17-event universe of "
                         "CheckerProv.tla; every (scenario, held subset) of CheckerSel.tla; every batch (focus, items x how) of "
                         "CheckerBatch.tla through authAndApplyEvents")
    # the Auth_gen families are independent TLC runs: a few at a time, next to the sequence run
    ctx._spec_dir()   # create the scratch copy of spec/ before the threads start
    ctx.harness_build()   # ... and the harness binary
    with ThreadPoolExecutor(max_workers=5) as ex:
        # code -> spec: recorded and validated (one TLC worker) next to the generation runs
        sessions = ex.submit(record_sessions, ctx, 6000 if ctx.tier == "quick" else 80000)
        batr = ex.submit(gen_small, ctx, "CheckerBatch_gen", "CheckerBatch_gen_%s.cfg" % ctx.tier, max(2, ctx.workers // 4))
        prov = ex.submit(gen_small, ctx, "CheckerProv_gen", "CheckerProv_gen_%s.cfg" % ctx.tier, 2)
        selr = ex.submit(gen_small, ctx, "CheckerSel_gen", "CheckerSel_gen_%s.cfg" % ctx.tier, 2)
        fams = [ex.submit(gen_family, ctx, fam, max(2, ctx.workers // 4)) for fam in FAMILIES]
        r = ctx.tlc("Checker_gen", "Checker_gen_%s.cfg" % ctx.tier, timeout=1500, workers=max(2, ctx.workers // 2))
        if ctx.tier == "thorough":
            # sanity of the pool: a cache keyed by event ID instead of object identity must be refuted by the model
            bad = ctx.tlc("Checker_gen", "Checker_gen_eventid.cfg", timeout=600, workers=2, allow_violation=True,
                          expect_records=False)
            if bad.violated != "Coherent":
                raise MachineryError("Checker.tla with CacheKey = \"eventid\" should violate Coherent (the pool no longer "
                                     "tells event IDs from event objects), got %r" % bad.violated)
            # ... and likewise the faults the three new models are there to tell from the design
            expect_refuted(ctx, "CheckerProv_gen", "CheckerProv_gen_bytype.cfg", "ReadsLastAdd",
                           "create / power levels / join rules kept to hand by type alone")
            expect_refuted(ctx, "CheckerProv_gen", "CheckerProv_gen_everroom.cfg", "ValidHeld", "Valid() over every room ever seen")
            expect_refuted(ctx, "CheckerSel_gen", "CheckerSel_gen_stripfirst.cfg", "Exactly", "the first reference dropped for the create event")
            expect_refuted(ctx, "CheckerBatch_gen", "CheckerBatch_gen_clearonce.cfg", "BatchCoherent", "provider emptied once per batch")
        # the provider as a history of operations; the selection of AddAuthEvents; batches through authAndApplyEvents
        ctx.replay_and_compare("c09prov", prov.result().records)
        ctx.replay_and_compare("c09sel", join_selection(selr.result()))
        ctx.replay_and_compare("c09batch", join_batches(batr.result()))
        if ctx.tier == "quick":
            ctx.replay_and_compare("c09", [x for _, recs in sequences(ctx, r) for x in recs])
        else:
            for _, recs in sequences(ctx, r):   # one batch per version keeps the expanded records small
                ctx.replay_and_compare("c09", recs)
        for f in fams:
            g = f.result()
            pseudo = [dict(x, idmode="pseudo") for x in g.records if x["ver"] == PSEUDO]
            plain = g.records if ctx.tier == "thorough" else [x for x in g.records if x["ver"] != PSEUDO]
            if not pseudo:
                raise MachineryError("no scenario of room version %s generated for family %s" % (PSEUDO, g))
            ctx.replay_and_compare("c09meta", plain + pseudo)
        sessions.result()


def record_sessions(ctx, n):
    """code -> spec: long sessions of checks through ONE reused checker per room (c09rec), validated line by line by
    Checker_trace.tla: the verdict is a function of (version, needed state, event) alone, equal to the specification's
    and to a fresh Allowed()."""
    import json
    trace = os.path.join(ctx.scratch, "checker_trace.ndjson")
    res = ctx.harness("c09rec", args=["-out", trace, "-n", n])
    for r in res:
        if not r.get("ok"):
            ctx.disagree("panic/reused-checker", r.get("what", "panic")[:2000], {"scenario": r.get("extra"), "count": 1})
    unreproduced = []

    def on_reject(rec, lineno):
        # the verdict may depend on the history of the session: the whole recording is repeated in fresh processes and
        # the same line must show the same scenario and the same verdicts
        for attempt in range(ctx.repro_attempts):
            t2 = os.path.join(ctx.scratch, "checker_trace_again_%d.ndjson" % attempt)
            ctx.harness("c09rec", args=["-out", t2, "-n", lineno])
            with open(t2) as f:
                again = [x for x in f.read().splitlines() if x.strip()]
            if len(again) >= lineno:
                r2 = json.loads(again[lineno - 1])
                if all(r2.get(k) == rec.get(k) for k in ("ver", "st", "ev", "got", "fresh", "sub", "sel", "pad", "editing", "keep", "session", "step")):
                    kind = ("reused!=fresh" if rec["got"] != rec["fresh"] else
                            "needed-subset" if rec["got"] != rec["sub"] else
                            "selected-auth-events" if rec["got"] != rec.get("sel", rec["got"]) else "verdict")
                    ctx.disagree("C09/session/%s/%s/reused=%s" % (kind, rec.get("key", "?"), rec["got"]),
                                 "session %d step %d in room version %s (%s): the reused checker says allowed=%s, a fresh Allowed "
                                 "says %s, a fresh Allowed over exactly the state StateNeededForAuth names says %s, another server judging an equivalent "
                                 "event built with AddAuthEvents over %s against its listed auth events says %s (session: provider padded with "
                                 "same-type-other-state-key events: %s; accessor results edited between checks: %s; provider not cleared before this "
                                 "check: %s); Checker_trace.tla does not "
                                 "explain the line (the verdict must be the specification's for the event and the state it needs, whatever was "
                                 "checked before)"
                                 % (rec["session"], rec["step"], rec["ver"], rec.get("key"), rec["got"], rec["fresh"], rec["sub"],
                                    rec.get("selfrom"), rec.get("sel"), rec.get("pad"), rec.get("editing"), rec.get("keep")),
                                 {"harness": "c09rec", "args": ["-n", lineno, "-seed", ctx.seed], "line": lineno, "record": rec, "count": 1})
                    return
        unreproduced.append(lineno)

    ctx.validate_trace("Checker_trace", "Checker_trace.cfg", trace, on_reject, max_rejections=12, timeout=1500)
    if unreproduced:
        if not ctx.violations:
            raise MachineryError("recorded verdicts of session lines %s did not reproduce in fresh processes" % unreproduced[:10])
        ctx.notes["unreproduced_session_lines"] = len(unreproduced)
