"""C02 - JSON signatures: JSONSign.tla <-> SignJSON / VerifyJSON / ListKeyIDs.

design  : the unrestricted specification (every action with every parameter) is model-checked with small bounds.
spec -> code: every behaviour of JSONSign_gen.tla within the tier's bounds (start document x action history) is
  re-enacted on real bytes with real ed25519 keys (harness/cmd/c02 `c02`); the verification matrix over
  2 entities x 2 key IDs x 3 keys and ListKeyIDs of the final document are compared with the specification,
  and every SignJSON step is checked to keep the other members and signature entries.  A second family
  (FormSpec, JSONSign_forms_<tier>.cfg) leaves entries that are no signatures, in every form, next to (and in
  the place of) a genuine signature: the signer still verifies, ListKeyIDs lists what is there.
code -> spec: seeded random runs over a wider universe (`c02rec`) are logged action by action with the library's
  answers and validated by JSONSign_trace.tla."""
import json
import os

from vlib.core import MachineryError

PKG = "c02"


def run(ctx):
    ctx.assumptions += [
        "ed25519 is unforgeable (symbolic signatures: a signature verifies iff same key and same signed projection); "
        "bit-level malleability of signatures is not modelled",
        "entities, key IDs and keys are interchangeable in the specification; the harness assigns concrete names / "
        "key pairs to the labels by a permutation seeded from (seed, record), so symmetric behaviours are pruned",
        "number literals are part of the signed text as written (as in C01's reading): values include integers up to and "
        "beyond 2^53, fractions and exponent spellings; two values opposed in a tamper always differ numerically, two "
        "spellings of one number (1.0 / 1, -0 / 0) are never opposed, and SignJSON's output members are compared with "
        "its input's by exact numeric value",
        "no duplicate member names",
        "an entry of the signatures member in a form other than a string of unpadded base64 is never a signature under a key "
        "of the universe (where it carries bytes they are a signature by a key nobody holds, or random); SignJSON may decline "
        "(error) a document holding an entry it cannot carry over (anything but base64 strings, null and \"\"), it may not "
        "drop or rewrite one; null and \"\" are one form (a blanked entry); every signatures[name] is an object or null",
    ]
    ctx.exhaustive = True
    ctx.notes["rule"] = ("every behaviour of JSONSign_gen.tla (GenSpec) within the bounds of the tier's cfg: start document "
                         "(object shape x presentation x spelling of the empty signature map) x action history; one record "
                         "per behaviour, compared on the full verification matrix and the key-ID lists of its final state; "
                         "distinct = distinct (start spelling, action-name sequence, final presentation, number of verifying triples"
                         "; in FormSpec also the sequence of (place, form) of the entries left)")
    ctx.notes["constants"] = "JSONSign_gen_%s.cfg, JSONSign_forms_%s.cfg" % (ctx.tier, ctx.tier)

    # the design itself: unrestricted Next, all invariants
    ctx.tlc("JSONSign_gen", "JSONSign_base.cfg", expect_records=False)

    # spec -> code
    r = ctx.tlc("JSONSign_gen", "JSONSign_gen_%s.cfg" % ctx.tier, timeout=1500)
    # second family (FormSpec): a genuine SignJSON signature, then entries of every form (padded base64, text that is
    # no base64, number / boolean, object, array, null / "") in every place relative to it (another entity's, the
    # signer's under another key ID, under a key ID of another algorithm, the signer's own)
    rf = ctx.tlc("JSONSign_gen", "JSONSign_forms_%s.cfg" % ctx.tier, timeout=1500)
    ctx.replay_and_compare("c02", r.records + rf.records, pkg=PKG, timeout=3000)
    del r, rf

    # code -> spec
    record_and_validate(ctx, 1000 if ctx.tier == "quick" else 30000)


def _rerun(ctx, run):
    """Re-record one run in a fresh process (with document bytes); returns (trace lines, failure lines)."""
    path = os.path.join(ctx.scratch, "c02_rerun_%d.ndjson" % run)
    fails = ctx.harness("c02rec", args=["-out", path, "-mode", "run=%d,dump" % run], pkg=PKG)
    with open(path) as f:
        lines = [json.loads(x) for x in f.read().splitlines() if x.strip()]
    return lines, [x for x in fails if not x.get("ok")]


def record_and_validate(ctx, n):
    trace = os.path.join(ctx.scratch, "c02_trace.ndjson")
    res = ctx.harness("c02rec", args=["-out", trace, "-n", n], pkg=PKG)

    # real-code checks that failed while recording (panic, SignJSON error, SignJSON not preserving a member / an entry)
    groups = {}
    for r in res:
        if not r.get("ok"):
            groups.setdefault(r.get("key", "unkeyed"), []).append(r)
    for key, rs in sorted(groups.items()):
        first = rs[0]
        run_no = first["extra"]["run"]
        _, again = _rerun(ctx, run_no)
        if not [x for x in again if x.get("key") == key]:
            raise MachineryError("failure %s of recorded run %d did not reproduce in a fresh process" % (key, run_no))
        ctx.disagree(key, first.get("what", "")[:2000],
                     {"harness": "c02rec", "pkg": PKG, "args": ["-mode", "run=%d,dump" % run_no], "record": first.get("extra"),
                      "result": first, "count": len(rs)})

    rejected = {}

    def on_reject(rec, lineno):
        lines, _ = _rerun(ctx, rec["run"])
        same = [x for x in lines if x["step"] == rec["step"]]
        if not same or any(same[0].get(k) != rec.get(k) for k in ("op", "p", "ver", "kids")):
            raise MachineryError("trace line %d (run %d step %d) did not reproduce in a fresh process" % (lineno, rec["run"], rec["step"]))
        x = same[0]
        kind = "keyids-error" if any(str(k).startswith("error:") for v in x["kids"].values() for k in v) else "answers"
        key = ("C02/lookalike-member/trace/%s" % kind) if x.get("look") else ("C02/trace/%s/after=%s" % (kind, x["op"]))
        if x.get("form"):
            key = "C02/foreign-entry/trace/%s/form=%s" % (kind, x["form"])
        if x.get("lone"):
            key = "C02/lone-surrogate/trace/%s" % kind
        if key in rejected:
            rejected[key] += 1
            return
        rejected[key] = 1
        what = ("recorded run %d, step %d (%s %s): the library answered ver=%s kids=%s, which JSONSign.tla does not derive; document: %s"
                % (x["run"], x["step"], x["op"], [p for p in x["p"] if p], x["ver"], x["kids"], x.get("doc", "")[:700]))
        ctx.disagree(key, what, {"harness": "c02rec", "pkg": PKG, "args": ["-mode", "run=%d,dump" % rec["run"]],
                                 "record": rec, "result": x, "count": 1})

    ctx.validate_trace("JSONSign_trace", "JSONSign_trace.cfg", trace, on_reject, timeout=1500)


def replay(ctx, rp):
    """bin/check C02 --replay <file>: re-execute one stored disagreement against the current tree."""
    pl = rp["payload"]
    ctx.seed = rp.get("seed", ctx.seed)      # concrete names / values / keys are a function of (seed, record)
    print("key    :", rp.get("key"))
    print("stored :", json.dumps(pl.get("result"))[:3000])
    if pl.get("harness") == "c02rec":
        run_no = int(pl["args"][1].split("=")[1].split(",")[0])
        lines, fails = _rerun(ctx, run_no)
        for x in lines:
            print("line   :", json.dumps(x)[:1500])
        for x in fails:
            print("failure:", json.dumps(x)[:3000])
        stored = pl.get("result") or {}
        if "step" in stored:
            same = [x for x in lines if x["step"] == stored["step"]]
            bad = bool(same) and all(same[0].get(k) == stored.get(k) for k in ("op", "p", "ver", "kids"))
        else:
            bad = any(x.get("key") == rp.get("key") for x in fails)
    else:
        res = [r for r in ctx.harness("c02", [pl["record"]], pkg=PKG) if "i" in r]
        print("now    :", json.dumps(res[0] if res else None)[:3000])
        bad = bool(res) and not res[0].get("ok")
    if bad:
        print("VIOLATION property=%s (reproduces on the current tree)" % ctx.pid)
        return 1
    print("does not reproduce on the current tree")
    return 0
