"""C03 - events round-trip and their identity is a function of the redacted content.

EventIdentity.tla <-> EventBuilder.Build / NewEventFromUntrustedJSON / NewEventFromTrustedJSON / ToHeaderedJSON +
NewEventFromHeaderedJSON / SetUnsigned / SetUnsignedField / Sign / Redact / EventID / RoomID / AuthEventIDs.

spec -> code: every behaviour of the families `ops` (Build, then operations) and `sib` (Build, then a second event
from a proto-event that differs in exactly one field) for all 16 registered room versions is performed on real
events built and signed with real ed25519 keys; after every step the fields the property names, Redacted(),
CheckFields, the equality pattern of the real event IDs against the identity tokens (room versions 3+), the ID
alphabet and the room-ID / auth-event derivations of room versions with domainless room IDs are compared.
Edge of what is an event (family `edge`): proto-events whose content / unsigned names a member twice below the top level
(in the content itself, in a nested object, two levels down, inside an array element) and proto-events of depth 2^53,
2^53+1, 2^63-2, 2^63-1: what Build hands out must be an event on every parse path (room versions 6+: Build refuses the
depths), and siblings that differ only in such depths have different IDs (family `sib`, fields depth_up / depth_max).
Several handles on the same bytes (family `alias`): NewEventFromTrustedJSON(p.JSON()), ...WithEventID, the headered path
and the slices a caller kept share the built event's bytes; one edit on one handle (SetUnsigned, SetUnsignedField of a new
field / of an existing field with a shorter / equally long / longer value, Sign, Redact) must leave every observation of
every other handle, and the kept bytes, as they were.
code -> spec: seeded random events with random contents go through random operations; every logged call is
re-derived by EventIdentity_trace.tla."""
import os

from vlib.core import MachineryError

PKG = "c03"

OPNAMES = {"RU": "NewEventFromUntrustedJSON", "RT": "NewEventFromTrustedJSON", "RH": "NewEventFromHeaderedJSON",
           "SU": "SetUnsigned", "SF": "SetUnsignedField", "AS": "Sign", "RD": "Redact", "PAIR": "Build-pair"}


def run(ctx):
    ctx.assumptions += [
        "symbolic cryptography: SHA-256 is collision free (event IDs / content hashes are equal iff what they cover is "
        "equal), ed25519 is unforgeable; real keys derived from fixed seeds",
        "room versions 1-2: event IDs are random by design, only the round trip applies (no identity / sibling claim)",
        "contents contain no fractional / exponent numbers and no keys needing JSON escapes (canonical JSON is C01's "
        "subject); no top-level key differing from a protected key only in case (open C05 finding)",
        "Redact() on an event already flagged redacted is a no-op in the library: whether an `unsigned` added since is "
        "stripped is not compared (neither C03 nor C04 speaks about it)",
        "a create event of a domainless room version reports no auth events whatever its auth_events lists",
        "boundary / multiplicity variants of the proto-event: prev / auth lists absent (not merely empty), depth 0 and 2^53-1, "
        "unsigned {} , origin_server_ts 0, the same event cited twice in prev_events and in auth_events, state key = sender; "
        "content values in valid but unusual spellings (escaped solidus, \\u escapes incl. U+2028 and a surrogate pair, HTML "
        "characters, an object with white space and unsorted nested keys)",
        "family len: type / state key / sender of exactly 255 bytes (an event: Build succeeds, every clause holds), of 255 "
        "code points in more bytes and of 256 bytes (Build reports the field check's error; if it hands the event over next "
        "to the error, CheckFields and the untrusted parse of that event must refuse it in the same class, persistable or not)",
        "domainless room versions: auth_events citing the create event explicitly (last, in the middle, first and last): "
        "AuthEventIDs() = the implied create event first, then the listed references unchanged (the explicit copies stay)",
        "every headered step also goes through NewEventFromTrustedJSONWithEventID; after every call the object the call was "
        "made on must still be an event of the same identity; every third behaviour is repeated on a fresh event without "
        "reading any accessor between the calls (cold caches); IRoomVersion.NewEventBuilder() filled by hand must build the "
        "same event as NewEventBuilderFromProtoEvent",
        "signer identities: the server name and the key ID of every signer (Build's, Sign's) are spelt in every class of the "
        "Matrix grammar - server name as DNS name / with port / IPv4 literal / bracketed IPv6 literal (each with and without "
        "port) / a single label with a hyphen / 207 characters; key ID ed25519:<version> with the version alphanumeric / with an "
        "underscore inside (the form Synapse generates) / with a leading underscore / digits only / upper case / 128 characters: "
        "family sid enumerates them with every room version and every pair of {three parse paths, Sign by the same server with "
        "another key, Sign by another server, Redact}; all other families rotate the spellings over their scenarios (pseudo-ID "
        "room versions: the identity is the sender key under the MSC's fixed key ID); only the signer is respelt - sender, room "
        "and state keys keep the plain server name; a failure that disappears under the plainly spelt identity is keyed by the "
        "spelling class it needs",
        "family edge: content texts naming a member twice below the top level (the member zz_num twice in the content; "
        "{\"a\":1,\"b\":\"x\",\"a\":2}; m.relates_to with event_id twice; an array element with user_id twice) and an unsigned "
        "section whose prev_content names membership twice: ambiguous JSON (RFC 8259 section 4) that no clause of the event "
        "format excludes and that Build signs as given - the event handed out must re-parse on all three paths (a Build that "
        "refuses such a proto-event is accepted); content is compared as a tree whose objects are multisets of members; "
        "depths 2^53, 2^53+1, 2^63-2, 2^63-1: room versions 1-5 build and round-trip them and events differing only in "
        "depth (2^53-1 / 2^53 / 2^53+1 / 2^63-2 / 2^63-1 pairwise-adjacent, and each against 2^63-1) have different IDs; room "
        "versions 6+ (canonical JSON) must refuse them - an event handed out instead must carry the proto-event's depth",
        "family alias: handles on the same bytes are made WITHOUT copying (q := NewEventFromTrustedJSON(p.JSON()), "
        "NewEventFromTrustedJSONWithEventID(id, p.JSON()), NewEventFromHeaderedJSON(p.ToHeaderedJSON()), the slices p.JSON() "
        "and ToHeaderedJSON() returned); one operation {SetUnsigned x2, SetUnsignedField new field, SetUnsignedField(age) "
        "with a value of fewer / as many / more digits than the present one (where unsigned has age: from the proto-event or "
        "from an earlier SetUnsigned), Sign by another server, Redact} on one of the four events, the other three and the "
        "kept slices observed after it (JSON() byte for byte, Redacted(), every accessor, the kept bytes parsed as untrusted "
        "input against a copy taken before); half of the behaviours never read an accessor before the edit (lazily "
        "computed IDs); callers writing into a slice JSON() returned are outside the contract and not modelled",
        "numbers that are not canonical integers (1.5, 1e3, 1E2, +-2^53, -0, 2.0, a fraction nested in an array) appear "
        "only in the `num` family, as one content value: in room versions 6+ the specification has Build refuse the "
        "proto-event (a refusal is accepted; an event handed out instead must satisfy every clause, i.e. re-parse on "
        "all three paths with the same fields and ID); in room versions 1-5 the event must build and round-trip",
    ]
    ctx.exhaustive = True
    ops = ("7 operations, behaviours of length 3 on variant 1 and of length 2 on variant 2 (proto-event with unsigned, empty lists)" if ctx.tier == "quick" else
           "7 operations with behaviours of length 4 (2 variants) and all 9 operations with behaviours of length 2 (4 variants)")
    ctx.notes["rule"] = (
        "every behaviour of EventIdentity.tla: 16 room versions x 12 event shapes (+2 m.room.create-typed non-create events in domainless versions; 7 protected types, message, empty "
        "content, custom state, member with restricted-join / third-party-invite content, member with kept keys only) x "
        "prev/auth/depth/unsigned variants x (%s) and x 17 sibling fields after 0/1 operation; family num: 16 room versions x %s shapes x 11 number classes in the content x behaviours of length %s; family sid: 16 room versions x %s signer-identity spellings (of 8 server-name x 6 key-ID classes) x behaviours of length 2 over 6 operations; distinct = distinct "
        "(family, ID format, redaction algorithm, domainless, type, operation sequence, redacted pattern, sibling field, "
        "number / repeated-member class, high depth, signer spelling in family sid; family alias: handle edited, edit, cold / warm, unsigned of the proto-event)" % ((ops,) + (("3", "2", "15") if ctx.tier == "quick" else ("6", "3", "all 48"))))
    fams = (["ops", "opsb", "num", "len", "sid", "sib", "edge", "alias"] if ctx.tier == "quick"
            else ["ops", "ops2", "num", "len", "sid", "sib", "edge", "alias"])
    ctx.notes["constants"] = ", ".join("EventIdentity_gen_%s_%s.cfg" % (f, ctx.tier) for f in fams)
    for fam in fams:
        r = ctx.tlc("EventIdentity_gen", "EventIdentity_gen_%s_%s.cfg" % (fam, ctx.tier), timeout=2400)
        _dimensions_present(fam, r.records)
        ctx.replay_and_compare("c03", r.records, pkg=PKG)
        del r
    record_and_validate(ctx, "c03", 3000 if ctx.tier == "quick" else 60000, "C03")


def _dimensions_present(fam, records):
    """the generator must still contain the dimensions the families were added for"""
    if fam == "sib":
        pairs = set((x["proto"]["depth"], x["proto2"]["depth"]) for x in records if x["fam"] == "sib" and x["f"] in ("depth_up", "depth_max"))
        want = {("d3", "d4"), ("d4", "d5"), ("d5", "d6"), ("d6", "d7"), ("d3", "d7"), ("d4", "d7")}
        if want - pairs:
            raise MachineryError("sib family lost the siblings of high depth: %s" % sorted(want - pairs))
    elif fam == "edge":
        reps = set(x["proto"]["num"] for x in records) | set("unsigned:" + x["proto"]["unsigned"] for x in records)
        want = {"rep-content", "rep-nested", "rep-deeper", "rep-array", "unsigned:urep"}
        depths = set((x["proto"]["depth"], x["refuse"]) for x in records)
        wantd = set((d, f) for d in ("d4", "d5", "d6", "d7") for f in (True, False))
        if want - reps or wantd - depths:
            raise MachineryError("edge family lost dimensions: %s %s" % (sorted(want - reps), sorted(wantd - depths)))
    elif fam == "alias":
        have = set((x["who"], x["o"], x["cold"]) for x in records)
        want = set((w, o, c) for w in ("built", "RT", "RW", "RH") for o in ("SU1", "SU2", "SF", "SFs", "SFe", "SFl", "AS2", "RD")
                   for c in (True, False))
        if want - have:
            raise MachineryError("alias family lost (handle, edit) pairs: %s" % sorted(want - have)[:8])


def _fresh(ctx, probe, cmd):
    out = [r for r in ctx.harness(cmd, [probe], pkg=PKG) if "i" in r]   # fresh process
    return out[0] if out else None


def _shape(line):
    """what of a trace line is the same in every recording (room versions 1-2 draw random event IDs)"""
    ab = lambda a: (a["type"], sorted(a["top"]), sorted(a["con"]), a["tpiobj"], sorted(a["tpi"]))
    return (line["ver"], line["op"], line["tampered"], line["bred"], line["ared"], line["hashmatch"], line["idsame"],
            ab(line["before"]), ab(line["after"]))


def record_and_validate(ctx, mode, n, pid):
    """code -> spec: random events through the real code, validated by EventIdentity_trace.tla."""
    cmd = "c03" if mode == "c03" else "c04"
    trace = os.path.join(ctx.scratch, "%s_trace.ndjson" % mode)
    res = ctx.harness("c03rec", args=["-out", trace, "-n", n, "-mode", mode], pkg=PKG)
    for r in res:   # errors / panics while recording: re-executed through the probe carried by the line
        if r.get("ok"):
            continue
        again = _fresh(ctx, r.get("extra"), cmd)
        if again is None or again.get("ok") or again.get("key") == "reproduced":
            raise MachineryError("failure while recording (%s: %s) did not reproduce in a fresh process"
                                 % (r.get("key"), (r.get("what") or "")[:300]))
        key = again.get("key", "%s/record" % pid).replace("C03/", pid + "/")
        ctx.disagree(key, again.get("what", "")[:2000],
                     {"harness": cmd, "pkg": PKG, "record": r.get("extra"), "result": again, "count": 1})

    why = {}
    reported = set()
    second = {}

    def _rerecord(lineno):
        if not second:
            import json
            t2 = os.path.join(ctx.scratch, "%s_trace_again.ndjson" % mode)
            ctx.harness("c03rec", args=["-out", t2, "-n", n, "-mode", mode], pkg=PKG)
            with open(t2) as f:
                for i, line in enumerate(f, 1):
                    if line.strip():
                        second[i] = json.loads(line)
        return second.get(lineno)

    def on_reject(rec, lineno):
        if not why:
            e = ctx.tlc("EventIdentity_trace", "EventIdentity_trace_why.cfg", workers=1, timeout=900,
                        env={"TRACE_FILE": trace})
            for x in e.records:
                why[x["line"]] = x["why"]
        w = why.get(lineno)
        if w is None:
            raise MachineryError("no reason emitted for rejected trace line %d" % lineno)
        if w == "recorder":
            raise MachineryError("trace line %d is malformed (recorder problem)" % lineno)
        probe = {"fam": "probe", "ver": rec["ver"], "probe": rec}
        r0 = _fresh(ctx, probe, cmd)
        if r0 is None or r0.get("ok"):
            # not reproducible by the call alone: misbehaviour that depends on what the process did before? Record the
            # whole trace again in a fresh process (same seed): the line must come out the same.
            again = _rerecord(lineno)
            if again is None or _shape(again) != _shape(rec):
                raise MachineryError("recorded result of trace line %d did not reproduce in a fresh process" % lineno)
            key = "%s/trace/%s%s/%s/only-after-earlier-calls" % (pid, OPNAMES.get(rec["op"], rec["op"]),
                                                                 "/tampered" if rec.get("tampered") else "", w)
            if key not in reported:
                reported.add(key)
                ctx.disagree(key, "the specification does not derive the %s observed for %s (room version %s); the call "
                             "alone in a fresh process behaves, the same sequence of calls in a fresh process reproduces it: "
                             "the result depends on earlier calls (trace line %d of c03rec -mode %s -n %d, seed %d)"
                             % (w, OPNAMES.get(rec["op"], rec["op"]), rec["ver"], lineno, mode, n, ctx.seed),
                             {"harness": cmd, "pkg": PKG, "record": probe, "result": {"ok": False, "line": lineno, "observed": rec}, "count": 1})
            return
        if r0.get("key") != "reproduced":
            raise MachineryError("trace line %d: %s" % (lineno, r0.get("what")))
        key = "%s/trace/%s%s/%s" % (pid, OPNAMES.get(rec["op"], rec["op"]), "/tampered" if rec.get("tampered") else "", w)
        if key in reported:
            return
        reported.add(key)
        what = ("the specification does not derive the %s observed for %s (room version %s): %s"
                % (w, OPNAMES.get(rec["op"], rec["op"]), rec["ver"], r0.get("what", "")[:1500]))
        ctx.disagree(key, what, {"harness": cmd, "pkg": PKG, "record": probe, "result": r0, "count": 1})

    ctx.validate_trace("EventIdentity_trace", "EventIdentity_trace.cfg", trace, on_reject)
