"""C11 - state resolution is order-independent and yields well-formed state; orderings are topological.
The Room_gen.tla queries of C10 are run under permutations of the state sets, shuffles inside every list,
duplicated auth-event entries and repeated runs through the current and the deprecated entry points; TLC checks
the structural clauses (WellFormedR) on the definition for every fork pair."""
from vlib import room


def run(ctx):
    ctx.repro_attempts = 6   # order- and schedule-dependent misbehaviour is retried in fresh processes
    ctx.exhaustive = False
    ctx.assumptions += ["Go map-iteration order and list shuffles are sampled (seeded), not enumerated"]
    ctx.notes["rule"] = ("every Room_gen.tla query x {baseline, reversed sets, 3 seeded shuffles, duplicated auth "
                         "entries, 4 repeats} x entry points {ResolveConflictsNew, ResolveStateConflictsV2New, "
                         "deprecated ResolveConflicts / ResolveStateConflictsV2, ResolveStateConflicts}; plus 8 "
                         "presentation orders of the room's events through ReverseTopologicalOrdering (both orders)")
    room.generate(ctx, on_batch=lambda recs: ctx.replay_and_compare("c11", recs))
