"""C11 - state resolution is order-independent and yields well-formed state; orderings are topological.
The Room_gen.tla queries of C10 are run under permutations of the state sets, shuffles inside every list,
duplicated auth-event entries and repeated runs through the current and the deprecated entry points; TLC checks
the structural clauses (WellFormedR) on the definition for every fork pair.
Further dimensions of the input, each licensed by a lemma of StateRes.tla that TLC checks on the emitted queries:
 * sender-chosen depths (V1StrictTotal, V1DepthRankOnly): every version-1 query is repeated with the depth ranks realised
   as int64 depths next to MinInt64 / MaxInt64 and more than 2^63 apart around a pivot (negative depths included): all
   presentations give one state, the state of the natural realisation; v2 / v2.1 queries and the topological orderings
   are repeated with depths that run against the DAG (they never read them);
 * padding (PadNeutral): an event of type m.room.create / m.room.power_levels / m.room.join_rules under a non-empty
   state key of its own, added to every state set of every query: it is kept, all other keys resolve as before;
 * spelling of power levels (LevelsSpellingFree): the rooms of the SpellSet plans (vlib/room.py)."""
from vlib import room


def run(ctx):
    ctx.repro_attempts = 6   # order- and schedule-dependent misbehaviour is retried in fresh processes
    ctx.exhaustive = False
    ctx.assumptions += ["Go map-iteration order and list shuffles are sampled (seeded), not enumerated"]
    ctx.notes["rule"] = ("every Room_gen.tla query x {baseline, every other order of the state sets, 3 seeded shuffles, duplicated auth "
                         "entries, 4 repeats; the same (lighter) under each extreme realisation of the depth ranks (v1) / once with depths "
                         "against the DAG (v2, v2.1); one shuffled presentation padded with a create / power_levels / join_rules event "
                         "under a key of its own} x entry points {ResolveConflictsNew, ResolveStateConflictsV2New, "
                         "deprecated ResolveConflicts / ResolveStateConflictsV2, ResolveStateConflicts}; plus 8 "
                         "presentation orders of the room's events through ReverseTopologicalOrdering (both orders), + 2 with depths against the DAG")
    room.generate(ctx, on_batch=lambda recs: ctx.replay_and_compare("c11", recs))
