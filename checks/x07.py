"""X07 (not a listed property; growth of the specification) - the join handshake seen from the JOINING server.

JoinFlow.tla <-> gomatrixserverlib.PerformJoin (performjoin.go) end to end against the resident side: the real
                 HandleMakeJoin / HandleSendJoin with R's own key and view of the room for the honest behaviour, a scripted
                 server for the misbehaving ones - make_join: transport error; a template with another type / room / sender /
                 state key (or none) / redacts / membership (or none) / null content / additional content keys / the keys the
                 caller sets / unsigned data / malformed auth_events or prev_events / references of the other format /
                 room_version absent, unknown, other than the room's; a template although R's state forbids the join;
                 send_join: transport error; no event; the event echoed; J's signature stripped / corrupted; J's event with an
                 edited content (redacted on receipt: same event ID, J's signature valid); v1/v2: another event under J's
                 event ID; another join of the same user and room - other content unsigned / signed only by R, an OLDER
                 genuine join J signed at the time, other prev_events; a join of another room / of another user of J / a leave
                 / not a member event / unparsable; a state without create event, with a create event of an unknown or another
                 version, that bans the joiner, with a bad signature on the create event / on a superseded event of the chain.

Properties (invariants of JoinFlow.tla over history variables, written from the server-server API "Joining rooms", the
authorisation rules for membership = join, MSC4014 and the doc comments of PerformJoin):
  ReturnedIsTheJoin   err == nil => the returned JoinEvent is the join J built and signed: same event ID, nothing but
                      signatures / unsigned differs from what J sent, J's signature valid (R's may be added); unsigned = caller's
  SentIsTheJoin       make_join names J's user and the room; send_join carries a join member event of that user in that room,
                      no redacts, signed by J, caller's content kept (pseudo IDs: J's signed mxid_mapping), the template's
                      additional keys and references kept
  NoLeak              nothing of the caller's (or the template's) unsigned goes over the wire; nothing is sent on bad input; one
                      make_join, at most one send_join, none after a failed make_join
  StateChecked / CheckBeforeReturn   success => the snapshot has a create event of a known version, only validly signed events,
                      allows the join; the check ran on the event that is returned, before the return
  ErrorTaxonomy       failed exchange = Transient + unreachable; refused answer = permanent + reachable; bad input = permanent
  Complete / WhySound / HonestSucceeds / BannedNeverJoins
Design freedom: constant Strict (a template that is not a join template of the user is refused instead of repaired); both
designs satisfy every invariant (JoinFlow_strict.cfg), the replay accepts either outcome for such templates.
Two rules the library follows are planted faults of the model (refuted by TLC) and are what the replay names a
disagreement by: asbuilt_adopt (any join member event of the room with the joiner's state key in the answer replaces J's
own event) -> X07/adopted-answer/<variant>/returned-unchecked; asbuilt_merge (the template's content is laid over the
caller's) -> X07/template-content/<variant>/template-wins.
"""
import collections
import os

from vlib.core import MachineryError

# planted defect of J's mechanics in the model -> the invariant that must refute it (static cfg files JoinFlow_fault_*.cfg)
FAULTS = [
    ("asbuilt_adopt", "ReturnedIsTheJoin"),
    ("asbuilt_merge", "SentIsTheJoin"),
    ("adopt_by_id", "ReturnedIsTheJoin"),
    ("keep_template_fields", "SentIsTheJoin"),
    ("leak_unsigned", "NoLeak"),
    ("skip_state_check", "StateChecked"),
    ("skip_allowed", "BannedNeverJoins"),
    ("adopt_after_check", "CheckBeforeReturn"),
    ("all_transient", "ErrorTaxonomy"),
]
ASBUILT = 2   # the first two are the rules the library follows: refuted in every run

ACTIONS = ("Prepare", "MakeJoinReq", "RemoteTemplate", "TemplateMisbehave", "NetFailMake", "ReceiveTemplate", "ChooseVersion",
           "SenderID", "Build", "Sign", "SendJoinReq", "RemoteAnswer", "AnswerMisbehave", "NetFailSend", "ReceiveAnswer",
           "Adopt", "CreateCheck", "StoreMappings", "CheckState", "SetUnsigned", "Return")

TPL = ("honest", "neterr", "lenient", "t_extra", "t_override", "t_unsigned", "v_absent", "v_unknown", "t_type", "t_room",
       "t_sender", "t_skey", "t_nokey", "t_redacts", "t_mship", "t_nomship", "t_nocontent", "t_auth_malformed",
       "t_prev_malformed", "t_otherformat", "v_other")
ANS = ("honest", "neterr", "noevent", "echo", "strip_sig", "corrupt_sig", "redacted", "same_id", "other_content_unsigned",
       "other_content_rsigned", "older_join", "other_refs", "other_room", "other_user", "other_mship", "not_member",
       "unparsable")
ST = ("ok", "nocreate", "create_unknownver", "create_otherver", "banned", "badsig_state", "badsig_chain")
WHY = ("bad_input", "make_join_failed", "unsupported", "sid_err", "send_join_failed", "no_create", "unknown_create_version",
       "store_err", "bad_state")


def _census(records):
    """vacuity guard: every path, outcome reason, error class and every behaviour of R occurs in the emitted behaviours"""
    c = collections.Counter()
    for r in records:
        c["path:" + ("pseudoid" if r["ver"] == "org.matrix.msc4014" else "userid")] += 1
        c["res:" + r["out"]["res"]] += 1
        c["class:" + r["out"]["class"]] += 1
        c["why:" + r["out"]["why"]] += 1
        c["tpl:" + r["sc"]["tpl"]] += 1
        c["ans:" + r["sc"]["ans"]] += 1
        c["st:" + r["sc"]["st"]] += 1
        c["input:" + r["sc"]["input"]] += 1
        c["made:%d" % len(r["made"])] += 1
        c["sent:%d" % len(r["sent"])] += 1
        c["order:" + ",".join(r["order"])] += 1
        if r["out"]["res"] == "ok":
            c["adopted:%s" % ("adopt" in r["order"])] += 1
            c["asbuilt-differs:%s" % (r["asb"]["ret"] != r["ret"])] += 1
    return c


REQUIRED = (
    ["path:userid", "path:pseudoid", "res:ok", "res:err", "class:input", "class:network", "class:protocol", "made:0", "made:1",
     "sent:0", "sent:1", "adopted:True", "adopted:False", "asbuilt-differs:True", "asbuilt-differs:False",
     "order:make_join,send_join,adopt,check,return", "order:make_join,send_join,check,return",
     "input:nil_user", "input:nil_room", "input:nil_keyring"]
    + ["why:" + w for w in WHY] + ["tpl:" + k for k in TPL] + ["ans:" + k for k in ANS] + ["st:" + k for k in ST])


def run(ctx):
    ctx.assumptions += [
        "ed25519 is unforgeable: R can sign anything under its own name but cannot produce J's signature over an event J did "
        "not sign; the 'older_join' and 'other_user' answers are events J really signed",
        "the federation client (the caller's FederatedJoinClient) is a transparent transport: what R answers reaches PerformJoin "
        "as the JSON R sent (fclient.RespMakeJoin / RespSendJoin decoded from it); an HTTP error status of R reaches PerformJoin "
        "as an opaque error of the client and counts as a failed exchange (network class) - PerformJoin cannot tell a 403 from "
        "a dead connection through this interface (its own TODO), so the class of an R-side refusal is not a finding",
        "honest R = the real HandleMakeJoin / HandleSendJoin with R's key, a real KeyRing holding J's key, R's own view of the "
        "room (public or invite-only; the joiner unknown, invited, banned or joined), a template builder that takes auth / prev "
        "events from R's current state; the send_join answer carries R's current state and the whole room as auth chain",
        "J's KeyRing is a real KeyRing over a key database that holds both servers' keys; the EventProvider yields nothing "
        "(every event the checks need is in the answer or missing)",
        "a template that is not a join template of the user (other type / room / sender / state key / redacts / membership, "
        "null content, malformed or other-format references, a room version other than the room's) may be repaired or refused "
        "(constant Strict): the replay accepts a protocol-class refusal before send_join for these",
        "an absent room_version is modelled for room versions 1, 2 and 4 only (Matrix: 'assumed to be 1 or 2'; PerformJoin takes "
        "4 when the references are plain event IDs); a room_version other than the room's is realised as a version of the other "
        "event format (the answer's events are then not events of the version J works in)",
        "pseudo-ID rooms: the state R answers with holds no member event without mxid_mapping (no invite / ban / leave of "
        "anybody): PerformJoin's storeMXIDMappings fails the whole join on such an event ('missing mxid_mapping'; observed, "
        "outside this specification) - joiner membership invite and the banning state are therefore not explored there; "
        "room_version absent / other are not explored there either",
        "restricted joins (join_authorised_via_users_server, R's signature REQUIRED on the returned event) are not modelled: "
        "R's signature on the returned event is optional here",
        "the snapshot comparison reads 'allows' from the join rules and the joiner's membership in the returned state (public / "
        "invite rooms), 'clean' from an independent ed25519 check of every returned event",
    ]
    tier = ctx.tier
    ctx._spec_dir()
    ctx.harness_build(pkg="x07")
    r = ctx.tlc("JoinFlow_gen", "JoinFlow_gen_%s.cfg" % tier, coverage=bool(os.environ.get("X07_COVERAGE")),
                workers=min(ctx.workers, 8))
    if not r.records:
        raise MachineryError("JoinFlow_gen produced no behaviour")
    if os.environ.get("X07_COVERAGE"):
        dead = [a for a in ACTIONS if not r.coverage.get(a)]
        ctx.notes["coverage_actions"] = {a: r.coverage.get(a, 0) for a in ACTIONS}
        if dead:
            raise MachineryError("JoinFlow.tla: actions never taken: %s" % ", ".join(dead))
    census = _census(r.records)
    missing = [k for k in REQUIRED if not census[k]]
    if missing:
        raise MachineryError("vacuous generation: no emitted behaviour has %s" % ", ".join(missing))
    ctx.log("JoinFlow: %d behaviours, %d versions" % (len(r.records), len(set(x["ver"] for x in r.records))))
    # replayed in chunks, each in a process of its own: a record is a few milliseconds of work, but on a stalled machine
    # the replay runtime gives up on the rest of a batch after three slow records - that must not cost the whole run
    chunk = int(os.environ.get("X07_CHUNK") or 8000)
    res = []
    for lo in range(0, len(r.records), chunk):
        res += ctx.replay_and_compare("x07", r.records[lo:lo + chunk], pkg="x07", env={"VERIF_RECORD_TIMEOUT": "900"})
    # which rule the real library follows where the two differ (evidence; the verdicts are the disagreements above)
    differs = [i for i, x in enumerate(r.records) if x["out"]["res"] == "ok" and x["asb"]["ret"] != x["ret"]]
    by_key = collections.Counter()
    for i in differs:
        if i < len(res):
            x = res[i]
            by_key[("template-refused-before-send_join" if "template-refused" in (x.get("nt") or "") else "specified") if x.get("ok")
                   else (x.get("key") or "?")] += 1
    ctx.notes["adoption_rule_where_the_rules_differ"] = {"behaviours": len(differs), "real_library": dict(by_key)}
    # the other design the specification allows for J (Strict = TRUE) satisfies every invariant as well
    ctx.tlc("JoinFlow_gen", "JoinFlow_strict.cfg", expect_records=False, workers=2)
    # the invariants must refute planted defects of the model's mechanics (the properties are not vacuous); the two
    # as-built rules in every run
    rest = FAULTS[ASBUILT:]
    faults = FAULTS if tier == "thorough" else FAULTS[:ASBUILT] + [rest[(ctx.seed + k * 3) % len(rest)] for k in range(2)]
    for fault, inv in faults:
        fr = ctx.tlc("JoinFlow_gen", "JoinFlow_fault_%s.cfg" % fault, allow_violation=True, expect_records=False, workers=2)
        if fr.violated != inv:
            raise MachineryError("JoinFlow.tla with the planted defect %s: expected a violation of %s, TLC reports %s"
                                 % (fault, inv, fr.violated))
    ctx.exhaustive = True
    ctx.notes["rule"] = (
        "every completed behaviour of JoinFlow.tla over room version x at most Budget deviations from the base scenario (valid "
        "input, no caller content / unsigned, public room, joiner unknown to the room, honest R, J's environment working) in the "
        "dimensions input, caller's content, caller's unsigned, join rule, joiner's membership on R, make_join behaviour of R (21), "
        "send_join event of R (17), state of the answer (7), J's environment; distinct = (path, outcome / error class, reasons "
        "against the call, the three behaviours of R)")
    ctx.notes["constants"] = "JoinFlow_gen_%s.cfg" % tier
    ctx.notes["census"] = {k: census[k] for k in sorted(census)}
    ctx.notes["planted_model_faults_refuted"] = ["%s->%s" % f for f in faults]
