"""C08 - no privilege escalation through power-level events: whenever the real Allowed() accepts a
power-levels event, NoEsc (written from the property statement) holds - on every 0/1/2-key variation of the
Auth_gen.tla pl families (spec -> code) and on recorded random edits (code -> spec, Auth_trace.tla).
TLC also checks the lemma AcceptedImpliesNoEsc on the specification's own rules.

Thorough tier, supplementary (never a verdict): the same lemma for ALL integer levels - spec/PLLemma.tla restates the
rule and NoEsc over arbitrary integers, Apalache discharges "accepted => no escalation", "verdicts depend only on the
order of the integers involved" (which makes the five ranks exact) and refutes eight planted weakenings;
spec/PLLemma_bridge.tla (TLC) ties the integer operators to Auth.tla's on every power-levels scenario."""
from vlib import auth
from checks import c08_lemma


def run(ctx):
    ctx.repro_attempts = 6   # verdicts that depend on map iteration order are retried in fresh processes
    auth.run_families(ctx, "c08", auth.FAMILIES_PL)
    auth.record_and_validate(ctx, 16000 if ctx.tier == "quick" else 60000)
    if ctx.tier == "thorough":
        lemma = c08_lemma.run_lemma(ctx)   # supplementary: never changes the exit code
        ctx.notes["lemma_unbounded"] = {k: lemma[k] for k in ("obligations", "discharged", "seconds", "statement") if k in lemma}
