"""C08 - no privilege escalation through power-level events: whenever the real Allowed() accepts a
power-levels event, NoEsc (written from the property statement) holds - on every 0/1/2-key variation of the
Auth_gen.tla pl families (spec -> code) and on recorded random edits (code -> spec, Auth_trace.tla).
TLC also checks the lemma AcceptedImpliesNoEsc on the specification's own rules.
Family placcess: the same after the caller read the current (or the proposed) power levels through a public accessor
(PDU.PowerLevels(), NewPowerLevelContentFromEvent / FromAuthEvents) and edited the value it got - the read-modify-write
that builds the next power-levels event; the recorder does it at random too.
Histories (AuthSeq_gen.tla, family plseq): every session of two power-levels events by alice / bob (one-key edits of the
current content or of the initial one - a fork), judged one after the other against the evolving current levels through
ONE reused checker driven as state resolution drives it (gmsl.NewVerifChecker: Clear + AddEvent, update(), allowed()) and
through a fresh Allowed(): whichever accepts, NoEsc holds against the levels current at that time.

Thorough tier, supplementary (never a verdict): the same lemma for ALL integer levels - spec/PLLemma.tla restates the
rule and NoEsc over arbitrary integers, Apalache discharges "accepted => no escalation", "verdicts depend only on the
order of the integers involved" (which makes the five ranks exact) and refutes eight planted weakenings;
spec/PLLemma_bridge.tla (TLC) ties the integer operators to Auth.tla's on every power-levels scenario."""
from vlib import auth
from checks import c08_lemma


def run(ctx):
    ctx.repro_attempts = 6   # verdicts that depend on map iteration order are retried in fresh processes
    n = 16000 if ctx.tier == "quick" else 60000
    auth.run_families(ctx, "c08", auth.FAMILIES_PL, record=n)
    auth.record_and_validate(ctx, n)
    if ctx.tier == "thorough":
        lemma = c08_lemma.run_lemma(ctx)   # supplementary: never changes the exit code
        ctx.notes["lemma_unbounded"] = {k: lemma[k] for k in ("obligations", "discharged", "seconds", "statement") if k in lemma}
