"""C08 - no privilege escalation through power-level events: whenever the real Allowed() accepts a
power-levels event, NoEsc (written from the property statement) holds - on every 0/1/2-key variation of the
Auth_gen.tla pl families (spec -> code) and on recorded random edits (code -> spec, Auth_trace.tla).
TLC also checks the lemma AcceptedImpliesNoEsc on the specification's own rules."""
from vlib import auth


def run(ctx):
    ctx.repro_attempts = 6   # verdicts that depend on map iteration order are retried in fresh processes
    auth.run_families(ctx, "c08", auth.FAMILIES_PL)
    auth.record_and_validate(ctx, 16000 if ctx.tier == "quick" else 60000)
