"""C08 - no privilege escalation through power-level events: whenever the real Allowed() accepts a
power-levels event of the Auth_gen.tla pl families, NoEsc (written from the property statement) holds.
TLC also checks the lemma AcceptedImpliesNoEsc on the specification's own rules."""
from vlib import auth


def run(ctx):
    auth.run_families(ctx, "c08", auth.FAMILIES_PL)
