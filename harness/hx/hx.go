// Package hx is the small runtime shared by the per-property harness binaries under
// harness/cmd/<name>: command registry, NDJSON record I/O, parallel replay under recover().
//
//	<bin> <cmd> -in records.ndjson [-seed N] [flags]   spec -> code replay
//	<bin> <cmd> -out trace.ndjson  [-seed N] [-n N]     code -> spec recording
//
// Replay output: one JSON line per input record, in input order:
//
//	{"i":<index>,"ok":true,"nt":"<nontrivial class>"}
//	{"i":<index>,"ok":false,"key":"<canonical scenario key>","what":"...","want":..,"got":..}
package hx

import (
	"bufio"
	"encoding/json"
	"flag"
	"fmt"
	"os"
	"runtime"
	"runtime/debug"
	"sort"
	"strconv"
	"sync"
	"sync/atomic"
	"time"
)

// Result is one line of replay output.
type Result struct {
	I     int         `json:"i"`
	OK    bool        `json:"ok"`
	NT    string      `json:"nt,omitempty"`
	Key   string      `json:"key,omitempty"`
	What  string      `json:"what,omitempty"`
	Want  interface{} `json:"want,omitempty"`
	Got   interface{} `json:"got,omitempty"`
	Panic string      `json:"panic,omitempty"`
	Extra interface{} `json:"extra,omitempty"`
	Skip  bool        `json:"skip,omitempty"`
}

// Args are the parsed common flags.
type Args struct {
	In   string
	Out  string
	Seed int64
	N    int
	Par  int
	Mode string
	Rest []string
}

type command struct {
	name, help string
	run        func(a *Args) error
}

var commands = map[string]*command{}

// Register adds a sub-command.
func Register(name, help string, run func(a *Args) error) {
	commands[name] = &command{name, help, run}
}

// Main dispatches os.Args to a registered command.
func Main() {
	if len(os.Args) < 2 || commands[os.Args[1]] == nil {
		fmt.Fprintln(os.Stderr, "usage: <bin> <cmd> [flags]; commands:")
		var names []string
		for n := range commands {
			names = append(names, n)
		}
		sort.Strings(names)
		for _, n := range names {
			fmt.Fprintf(os.Stderr, "  %-22s %s\n", n, commands[n].help)
		}
		os.Exit(3)
	}
	c := commands[os.Args[1]]
	a := &Args{}
	fs := flag.NewFlagSet(c.name, flag.ExitOnError)
	fs.StringVar(&a.In, "in", "", "input NDJSON records")
	fs.StringVar(&a.Out, "out", "", "output NDJSON trace")
	fs.Int64Var(&a.Seed, "seed", 1, "seed")
	fs.IntVar(&a.N, "n", 1000, "number of cases for recorders")
	fs.IntVar(&a.Par, "par", runtime.NumCPU(), "parallelism")
	fs.StringVar(&a.Mode, "mode", "", "command specific mode")
	_ = fs.Parse(os.Args[2:])
	a.Rest = fs.Args()
	if err := c.run(a); err != nil {
		fmt.Fprintln(os.Stderr, "harness:", err)
		os.Exit(3)
	}
}

// ReadRecords reads NDJSON lines as raw messages.
func ReadRecords(path string) ([]json.RawMessage, error) {
	f, err := os.Open(path)
	if err != nil {
		return nil, err
	}
	defer f.Close()
	var out []json.RawMessage
	sc := bufio.NewScanner(f)
	sc.Buffer(make([]byte, 1<<20), 1<<28)
	for sc.Scan() {
		b := sc.Bytes()
		if len(b) == 0 {
			continue
		}
		out = append(out, append(json.RawMessage(nil), b...))
	}
	return out, sc.Err()
}

// ReplayAll runs fn over all records of a.In in parallel (each under recover) and prints the results in order.
// With a.Par == 1 records are processed sequentially (needed by stateful / timing sensitive harnesses).
func ReplayAll(a *Args, fn func(i int, raw json.RawMessage) Result) error {
	recs, err := ReadRecords(a.In)
	if err != nil {
		return err
	}
	res := make([]Result, len(recs))
	var wg sync.WaitGroup
	par := a.Par
	if par < 1 {
		par = 1
	}
	sem := make(chan struct{}, par)
	// A record that produces no result within the deadline is a failing result of its own ("never deadlocks",
	// C19; a runaway loop on remote input, C18): the goroutine is abandoned and the run goes on.  After a few such
	// records the rest is skipped (marked, not judged) so that a systematic hang cannot outlast the run.
	deadline := 120 * time.Second
	if v, err := strconv.Atoi(os.Getenv("VERIF_RECORD_TIMEOUT")); err == nil && v > 0 {
		deadline = time.Duration(v) * time.Second
	}
	// A single record re-executed in a process of its own is told the position it had in the batch
	// (VERIF_INDEX_BASE), so that a harness that derives choices from (seed, position) repeats them.
	base := 0
	if v, err := strconv.Atoi(os.Getenv("VERIF_INDEX_BASE")); err == nil {
		base = v
	}
	var hung int32
	for i := range recs {
		wg.Add(1)
		sem <- struct{}{}
		go func(i int) {
			defer wg.Done()
			defer func() { <-sem }()
			if atomic.LoadInt32(&hung) >= 3 {
				res[i] = Result{I: i, OK: true, Skip: true, What: "not run: earlier records hung"}
				return
			}
			done := make(chan Result, 1)
			started := time.Now()
			go func() { done <- Safely(i, func() Result { return fn(i+base, recs[i]) }) }()
			select {
			case r := <-done:
				res[i] = r
				if !r.OK && time.Since(started) > 30*time.Second {
					// a harness-level "no progress" verdict is as slow as a hang: count it the same way
					atomic.AddInt32(&hung, 1)
				}
			case <-time.After(deadline):
				atomic.AddInt32(&hung, 1)
				res[i] = Result{I: i, OK: false, Key: "hang", What: fmt.Sprintf("no result within %s: deadlock, livelock or runaway computation", deadline)}
			}
		}(i)
	}
	wg.Wait()
	w := bufio.NewWriterSize(os.Stdout, 1<<20)
	defer w.Flush()
	enc := json.NewEncoder(w)
	for i := range res {
		res[i].I = i
		if err := enc.Encode(&res[i]); err != nil {
			return err
		}
	}
	return nil
}

// Safely converts a panic in fn into a failing Result (a panic is never an accepted outcome: C18).
func Safely(i int, fn func() Result) (r Result) {
	defer func() {
		if p := recover(); p != nil {
			st := string(debug.Stack())
			if len(st) > 2400 {
				st = st[:2400]
			}
			r = Result{I: i, OK: false, Key: "panic", Panic: fmt.Sprint(p), What: "panic: " + fmt.Sprint(p) + "\n" + st}
		}
	}()
	return fn()
}

// TraceWriter writes NDJSON trace lines.
type TraceWriter struct {
	f  *os.File
	w  *bufio.Writer
	N  int
	mu sync.Mutex
}

// NewTraceWriter creates path.
func NewTraceWriter(path string) (*TraceWriter, error) {
	f, err := os.Create(path)
	if err != nil {
		return nil, err
	}
	return &TraceWriter{f: f, w: bufio.NewWriterSize(f, 1<<20)}, nil
}

// Emit writes one JSON line.
func (t *TraceWriter) Emit(v interface{}) {
	b, err := json.Marshal(v)
	if err != nil {
		panic(err)
	}
	t.mu.Lock()
	t.w.Write(b)
	t.w.WriteByte('\n')
	t.N++
	t.mu.Unlock()
}

// Close flushes and closes.
func (t *TraceWriter) Close() error {
	if err := t.w.Flush(); err != nil {
		return err
	}
	return t.f.Close()
}
