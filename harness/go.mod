module verifharness

go 1.23.0

require (
	github.com/matrix-org/gomatrixserverlib v0.0.0
	gopkg.in/macaroon.v2 v2.1.0
)

require golang.org/x/crypto v0.38.0 // indirect

replace github.com/matrix-org/gomatrixserverlib => /repo
