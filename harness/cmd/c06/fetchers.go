package main

// The library's own key fetchers (DirectKeyFetcher, PerspectiveKeyFetcher) over a scripted federation client: the
// servers whose keys the scenario places "direct" / "persp" answer key queries with really signed key responses
// (current keys in verify_keys, retired keys in old_verify_keys with their expired_ts), the way remote servers do.

import (
	"context"
	"crypto/ed25519"
	"encoding/json"
	"fmt"
	"sort"

	gmsl "github.com/matrix-org/gomatrixserverlib"
	"github.com/matrix-org/gomatrixserverlib/spec"
)

type oldKey struct {
	pub     ed25519.PublicKey
	expired int64
}

// keyResp is what a server says about its own keys.
type keyResp struct {
	validUntil int64
	current    map[gmsl.KeyID]ed25519.PublicKey
	old        map[gmsl.KeyID]oldKey
}

const notaryName = "notary.example.org"
const notaryKeyID = gmsl.KeyID("ed25519:n1")

var notaryKey = keyFromTag("notary/n1")

// respFor registers a key of `server` in its key response.
func (w *world) respFor(server string, id gmsl.KeyID, p ed25519.PublicKey, validUntil, expired int64) {
	if w.resp == nil {
		w.resp = map[string]*keyResp{}
	}
	kr := w.resp[server]
	if kr == nil {
		kr = &keyResp{current: map[gmsl.KeyID]ed25519.PublicKey{}, old: map[gmsl.KeyID]oldKey{}}
		w.resp[server] = kr
	}
	if expired != 0 {
		kr.old[id] = oldKey{p, expired}
		return
	}
	kr.current[id] = p
	kr.validUntil = validUntil
}

// buildResp writes and signs the key response of a server.
func (w *world) buildResp(server string, kr *keyResp, viaNotary bool) gmsl.ServerKeys {
	type signing struct {
		id   gmsl.KeyID
		priv ed25519.PrivateKey
	}
	var signers []signing
	verify := map[string]interface{}{}
	ids := make([]string, 0, len(kr.current))
	for id := range kr.current {
		ids = append(ids, string(id))
	}
	sort.Strings(ids)
	for _, id := range ids {
		p := kr.current[gmsl.KeyID(id)]
		priv, ok := w.privs[string(p)]
		if !ok {
			panic("harness: no private key known for " + server + " " + id)
		}
		verify[id] = map[string]interface{}{"key": spec.Base64Bytes(p)}
		signers = append(signers, signing{gmsl.KeyID(id), priv})
	}
	vu := kr.validUntil
	if len(signers) == 0 {
		// a server that only has retired keys to show still signs with its present one
		cur := keyFromTag(server + "/present")
		verify["ed25519:present"] = map[string]interface{}{"key": spec.Base64Bytes(pub(cur))}
		signers = append(signers, signing{"ed25519:present", cur})
		vu = w.now + day
	}
	old := map[string]interface{}{}
	for id, k := range kr.old {
		old[string(id)] = map[string]interface{}{"key": spec.Base64Bytes(k.pub), "expired_ts": k.expired}
	}
	body := map[string]interface{}{"server_name": server, "valid_until_ts": vu, "verify_keys": verify, "old_verify_keys": old}
	msg, err := json.Marshal(body)
	if err != nil {
		panic(err)
	}
	for _, sg := range signers {
		if msg, err = gmsl.SignJSON(server, sg.id, sg.priv, msg); err != nil {
			panic(err)
		}
	}
	if viaNotary {
		if msg, err = gmsl.SignJSON(notaryName, notaryKeyID, notaryKey, msg); err != nil {
			panic(err)
		}
	}
	var sk gmsl.ServerKeys
	if err = json.Unmarshal(msg, &sk); err != nil {
		panic(err)
	}
	return sk
}

// forgedResp: a response that names `victim` and lists a key of the forger's, consistently self-signed under the
// victim's name with that key.
func (w *world) forgedResp(victim string, id gmsl.KeyID, forger ed25519.PrivateKey) gmsl.ServerKeys {
	body := map[string]interface{}{"server_name": victim, "valid_until_ts": w.now + day,
		"verify_keys": map[string]interface{}{string(id): map[string]interface{}{"key": spec.Base64Bytes(pub(forger))}}, "old_verify_keys": map[string]interface{}{}}
	msg, err := json.Marshal(body)
	if err != nil {
		panic(err)
	}
	if msg, err = gmsl.SignJSON(victim, id, forger, msg); err != nil {
		panic(err)
	}
	var sk gmsl.ServerKeys
	if err = json.Unmarshal(msg, &sk); err != nil {
		panic(err)
	}
	return sk
}

// scriptedClient is the federation as the fetchers see it.
type scriptedClient struct {
	w      *world
	persp  bool
	forged map[string]gmsl.ServerKeys // asked server -> what it answers instead of its own keys
}

func (c *scriptedClient) GetServerKeys(_ context.Context, s spec.ServerName) (gmsl.ServerKeys, error) {
	if f, ok := c.forged[string(s)]; ok {
		return f, nil
	}
	kr := c.w.resp[string(s)]
	if kr == nil || c.persp {
		return gmsl.ServerKeys{}, fmt.Errorf("%s does not answer", s)
	}
	return c.w.buildResp(string(s), kr, false), nil
}

func (c *scriptedClient) LookupServerKeys(_ context.Context, s spec.ServerName, reqs map[gmsl.PublicKeyLookupRequest]spec.Timestamp) ([]gmsl.ServerKeys, error) {
	if !c.persp || string(s) != notaryName {
		return nil, fmt.Errorf("%s is not a notary", s)
	}
	asked := map[string]bool{}
	for rq := range reqs {
		asked[string(rq.ServerName)] = true
	}
	names := make([]string, 0, len(asked))
	for n := range asked {
		names = append(names, n)
	}
	sort.Strings(names)
	var out []gmsl.ServerKeys
	for _, n := range names {
		if kr := c.w.resp[n]; kr != nil {
			out = append(out, c.w.buildResp(n, kr, true))
		}
	}
	return out, nil
}

// realFetchers returns the library's fetchers the scenario needs (nil if none).
func (w *world) realFetchers() []gmsl.KeyFetcher {
	kind := ""
	for _, where := range w.r.Src {
		if where == "direct" || where == "persp" {
			kind = where
		}
	}
	if kind == "" && len(w.forged) == 0 {
		return nil
	}
	client := &scriptedClient{w: w, persp: kind == "persp", forged: w.forged}
	if kind == "persp" {
		return []gmsl.KeyFetcher{&gmsl.PerspectiveKeyFetcher{PerspectiveServerName: notaryName,
			PerspectiveServerKeys: map[gmsl.KeyID]ed25519.PublicKey{notaryKeyID: pub(notaryKey)}, Client: client}}
	}
	return []gmsl.KeyFetcher{&gmsl.DirectKeyFetcher{Client: client, IsLocalServerName: func(spec.ServerName) bool { return false }}}
}
