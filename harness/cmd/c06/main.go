// Command c06 binds spec/EventSigs.tla to VerifyEventSignatures / VerifyAllEventSignatures of gomatrixserverlib:
// real events built with EventBuilder.Build, signed with PDU.Sign by real ed25519 keys, verified through a real
// KeyRing over an in-memory KeyDatabase whose entries encode the key-validity faults.
//
//	c06 c06 -in records.ndjson   replay EventSigs_gen.tla scenarios
package main

import (
	"encoding/json"
	"io"

	"github.com/sirupsen/logrus"
	"verifharness/hx"
)

func init() {
	logrus.SetOutput(io.Discard) // the key ring warns about keys it cannot refresh (there are no fetchers)
	hx.Register("c06", "replay EventSigs_gen.tla scenarios against VerifyEventSignatures over a real KeyRing", func(a *hx.Args) error {
		return hx.ReplayAll(a, func(i int, raw json.RawMessage) hx.Result { return replayOne(i, raw, a.Seed) })
	})
}

func main() { hx.Main() }
