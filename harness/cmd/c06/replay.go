package main

import (
	"bytes"
	"context"
	"crypto/ed25519"
	"crypto/sha256"
	"encoding/base64"
	"encoding/json"
	"fmt"
	"math"
	"sort"
	"strings"
	"sync"
	"time"

	gmsl "github.com/matrix-org/gomatrixserverlib"
	"github.com/matrix-org/gomatrixserverlib/spec"
	"verifharness/hx"
)

// rec is one scenario of EventSigs_gen.tla with the verdict the specification derives.
type rec struct {
	Ver      string            `json:"ver"`
	Kind     string            `json:"kind"`
	Via      bool              `json:"via"`
	TSrv     string            `json:"tsrv"`
	ASrv     string            `json:"asrv"`
	ESrv     string            `json:"esrv"`
	TM       string            `json:"tm"`
	Sig      map[string]string `json:"sig"`
	EType    string            `json:"etype"` // event type
	Pres     string            `json:"pres"`  // "trusted" | "received" (tampered in transit, parsed as untrusted JSON)
	KTop     []string          `json:"ktop"`  // what a signature covers (Redaction.tla): top-level keep list,
	KCon     []string          `json:"kcon"`  // kept content keys of this event,
	KTpi     []string          `json:"ktpi"`  // kept keys of content.third_party_invite,
	KKey     string            `json:"kkey"`  // the kept content key a stale_kept signature disagrees on
	Src      map[string]string `json:"src"`   // where the keys of a server are: "db" | "fetcher"
	Vol      bool              `json:"vol"`   // the fetcher volunteers fresh copies of database-held keys
	Fail     string            `json:"fail"`  // "none" | "db" | "fetcher": the key source that answers with an error
	MapSt    string            `json:"mapst"` // pseudo-ID joins: state of the mxid_mapping ("ok" | "missing" | "corrupt")
	Required []string          `json:"required"`
	Strict   bool              `json:"strict"`
	MaxTS    string            `json:"maxts"` // the largest origin_server_ts the room version admits: "2p53m1" | "2p64m1"
	BT       batchRec          `json:"bt"`    // the batch (kv "none": a single event), see batch.go
	BRes     batchRes          `json:"bres"`
	Verdict  bool              `json:"verdict"`
}

func isDomainless(ver string) bool { return ver == "12" || ver == "org.matrix.hydra.11" }
func isFormatV1(ver string) bool   { return ver == "1" || ver == "2" }
func isPseudo(ver string) bool     { return ver == "org.matrix.msc4014" }

const hour = int64(3600000)
const day = 24 * hour

func keyFromTag(tag string) ed25519.PrivateKey {
	h := sha256.Sum256([]byte("c06-key-" + tag))
	return ed25519.NewKeyFromSeed(h[:])
}

func serverName(s string) string { return s + ".example.org" }

// pseudo-ID rooms: the abstract servers s1 / s2 stand for the keys of the sender / the target user
func pseudoKey(s string) ed25519.PrivateKey { return keyFromTag("pseudo-" + s) }
func pseudoID(s string) string              { return string(spec.SenderIDFromPseudoIDKey(pseudoKey(s))) }

// world is the concrete realisation of one scenario.
type world struct {
	r      *rec
	ts     int64
	now    int64
	db     *memDB
	fetch  *memDB // the key fetcher's table (nil: the key ring has no fetcher)
	sender string
	// set when PDU.Sign and the independent signing disagree
	signMismatch string
	parseErr     error
	evJSON       []byte // the built event without signatures
	crossChecked bool
	resp         map[string]*keyResp           // key responses of the servers whose keys are fetched for real
	privs        map[string]ed25519.PrivateKey // public key -> private key (to sign the key responses)
	forged       map[string]gmsl.ServerKeys    // asked server -> forged answer
}

// signingName / key material of abstract server s in this scenario. In pseudo-ID rooms s1 and s2 (when it is the
// target user) are user keys signing under their own pseudo ID with key ID ed25519:1.
func (w *world) isUserKey(s string) bool {
	return isPseudo(w.r.Ver) && (s == "s1" || s == "s2")
}

func (w *world) nameOf(s string) string {
	if w.isUserKey(s) {
		return pseudoID(s)
	}
	return serverName(s)
}

type keyUse struct {
	id   gmsl.KeyID
	priv ed25519.PrivateKey
}

// memDB is the in-memory KeyDatabase behind the real KeyRing.
type memDB struct {
	keys      map[gmsl.PublicKeyLookupRequest]gmsl.PublicKeyLookupResult
	volunteer bool
	failing   bool // every lookup answers with an error
	// what it was asked, call by call (batches: the instant a key is asked for)
	asked []map[gmsl.PublicKeyLookupRequest]spec.Timestamp
}

func (d *memDB) FetcherName() string { return "memDB" }
func (d *memDB) FetchKeys(_ context.Context, reqs map[gmsl.PublicKeyLookupRequest]spec.Timestamp) (map[gmsl.PublicKeyLookupRequest]gmsl.PublicKeyLookupResult, error) {
	out := map[gmsl.PublicKeyLookupRequest]gmsl.PublicKeyLookupResult{}
	cp := make(map[gmsl.PublicKeyLookupRequest]spec.Timestamp, len(reqs))
	for rq, at := range reqs {
		cp[rq] = at
	}
	d.asked = append(d.asked, cp)
	if d.failing {
		return nil, fmt.Errorf("key source unavailable")
	}
	if d.volunteer {
		// as a notary or a /key/v2/server reply listing several keys may: everything it has, asked for or not
		for rq, k := range d.keys {
			out[rq] = k
		}
		return out, nil
	}
	for rq := range reqs {
		if k, ok := d.keys[rq]; ok {
			out[rq] = k
		}
	}
	return out, nil
}
func (d *memDB) StoreKeys(_ context.Context, _ map[gmsl.PublicKeyLookupRequest]gmsl.PublicKeyLookupResult) error {
	return nil
}

func (d *memDB) put(server string, id gmsl.KeyID, pub ed25519.PublicKey, validUntil, expired int64) {
	d.keys[gmsl.PublicKeyLookupRequest{ServerName: spec.ServerName(server), KeyID: id}] = gmsl.PublicKeyLookupResult{
		VerifyKey:    gmsl.VerifyKey{Key: spec.Base64Bytes(pub)},
		ValidUntilTS: spec.Timestamp(validUntil),
		ExpiredTS:    spec.Timestamp(expired),
	}
}

// putKey registers a key of abstract server s where the scenario says its keys are; with a volunteering fetcher
// every database-held key also has an unexpired copy, valid for a day from now, at the fetcher.
func (w *world) putKey(s, server string, id gmsl.KeyID, p ed25519.PublicKey, validUntil, expired int64) {
	switch w.r.Src[s] {
	case "fetcher":
		w.fetch.put(server, id, p, validUntil, expired)
		return
	case "direct", "persp":
		w.respFor(server, id, p, validUntil, expired)
		return
	}
	w.db.put(server, id, p, validUntil, expired)
	if w.r.Vol {
		w.fetch.put(server, id, p, w.now+day, 0)
	}
}

func pub(k ed25519.PrivateKey) ed25519.PublicKey { return k.Public().(ed25519.PublicKey) }

// sigEntry is one entry of the event's `signatures` object.
type sigEntry struct {
	name string
	id   gmsl.KeyID
	sig  string // base64
}

// redactedForm is the redacted form of the event as the specification defines it for the room version: the
// projection onto the keep lists Redaction.tla derives (carried by the record), NOT the library's redaction.
func (w *world) redactedForm(evJSON []byte) []byte {
	var ev map[string]json.RawMessage
	if err := json.Unmarshal(evJSON, &ev); err != nil {
		panic(err)
	}
	ktop, kcon, ktpi := setOf(w.r.KTop), setOf(w.r.KCon), setOf(w.r.KTpi)
	var content map[string]json.RawMessage
	if err := json.Unmarshal(ev["content"], &content); err != nil {
		panic(err)
	}
	red := map[string]json.RawMessage{}
	for k, v := range content {
		if !kcon[k] {
			continue
		}
		if k == "third_party_invite" && w.r.EType == "m.room.member" {
			var tpi map[string]json.RawMessage
			if err := json.Unmarshal(v, &tpi); err != nil {
				panic(err)
			}
			for nk := range tpi {
				if !ktpi[nk] {
					delete(tpi, nk)
				}
			}
			v = marshalMap(tpi)
		}
		red[k] = v
	}
	out := map[string]json.RawMessage{}
	for k, v := range ev {
		if ktop[k] && k != "signatures" {
			out[k] = v
		}
	}
	out["content"] = marshalMap(red)
	return marshalMap(out)
}

func setOf(xs []string) map[string]bool {
	m := map[string]bool{}
	for _, x := range xs {
		m[x] = true
	}
	return m
}

// signatureOf signs the specification's redacted form of the event as (name, id, priv) and returns the signature.
// With crossCheck the signature PDU.Sign makes is compared: a difference means that the library signs over
// something else than the redacted form of the specification (kept in w.signMismatch, reported after the verdict).
func (w *world) signatureOf(impl gmsl.IRoomVersion, evJSON []byte, name string, id gmsl.KeyID, priv ed25519.PrivateKey, crossCheck bool) string {
	signed, err := gmsl.SignJSON(name, id, priv, w.redactedForm(evJSON))
	if err != nil {
		panic(fmt.Sprintf("harness: SignJSON: %v", err))
	}
	var out struct {
		Signatures map[string]map[string]string `json:"signatures"`
	}
	if err := json.Unmarshal(signed, &out); err != nil {
		panic(err)
	}
	s, ok := out.Signatures[name][string(id)]
	if !ok {
		panic("harness: SignJSON did not add the signature")
	}
	if crossCheck && w.signMismatch == "" && !w.crossChecked {
		w.crossChecked = true // once per event: every signature is made over the same form
		p, err := impl.NewEventFromTrustedJSON(append([]byte(nil), evJSON...), false)
		if err != nil {
			panic(fmt.Sprintf("harness: event does not parse: %v", err))
		}
		p = p.Sign(name, id, priv)
		var lib struct {
			Signatures map[string]map[string]string `json:"signatures"`
		}
		if err := json.Unmarshal(p.JSON(), &lib); err != nil {
			panic(err)
		}
		if lib.Signatures[name][string(id)] != s {
			w.signMismatch = fmt.Sprintf("PDU.Sign(%s, %s) signs something else than the redacted form the specification defines for room version %s (%s: top-level keys %v, content keys %v)",
				name, id, w.r.Ver, w.r.EType, w.r.KTop, w.r.KCon)
		}
	}
	return s
}

func marshalMap(m map[string]json.RawMessage) json.RawMessage {
	keys := make([]string, 0, len(m))
	for k := range m {
		keys = append(keys, k)
	}
	sort.Strings(keys)
	var b bytes.Buffer
	b.WriteByte('{')
	for i, k := range keys {
		if i > 0 {
			b.WriteByte(',')
		}
		kb, _ := json.Marshal(k)
		b.Write(kb)
		b.WriteByte(':')
		b.Write(m[k])
	}
	b.WriteByte('}')
	return b.Bytes()
}

func corruptSig(s string, variant int) string {
	b, err := base64.RawStdEncoding.DecodeString(s)
	if err != nil {
		panic(err)
	}
	switch variant % 3 {
	case 0:
		b[0] ^= 1
	case 1:
		b[len(b)-1] ^= 0x80
	default:
		b[len(b)/2] ^= 0x10
	}
	return base64.RawStdEncoding.EncodeToString(b)
}

// setTop replaces a top-level key of an event JSON.
func setTop(evJSON []byte, key string, val json.RawMessage) []byte {
	var m map[string]json.RawMessage
	if err := json.Unmarshal(evJSON, &m); err != nil {
		panic(err)
	}
	if val == nil {
		delete(m, key)
	} else {
		m[key] = val
	}
	keys := make([]string, 0, len(m))
	for k := range m {
		keys = append(keys, k)
	}
	sort.Strings(keys)
	var b bytes.Buffer
	b.WriteByte('{')
	for i, k := range keys {
		if i > 0 {
			b.WriteByte(',')
		}
		kb, _ := json.Marshal(k)
		b.Write(kb)
		b.WriteByte(':')
		b.Write(m[k])
	}
	b.WriteByte('}')
	return b.Bytes()
}

// signaturesFor realises the signature state of abstract server s on the event and registers the keys the
// verifier is to know. idx varies the shape of corruptions.
func (w *world) signaturesFor(impl gmsl.IRoomVersion, evJSON []byte, s, state string, idx int) []sigEntry {
	name := w.nameOf(s)
	k1 := keyFromTag(s + "/k1")
	k2 := keyFromTag(s + "/k2")
	id1, id2 := gmsl.KeyID("ed25519:k1"), gmsl.KeyID("ed25519:k2")
	userKey := w.isUserKey(s)
	if userKey {
		// self-verification: the key is the name, the key ID is fixed by the MSC
		k1 = pseudoKey(s)
		id1, id2 = "ed25519:1", "ed25519:2"
	}
	if w.privs == nil {
		w.privs = map[string]ed25519.PrivateKey{}
	}
	w.privs[string(pub(k1))], w.privs[string(pub(k2))] = k1, k2
	// validity of the server's current key: comfortably around origin_server_ts
	vu := w.ts + hour
	if !inThePast(w.r.TM) {
		vu = w.now + 30*day
	}
	current := func(id gmsl.KeyID, k ed25519.PrivateKey) {
		if !userKey {
			w.putKey(s, name, id, pub(k), vu, 0)
		}
	}
	good := func(id gmsl.KeyID, k ed25519.PrivateKey) sigEntry {
		return sigEntry{name, id, w.signatureOf(impl, evJSON, name, id, k, true)}
	}
	switch state {
	case "absent":
		current(id1, k1) // the verifier knows the server; the event just is not signed by it
		return nil
	case "ok":
		current(id1, k1)
		return []sigEntry{good(id1, k1)}
	case "vu_eq":
		w.putKey(s, name, id1, pub(k1), w.ts, 0)
		return []sigEntry{good(id1, k1)}
	case "after_vu":
		w.putKey(s, name, id1, pub(k1), w.ts-hour, 0)
		return []sigEntry{good(id1, k1)}
	case "expired":
		w.putKey(s, name, id1, pub(k1), 0, w.ts-hour)
		return []sigEntry{good(id1, k1)}
	case "exp_later":
		w.putKey(s, name, id1, pub(k1), 0, w.ts+hour)
		return []sigEntry{good(id1, k1)}
	case "exp_eq": // data against data: exactly at the boundary
		w.putKey(s, name, id1, pub(k1), 0, w.ts)
		return []sigEntry{good(id1, k1)}
	case "exp_next":
		w.putKey(s, name, id1, pub(k1), 0, w.ts+1)
		return []sigEntry{good(id1, k1)}
	case "vu_m1":
		w.putKey(s, name, id1, pub(k1), w.ts-1, 0)
		return []sigEntry{good(id1, k1)}
	case "malformed", "mal_good":
		current(id1, k1)
		bad := sigEntry{name, id1, []string{"not base64 !!", "c2hvcnQ", "", strings.Repeat("A", 90)}[idx%4]}
		if state == "malformed" {
			return []sigEntry{bad}
		}
		if userKey {
			bad.id = id2
			return []sigEntry{bad, good(id1, k1)}
		}
		current(id2, k2)
		return []sigEntry{bad, good(id2, k2)}
	case "corrupt":
		current(id1, k1)
		e := good(id1, k1)
		e.sig = corruptSig(e.sig, idx)
		return []sigEntry{e}
	case "stale":
		// a genuine signature of this key over the event as it was before its depth was changed
		current(id1, k1)
		other := setTop(evJSON, "depth", json.RawMessage("3"))
		return []sigEntry{{name, id1, w.signatureOf(impl, other, name, id1, k1, false)}}
	case "stale_kept":
		// a genuine signature of this key that does not cover the event's value of a content key the room
		// version's redaction keeps for this event type
		current(id1, k1)
		var ev map[string]json.RawMessage
		var content map[string]json.RawMessage
		if json.Unmarshal(evJSON, &ev) != nil || json.Unmarshal(ev["content"], &content) != nil || content[w.r.KKey] == nil {
			panic("harness: the event lacks the kept content key " + w.r.KKey)
		}
		content[w.r.KKey] = json.RawMessage(`"zz-something-else"`)
		return []sigEntry{{name, id1, w.signatureOf(impl, setTop(evJSON, "content", marshalMap(content)), name, id1, k1, false)}}
	case "wrongkey":
		current(id1, k1)
		return []sigEntry{good(id1, keyFromTag(s+"/intruder"))}
	case "vouched":
		// the server has its ordinary key; the event carries a signature under its name made by another party
		// under a key ID of that party's choosing, and another required server's key response vouches for it
		current(id1, k1)
		forger := keyFromTag(s + "/forger")
		var accomplice string
		var req []string // the other servers that sign
		for t, st := range w.r.Sig {
			if st != "absent" {
				req = append(req, t)
			}
		}
		sort.Strings(req)
		for _, t := range req {
			if t != s && (accomplice == "" || (w.r.Src[accomplice] != "db" && w.r.Src[t] == "db")) {
				accomplice = t
			}
		}
		if accomplice == "" {
			// the other required servers carry no signature: their keys are never asked for, whoever vouches
			others := append([]string{}, w.r.Required...)
			sort.Strings(others)
			for _, t := range others {
				if t != s && accomplice == "" {
					accomplice = t
				}
			}
		}
		if accomplice == "" {
			// no other required server exists (e.g. the received form of a v8 restricted join, where redaction
			// dropped the authorising server): nobody vouches, the key stays unknown to everybody - a fault all the same
			return []sigEntry{good("ed25519:kx", forger)}
		}
		if w.forged == nil {
			w.forged = map[string]gmsl.ServerKeys{}
		}
		w.forged[w.nameOf(accomplice)] = w.forgedResp(name, "ed25519:kx", forger)
		return []sigEntry{good("ed25519:kx", forger)}
	case "unknownkey":
		current(id1, k1)
		return []sigEntry{good("ed25519:k9", keyFromTag(s+"/k9"))}
	case "two_onebad":
		current(id1, k1)
		bad := good(id1, k1)
		bad.sig = corruptSig(bad.sig, idx)
		if userKey {
			// the good one must be the self-verifiable one: corrupt the other key's
			bad = sigEntry{name, id2, corruptSig(w.signatureOf(impl, evJSON, name, id2, k2, false), idx)}
			return []sigEntry{bad, good(id1, k1)}
		}
		current(id2, k2)
		return []sigEntry{bad, good(id2, k2)}
	}
	panic("harness: unknown signature state " + state)
}

func q(s string) string { b, _ := json.Marshal(s); return string(b) }

// buildEvent builds the unsigned-by-anyone event of the scenario with EventBuilder.Build.
func (w *world) buildEvent(impl gmsl.IRoomVersion) []byte {
	r := w.r
	user := func(local, s string) string {
		if isPseudo(r.Ver) {
			return pseudoID(s)
		}
		return "@" + local + ":" + serverName(s)
	}
	w.sender = user("alice", "s1")
	pe := gmsl.ProtoEvent{SenderID: w.sender, Depth: 7, PrevEvents: []string{}, AuthEvents: []string{}}
	if isDomainless(r.Ver) {
		pe.RoomID = "!" + base64.RawURLEncoding.EncodeToString(func() []byte { h := sha256.Sum256([]byte("c06-room")); return h[:] }())
	} else {
		pe.RoomID = "!room:" + serverName("s1")
	}
	if r.Kind == "nonmember" {
		empty := ""
		pe.Type = r.EType
		switch r.EType {
		case "m.room.message":
			pe.Content = spec.RawJSON(`{"body":"hello","msgtype":"m.text"}`)
		case "m.room.aliases":
			sk := serverName("s1")
			pe.StateKey = &sk
			pe.Content = spec.RawJSON(`{"aliases":["#a:` + sk + `"],"foo":"bar"}`)
		case "m.room.create":
			pe.StateKey = &empty
			pe.Content = spec.RawJSON(`{"creator":` + q(w.sender) + `,"room_version":` + q(r.Ver) + `,"m.federate":true}`)
			if isDomainless(r.Ver) {
				pe.RoomID = "" // the create event of these versions has no room_id
			}
		case "m.room.join_rules":
			pe.StateKey = &empty
			pe.Content = spec.RawJSON(`{"join_rule":"restricted","allow":[{"type":"m.room_membership","room_id":"!other:` + serverName("s1") + `"}],"foo":1}`)
		case "m.room.power_levels":
			pe.StateKey = &empty
			pe.Content = spec.RawJSON(`{"ban":50,"users":{` + q("@alice:"+serverName("s1")) + `:100},"invite":50,"notifications":{"room":50}}`)
		case "m.room.history_visibility":
			pe.StateKey = &empty
			pe.Content = spec.RawJSON(`{"history_visibility":"shared","foo":"bar"}`)
		case "m.room.redaction":
			pe.Redacts = "$redacted:" + serverName("s1")
			if !isFormatV1(r.Ver) {
				pe.Redacts = "$" + base64.RawURLEncoding.EncodeToString(make([]byte, 32))
			}
			pe.Content = spec.RawJSON(`{"redacts":` + q(pe.Redacts) + `,"reason":"spam"}`)
		case "org.example.member":
			sk := user("bob", "s2")
			pe.StateKey = &sk
			pe.Content = spec.RawJSON(`{"membership":"invite","join_authorised_via_users_server":` + q("@carol:"+serverName("s3")) + `,"body":"not a membership event"}`)
		default:
			panic("harness: unknown event type " + r.EType)
		}
	} else {
		pe.Type = spec.MRoomMember
		target := w.sender
		if r.TSrv != "s1" || r.Kind == "invite" || r.Kind == "ban" {
			target = user("bob", r.TSrv)
		}
		pe.StateKey = &target
		content := map[string]json.RawMessage{"membership": json.RawMessage(q(r.Kind)), "displayname": json.RawMessage(`"Bob <b>"`)}
		if r.Kind == "invite" {
			content["third_party_invite"] = json.RawMessage(`{"display_name":"b...@example.org","signed":{"mxid":` + q(target) +
				`,"token":"tok","signatures":{"id.example.org":{"ed25519:0":"c2lnbmF0dXJl"}}}}`)
		}
		if r.Via {
			content["join_authorised_via_users_server"] = json.RawMessage(q("@carol:" + serverName(r.ASrv)))
		}
		if isPseudo(r.Ver) && r.Kind == "join" {
			// precondition of joins in pseudo-ID rooms (not modelled): a mapping signed by the user's homeserver
			hs := serverName("s3")
			hk := keyFromTag("s3/k1")
			m := gmsl.MXIDMapping{UserRoomKey: spec.SenderID(w.sender), UserID: "@alice:" + hs}
			if err := m.Sign(spec.ServerName(hs), "ed25519:k1", hk); err != nil {
				panic(err)
			}
			w.db.put(hs, "ed25519:k1", pub(hk), w.ts+hour, 0)
			if r.MapSt == "corrupt" {
				m.Signatures[spec.ServerName(hs)]["ed25519:k1"][0] ^= 1
			}
			mb, _ := json.Marshal(m)
			if r.MapSt != "missing" {
				content["mxid_mapping"] = mb
			}
		}
		cb, _ := json.Marshal(content)
		pe.Content = spec.RawJSON(cb)
	}
	// room versions 1-2: the event ID names the origin given to Build
	origin := serverName(r.ESrv)
	ev, err := impl.NewEventBuilderFromProtoEvent(&pe).Build(time.UnixMilli(w.ts), spec.ServerName(origin), "ed25519:build", keyFromTag("build"))
	if err != nil {
		panic(fmt.Sprintf("harness: EventBuilder.Build: %v", err))
	}
	if isFormatV1(r.Ver) && !strings.HasSuffix(ev.EventID(), ":"+origin) {
		panic("harness: event ID " + ev.EventID() + " does not name " + origin)
	}
	return setTop(ev.JSON(), "signatures", nil) // signatures are put on below, one server at a time
}

func (w *world) compose(impl gmsl.IRoomVersion, idx int) gmsl.PDU {
	w.evJSON = w.buildEvent(impl)
	return w.present(impl, w.r.Sig, idx)
}

// present puts the signatures of the given states on the built event and presents it to the verifier.
func (w *world) present(impl gmsl.IRoomVersion, states map[string]string, idx int) gmsl.PDU {
	evJSON := w.evJSON
	sigs := map[string]map[string]string{}
	servers := make([]string, 0, len(states))
	for s := range states {
		servers = append(servers, s)
	}
	sort.Strings(servers)
	for _, s := range servers {
		for _, e := range w.signaturesFor(impl, evJSON, s, states[s], idx) {
			if sigs[e.name] == nil {
				sigs[e.name] = map[string]string{}
			}
			sigs[e.name][string(e.id)] = e.sig
		}
	}
	final := evJSON
	if len(sigs) > 0 {
		sb, _ := json.Marshal(sigs)
		final = setTop(evJSON, "signatures", sb)
	}
	if w.r.Pres == "received" {
		// over federation, with a top-level key added in transit: the content hash fails, the receiver gets the
		// redacted form, whose signatures are exactly as valid as the original's
		p, err := impl.NewEventFromUntrustedJSON(setTop(final, "zz_added_in_transit", json.RawMessage(`{"by":"a relay"}`)))
		if err != nil {
			w.parseErr = err
			return nil
		}
		return p
	}
	p, err := impl.NewEventFromTrustedJSON(final, false)
	if err != nil {
		panic(fmt.Sprintf("harness: composed event does not parse: %v", err))
	}
	return p
}

func p2ts(p gmsl.PDU) spec.Timestamp {
	if p == nil {
		return 0
	}
	return p.OriginServerTS()
}

func userIDForSender(_ spec.RoomID, senderID spec.SenderID) (*spec.UserID, error) {
	return spec.NewUserID(string(senderID), true)
}

func newWorld(r *rec, seed int64) *world {
	w := &world{r: r, db: &memDB{keys: map[gmsl.PublicKeyLookupRequest]gmsl.PublicKeyLookupResult{}}}
	w.db.failing = r.Fail == "db"
	for _, where := range r.Src {
		if where == "fetcher" || r.Vol {
			w.fetch = &memDB{keys: map[gmsl.PublicKeyLookupRequest]gmsl.PublicKeyLookupResult{}, volunteer: r.Vol}
		}
	}
	w.now = time.Now().UnixMilli()
	switch r.TM {
	case "future6d":
		w.ts = w.now + 6*day
	case "future8d":
		w.ts = w.now + 8*day
	default:
		w.ts = instantValue(r.TM, r.MaxTS, seed)
	}
	return w
}

// instantValue realises an instant of EventSigs.tla as a count of milliseconds. Timestamps are unsigned 64-bit
// counts in the library; the harness carries them as the int64 with the same bits (arithmetic wraps the same way,
// time.UnixMilli / spec.AsTimestamp round-trip every value).
func instantValue(t, maxts string, seed int64) int64 {
	switch t {
	case "normal":
		return 1700000000000 + seed*1000 // well in the verifier's past
	case "at0":
		return 0
	case "at1":
		return 1
	case "atwrap":
		return math.MinInt64 // 2^63
	case "atmax":
		switch maxts {
		case "2p53m1":
			return 1<<53 - 1
		case "2p63m1":
			return math.MaxInt64 // 2^63 - 1
		case "2p64m1":
			return -1 // 2^64 - 1
		}
		panic("harness: unknown largest timestamp " + maxts)
	}
	panic("harness: unknown time mode " + t)
}

func isInstant(tm string) bool { return tm == "at0" || tm == "at1" || tm == "atwrap" || tm == "atmax" }

// instantClass: at the ends of the time line the scenario is the instant, the validity rule and what the one
// server that is not plainly "ok" carries - whatever the event is and wherever the keys are.
func instantClass(r *rec) string {
	strict := "lax"
	if r.Strict {
		strict = "strict"
	}
	if isPseudo(r.Ver) {
		strict = "pseudo"
	}
	state, absent := "all-ok", 0
	for _, s := range r.Required {
		if r.Sig[s] == "absent" {
			absent++
		}
		if r.Sig[s] != "ok" {
			state = r.Sig[s]
		}
	}
	if absent > 1 && absent == len(r.Required) {
		state = "all-absent"
	}
	return fmt.Sprintf("%s/time=%s/%s", strict, timeLabel(r), state)
}

func keyClass(r *rec, cls string) string {
	if isInstant(r.TM) {
		return "instant/" + instantClass(r)
	}
	return cls
}

func inThePast(tm string) bool { return tm == "normal" || tm == "at0" || tm == "at1" }

// instantLabel names an instant by its magnitude (keys and classes: what matters about the ends of the time line).
func instantLabel(t, maxts string) string {
	switch t {
	case "at0":
		return "0"
	case "at1":
		return "1"
	case "atwrap":
		return "2p63"
	case "atmax":
		return maxts
	}
	return t
}

func timeLabel(r *rec) string { return instantLabel(r.TM, r.MaxTS) }

func class(r *rec) string {
	// the scenario without version numbers: kind, coincidences, the states of the required servers
	req := append([]string{}, r.Required...)
	sort.Strings(req)
	var st []string
	for _, s := range req {
		role := []string{}
		if s == "s1" {
			role = append(role, "sender")
		}
		if s == r.ESrv && len(r.ESrv) > 0 && (r.Ver == "1" || r.Ver == "2") {
			role = append(role, "event-id")
		}
		if r.Kind == "invite" && s == r.TSrv {
			role = append(role, "invited")
		}
		if r.Kind == "join" && r.Via && s == r.ASrv {
			role = append(role, "authoriser")
		}
		st = append(st, strings.Join(role, "+")+"="+r.Sig[s])
	}
	other := "absent"
	for s, v := range r.Sig {
		found := false
		for _, x := range req {
			found = found || x == s
		}
		if !found {
			other = v
		}
	}
	via := ""
	if r.Via {
		via = "+via"
	}
	strict := "lax"
	if r.Strict {
		strict = "strict"
	}
	if isPseudo(r.Ver) {
		strict = "pseudo"
	}
	_ = other
	keys := ""
	var fromFetcher []string
	kindOfFetcher := ""
	for _, s := range req {
		if r.Src[s] != "db" && r.Src[s] != "" {
			fromFetcher = append(fromFetcher, s)
			if r.Src[s] != "fetcher" {
				kindOfFetcher = "(" + r.Src[s] + ")"
			}
		}
	}
	if len(fromFetcher) > 0 || r.Vol {
		keys = fmt.Sprintf("/keys-at-fetcher%s=%d-of-%d", kindOfFetcher, len(fromFetcher), len(req))
		if r.Vol {
			keys += "+volunteering"
		}
	}
	kind := r.Kind
	if kind == "nonmember" {
		kind = r.EType
	}
	if r.Pres == "received" {
		keys += "/received-redacted"
	}
	if other == "malformed" {
		keys += "/others=malformed"
	}
	if r.Fail != "" && r.Fail != "none" {
		keys += "/failing=" + r.Fail
	}
	if r.MapSt != "" && r.MapSt != "ok" {
		keys += "/mxid_mapping=" + r.MapSt
	}
	return fmt.Sprintf("%s%s/%s/%s/time=%s%s", kind, via, strings.Join(st, ","), strict, timeLabel(r), keys)
}

// others is the state of the servers that are not required.
func others(r *rec) string {
	req := map[string]bool{}
	for _, s := range r.Required {
		req[s] = true
	}
	for s, v := range r.Sig {
		if !req[s] {
			return v
		}
	}
	return "absent"
}

func replayOne(i int, raw json.RawMessage, seed int64) hx.Result {
	var r rec
	if err := json.Unmarshal(raw, &r); err != nil {
		panic(fmt.Sprintf("harness: bad record: %v", err))
	}
	impl, err := gmsl.GetRoomVersion(gmsl.RoomVersion(r.Ver))
	if err != nil {
		return hx.Result{OK: false, Key: "C06/version/unregistered", What: "room version " + r.Ver + " is not registered"}
	}
	if r.BT.KV != "" && r.BT.KV != "none" {
		return replayBatch(i, &r, impl, seed)
	}
	cls := class(&r)
	w := newWorld(&r, seed)
	p := w.compose(impl, i)
	if got := uint64(p2ts(p)); p != nil && got != uint64(w.ts) {
		panic(fmt.Sprintf("harness: origin_server_ts is %d, wanted %d", got, uint64(w.ts)))
	}
	ring := gmsl.KeyRing{KeyDatabase: w.db}
	if w.fetch != nil {
		ring.KeyFetchers = []gmsl.KeyFetcher{w.fetch}
	}
	ring.KeyFetchers = append(ring.KeyFetchers, w.realFetchers()...)
	ctx := context.Background()
	if p == nil {
		return hx.Result{OK: false, NT: cls, Key: "C06/received/parse-error/" + cls,
			What: fmt.Sprintf("NewEventFromUntrustedJSON refuses the event with a key added in transit (room version %s): %v", r.Ver, w.parseErr)}
	}
	if r.Pres == "received" && !p.Redacted() {
		return hx.Result{OK: false, NT: cls, Key: "C06/received/not-redacted", What: "the event with a key added in transit did not come back redacted (C04's subject)"}
	}
	if w.fetch != nil {
		w.fetch.failing = r.Fail == "fetcher"
	}
	errOne := gmsl.VerifyEventSignatures(ctx, p, ring, userIDForSender)
	if (errOne == nil) != r.Verdict {
		key := fmt.Sprintf("C06/verify/%s:model=%v", cls, r.Verdict)
		if isInstant(r.TM) {
			key = fmt.Sprintf("C06/instant/%s:model=%v", instantClass(&r), r.Verdict)
		}
		return hx.Result{OK: false, NT: cls, Key: key,
			What: fmt.Sprintf("VerifyEventSignatures (room version %s, %s, required servers %v, signature states %v, keys at %v, fetcher volunteers=%v, time %s, origin_server_ts %d): the specification says valid=%v, the library returned %v",
				r.Ver, r.Kind, r.Required, r.Sig, r.Src, r.Vol, r.TM, uint64(w.ts), r.Verdict, errOne),
			Want: r.Verdict, Got: fmt.Sprint(errOne), Extra: string(p.JSON())}
	}
	// the batch form (the same event object a second time): between an event that verifies and one that does not
	good, bad := w.controls(impl)
	errs := gmsl.VerifyAllEventSignatures(ctx, []gmsl.PDU{good, p, bad}, ring, userIDForSender)
	if len(errs) != 3 {
		return hx.Result{OK: false, NT: cls, Key: "C06/verify-all/length", What: fmt.Sprintf("VerifyAllEventSignatures returned %d results for 3 events", len(errs))}
	}
	wantGood := r.Fail != "db" || isPseudo(r.Ver)
	if (errs[0] == nil) != wantGood || errs[2] == nil || (errs[1] == nil) != r.Verdict {
		return hx.Result{OK: false, NT: cls, Key: fmt.Sprintf("C06/verify-all/%s:model=%v", keyClass(&r, cls), r.Verdict),
			What: fmt.Sprintf("VerifyAllEventSignatures over [valid, scenario, unsigned] (room version %s): want [nil, valid=%v, error], got %v", r.Ver, r.Verdict, errs),
			Want: r.Verdict, Got: fmt.Sprint(errs)}
	}
	if res := w.twins(impl, ring, p, cls, i); res != nil {
		return *res
	}
	if w.signMismatch != "" {
		return hx.Result{OK: false, NT: cls, Key: "C06/signed-form/" + r.EType, What: w.signMismatch}
	}
	return hx.Result{OK: true, NT: cls + "/others=" + others(&r)}
}

// twins: a batch holding the scenario's event and a second event with the SAME event ID (the same event, other
// signatures) whose signatures have the opposite validity, in both orders: every position gets its own verdict.
func (w *world) twins(impl gmsl.IRoomVersion, ring gmsl.KeyRing, p gmsl.PDU, cls string, idx int) *hx.Result {
	r := w.r
	if !inThePast(r.TM) || (r.Fail != "" && r.Fail != "none") || (r.MapSt != "" && r.MapSt != "ok") || others(r) != "absent" {
		return nil
	}
	for _, st := range r.Sig {
		if st == "vouched" {
			return nil // the accomplice's forged key response stays in place: its own keys may be out of reach
		}
	}
	states := map[string]string{}
	if r.Verdict {
		for s, st := range r.Sig { // nobody's signature verifies
			states[s] = "absent"
			if st != "absent" {
				states[s] = "corrupt"
			}
		}
	} else {
		req := map[string]bool{}
		for _, s := range r.Required {
			req[s] = true
		}
		for s, st := range r.Sig { // every required server signs well; possible where the keys are as usual
			states[s] = st
			if req[s] {
				switch st {
				case "ok", "two_onebad", "mal_good":
				case "absent", "corrupt", "stale", "stale_kept", "wrongkey", "unknownkey", "malformed":
					states[s] = "ok"
				default:
					return nil // the scenario's key entries of this server make no signature of it verify
				}
			}
		}
	}
	keep := w.signMismatch
	twin := w.present(impl, states, idx+1)
	w.signMismatch = keep
	if twin == nil {
		return nil
	}
	idP, idT := p.EventID(), twin.EventID()
	if idP != idT {
		panic("harness: the twin event has another event ID: " + idP + " vs " + idT)
	}
	ctx := context.Background()
	for _, order := range [][]gmsl.PDU{{p, twin}, {twin, p}} {
		errs := gmsl.VerifyAllEventSignatures(ctx, order, ring, userIDForSender)
		if len(errs) != len(order) {
			return &hx.Result{OK: false, NT: cls, Key: "C06/verify-all/length", What: fmt.Sprintf("VerifyAllEventSignatures returned %d results for %d events", len(errs), len(order))}
		}
		for n, e := range order {
			want := r.Verdict
			if e == twin {
				want = !r.Verdict
			}
			if (errs[n] == nil) != want {
				return &hx.Result{OK: false, NT: cls, Key: fmt.Sprintf("C06/verify-all/same-id/%s:model=%v", keyClass(r, cls), r.Verdict),
					What: fmt.Sprintf("VerifyAllEventSignatures on a batch holding the event twice under one event ID %s, once validly signed and once not (room version %s): position %d of %d must be valid=%v, got %v (all: %v)",
						idP, r.Ver, n+1, len(order), want, errs[n], errs)}
			}
		}
	}
	return nil
}

// controls builds a plain message event signed by its sender's server (verifies) and the same without signatures.
func (w *world) controls(impl gmsl.IRoomVersion) (gmsl.PDU, gmsl.PDU) {
	name, id, k := serverName("s5"), gmsl.KeyID("ed25519:k1"), keyFromTag("s5/k1")
	sender := "@erin:" + name
	if isPseudo(w.r.Ver) {
		k = pseudoKey("s5")
		name, id, sender = pseudoID("s5"), "ed25519:1", pseudoID("s5")
	} else {
		w.db.put(name, id, pub(k), 1700000000000+hour, 0)
	}
	room := "!room:" + serverName("s1")
	if isDomainless(w.r.Ver) {
		h := sha256.Sum256([]byte("c06-room"))
		room = "!" + base64.RawURLEncoding.EncodeToString(h[:])
	}
	if c, ok := controlCache.Load(w.r.Ver); ok { // built once per room version (the events are only read)
		pair := c.([2]gmsl.PDU)
		return pair[0], pair[1]
	}
	pe := gmsl.ProtoEvent{SenderID: sender, RoomID: room, Type: "m.room.message", Depth: 3,
		PrevEvents: []string{}, AuthEvents: []string{}, Content: spec.RawJSON(`{"body":"control"}`)}
	good, err := impl.NewEventBuilderFromProtoEvent(&pe).Build(time.UnixMilli(1700000000000), spec.ServerName(name), id, k)
	if err != nil {
		panic(fmt.Sprintf("harness: EventBuilder.Build (control): %v", err))
	}
	bad, err := impl.NewEventFromTrustedJSON(setTop(good.JSON(), "signatures", nil), false)
	if err != nil {
		panic(err)
	}
	_, _ = good.EventID(), bad.EventID()
	controlCache.Store(w.r.Ver, [2]gmsl.PDU{good, bad})
	return good, bad
}

var controlCache sync.Map
