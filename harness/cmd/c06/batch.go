package main

// Batches (EventSigs.tla, section "Batches"): several events whose signatures need the same keys at different
// instants, verified through ONE call of the real KeyRing. VerifyEventSignatures builds the requests (required
// servers, redacted form, origin_server_ts, the room version's validity rule) for every event - a collecting
// JSONVerifier records them -, the key ring gets them all in one VerifyJSONs call, and VerifyAllEventSignatures
// then reads every event's verdict off that one answer.

import (
	"context"
	"crypto/ed25519"
	"encoding/json"
	"fmt"
	"sort"
	"strings"

	gmsl "github.com/matrix-org/gomatrixserverlib"
	"github.com/matrix-org/gomatrixserverlib/spec"
	"verifharness/hx"
)

type batchRec struct {
	Ats   []string `json:"ats"`   // the instant of every message
	KV    string   `json:"kv"`    // the key of the sender's server: "cur" | "vu" | "exp" | "notary" ("none": no batch)
	J     int      `json:"j"`     // vu / exp / notary: the message whose instant the key's entry names (1-based)
	Bad   int      `json:"bad"`   // the message whose signature of the sender's server is corrupted (0: none)
	Where string   `json:"where"` // where that key is: "db" | "fetcher" | "notary"
}

type batchRes struct {
	Verds []bool `json:"verds"`
	Asked string `json:"asked"` // the instant the key sources are asked for
}

// collector is the JSONVerifier that turns per-event verification into one bulk call.
type collector struct {
	serving bool
	reqs    []gmsl.VerifyJSONRequest
	res     map[string]gmsl.VerifyJSONResult
}

func reqKey(r gmsl.VerifyJSONRequest) string {
	return fmt.Sprintf("%s\x00%d\x00%s", r.ServerName, uint64(r.AtTS), r.Message)
}

func (c *collector) VerifyJSONs(_ context.Context, reqs []gmsl.VerifyJSONRequest) ([]gmsl.VerifyJSONResult, error) {
	out := make([]gmsl.VerifyJSONResult, len(reqs))
	if !c.serving {
		c.reqs = append(c.reqs, reqs...)
		return out, nil
	}
	for n, rq := range reqs {
		res, ok := c.res[reqKey(rq)]
		if !ok {
			panic("harness: VerifyEventSignatures asks for something else the second time")
		}
		out[n] = res
	}
	return out, nil
}

// notary is a key source that holds two signed copies of one key - a cached one and a fresh one - and answers a
// request "valid until at least T" with the cached copy if it reaches T, else with the fresh one.
type notary struct {
	rq            gmsl.PublicKeyLookupRequest
	cached, fresh gmsl.PublicKeyLookupResult
	asked         []map[gmsl.PublicKeyLookupRequest]spec.Timestamp
}

func (n *notary) FetcherName() string { return "notary" }
func (n *notary) FetchKeys(_ context.Context, reqs map[gmsl.PublicKeyLookupRequest]spec.Timestamp) (map[gmsl.PublicKeyLookupRequest]gmsl.PublicKeyLookupResult, error) {
	cp := make(map[gmsl.PublicKeyLookupRequest]spec.Timestamp, len(reqs))
	for rq, at := range reqs {
		cp[rq] = at
	}
	n.asked = append(n.asked, cp)
	out := map[gmsl.PublicKeyLookupRequest]gmsl.PublicKeyLookupResult{}
	if at, ok := reqs[n.rq]; ok {
		if at <= n.cached.ValidUntilTS {
			out[n.rq] = n.cached
		} else {
			out[n.rq] = n.fresh
		}
	}
	return out, nil
}

func label(r *rec, instant string) string { return instantLabel(instant, r.MaxTS) }

// askedClass: who is asked, and where in the batch the latest instant stands
func askedClass(r *rec, who string) string {
	pos := 0
	for n, a := range r.BT.Ats {
		if a == r.BRes.Asked {
			pos = n + 1
			break
		}
	}
	return fmt.Sprintf("%s/latest-is-message-%d-of-%d", strings.ReplaceAll(who, " ", "-"), pos, len(r.BT.Ats))
}

func batchClass(r *rec) string {
	kind := r.Kind
	if kind == "nonmember" {
		kind = r.EType
	}
	strict := "lax"
	if r.Strict {
		strict = "strict"
	}
	ats := make([]string, len(r.BT.Ats))
	for n, a := range r.BT.Ats {
		ats[n] = label(r, a)
	}
	key := r.BT.KV
	if r.BT.J > 0 {
		key += fmt.Sprintf("@%d", r.BT.J)
	}
	bad := ""
	if r.BT.Bad > 0 {
		bad = fmt.Sprintf("/corrupt=%d", r.BT.Bad)
	}
	return fmt.Sprintf("batch/%s/%s/at=%s/key=%s-at-%s%s", kind, strict, strings.Join(ats, ","), key, r.BT.Where, bad)
}

func replayBatch(i int, r *rec, impl gmsl.IRoomVersion, seed int64) hx.Result {
	cls := batchClass(r)
	b := &r.BT
	if len(r.BRes.Verds) != len(b.Ats) {
		panic("harness: batch record without a verdict per message")
	}
	w := newWorld(r, seed)
	req := append([]string{}, r.Required...)
	sort.Strings(req)
	id := gmsl.KeyID("ed25519:k1")
	ats := make([]int64, len(b.Ats))
	for n, a := range b.Ats {
		ats[n] = instantValue(a, r.MaxTS, seed)
	}
	// the events: the scenario's event at every instant, signed by every required server with its one key
	events := make([]gmsl.PDU, len(b.Ats))
	for n := range b.Ats {
		w.ts = ats[n]
		evJSON := setTop(w.buildEvent(impl), "depth", json.RawMessage(fmt.Sprint(7+n))) // same instant, still another event
		w.crossChecked = false
		sigs := map[string]map[string]string{}
		for _, s := range req {
			sg := w.signatureOf(impl, evJSON, serverName(s), id, keyFromTag(s+"/k1"), true)
			if s == "s1" && b.Bad == n+1 {
				sg = corruptSig(sg, i)
			}
			sigs[serverName(s)] = map[string]string{string(id): sg}
		}
		sb, _ := json.Marshal(sigs)
		p, err := impl.NewEventFromTrustedJSON(setTop(evJSON, "signatures", sb), false)
		if err != nil {
			panic(fmt.Sprintf("harness: batch event does not parse: %v", err))
		}
		if uint64(p.OriginServerTS()) != uint64(ats[n]) {
			panic(fmt.Sprintf("harness: origin_server_ts is %d, wanted %d", uint64(p.OriginServerTS()), uint64(ats[n])))
		}
		events[n] = p
	}
	// the keys
	entry := func(k ed25519.PrivateKey, vu, exp int64) gmsl.PublicKeyLookupResult {
		return gmsl.PublicKeyLookupResult{VerifyKey: gmsl.VerifyKey{Key: spec.Base64Bytes(pub(k))},
			ValidUntilTS: spec.Timestamp(vu), ExpiredTS: spec.Timestamp(exp)}
	}
	cur := w.now + 30*day
	for _, s := range req {
		if s != "s1" {
			w.db.put(serverName(s), id, pub(keyFromTag(s+"/k1")), cur, 0)
		}
	}
	k1 := keyFromTag("s1/k1")
	rq1 := gmsl.PublicKeyLookupRequest{ServerName: spec.ServerName(serverName("s1")), KeyID: id}
	var e1 gmsl.PublicKeyLookupResult
	switch b.KV {
	case "cur":
		e1 = entry(k1, cur, 0)
	case "vu":
		e1 = entry(k1, ats[b.J-1], 0)
	case "exp":
		e1 = entry(k1, 0, ats[b.J-1])
	case "notary":
	default:
		panic("harness: unknown batch key mode " + b.KV)
	}
	ring := gmsl.KeyRing{KeyDatabase: w.db}
	var fetcher *memDB
	var nt *notary
	switch b.Where {
	case "db":
		w.db.keys[rq1] = e1
	case "fetcher":
		fetcher = &memDB{keys: map[gmsl.PublicKeyLookupRequest]gmsl.PublicKeyLookupResult{rq1: e1}}
		ring.KeyFetchers = []gmsl.KeyFetcher{fetcher}
	case "notary":
		nt = &notary{rq: rq1, cached: entry(k1, ats[b.J-1], 0), fresh: entry(k1, cur, 0)}
		ring.KeyFetchers = []gmsl.KeyFetcher{nt}
	default:
		panic("harness: unknown key place " + b.Where)
	}
	if w.signMismatch != "" {
		return hx.Result{OK: false, NT: cls, Key: "C06/signed-form/" + r.EType, What: w.signMismatch}
	}
	// one call of the key ring for everything VerifyEventSignatures wants verified
	ctx := context.Background()
	col := &collector{}
	for n, e := range events {
		if err := gmsl.VerifyEventSignatures(ctx, e, col, userIDForSender); err != nil {
			panic(fmt.Sprintf("harness: collecting the requests of message %d: %v", n+1, err))
		}
	}
	if len(col.reqs) != len(events)*len(req) {
		return hx.Result{OK: false, NT: cls, Key: "C06/batch/requests/" + cls,
			What: fmt.Sprintf("VerifyEventSignatures asked for %d signatures over %d events with required servers %v", len(col.reqs), len(events), req)}
	}
	results, err := ring.VerifyJSONs(ctx, col.reqs)
	if err != nil || len(results) != len(col.reqs) {
		return hx.Result{OK: false, NT: cls, Key: "C06/batch/call/" + cls,
			What: fmt.Sprintf("KeyRing.VerifyJSONs over %d requests returned %d results, error %v", len(col.reqs), len(results), err)}
	}
	col.res = map[string]gmsl.VerifyJSONResult{}
	for n, rq := range col.reqs {
		col.res[reqKey(rq)] = results[n]
	}
	col.serving = true
	errs := gmsl.VerifyAllEventSignatures(ctx, events, col, userIDForSender)
	got := make([]bool, len(errs))
	same := len(errs) == len(events)
	for n := range errs {
		got[n] = errs[n] == nil
		same = same && n < len(r.BRes.Verds) && got[n] == r.BRes.Verds[n]
	}
	if !same {
		tss := make([]uint64, len(ats))
		for n := range ats {
			tss[n] = uint64(ats[n])
		}
		// canonical: the first message judged otherwise - its instant, the key entry relative to it
		m := 0
		for m < len(got) && m < len(r.BRes.Verds) && got[m] == r.BRes.Verds[m] {
			m++
		}
		key := "C06/batch/verify/length"
		if m < len(got) && m < len(b.Ats) {
			strict := "lax"
			if r.Strict {
				strict = "strict"
			}
			kv := b.KV
			if b.J == m+1 {
				kv += "@its-instant"
			} else if b.J > 0 {
				kv += "@" + label(r, b.Ats[b.J-1])
			}
			corrupt := ""
			if b.Bad == m+1 {
				corrupt = "/corrupted"
			} else if b.Bad > 0 {
				corrupt = "/another-corrupted"
			}
			key = fmt.Sprintf("C06/batch/verify/%s/message-at=%s/key=%s%s:model=%v", strict, label(r, b.Ats[m]), kv, corrupt, r.BRes.Verds[m])
		}
		return hx.Result{OK: false, NT: cls, Key: key,
			What: fmt.Sprintf("one KeyRing.VerifyJSONs call for %d events (room version %s, %s, required servers %v) at origin_server_ts %v, key of the sender's server %s@%d held by the %s, corrupted message %d: the specification says valid=%v, the library says %v (%v)",
				len(events), r.Ver, r.Kind, req, tss, b.KV, b.J, b.Where, b.Bad, r.BRes.Verds, got, errs),
			Want: r.BRes.Verds, Got: got}
	}
	// the instant the key sources were asked for
	want := spec.Timestamp(instantValue(r.BRes.Asked, r.MaxTS, seed))
	check := func(who string, calls []map[gmsl.PublicKeyLookupRequest]spec.Timestamp) *hx.Result {
		if len(calls) == 0 {
			return &hx.Result{OK: false, NT: cls, Key: "C06/batch/asked/" + askedClass(r, who) + ":never",
				What: fmt.Sprintf("the %s was never asked for the key of the sender's server (messages at %v)", who, b.Ats)}
		}
		at, ok := calls[0][rq1]
		if !ok || at != want {
			return &hx.Result{OK: false, NT: cls, Key: fmt.Sprintf("C06/batch/asked/%s:model=%s", askedClass(r, who), label(r, r.BRes.Asked)),
				What: fmt.Sprintf("the %s is asked for the key of the sender's server at instant %d (asked at all: %v); the messages need it at %v: the latest is %s = %d",
					who, uint64(at), ok, b.Ats, r.BRes.Asked, uint64(want)),
				Want: uint64(want), Got: uint64(at)}
		}
		return nil
	}
	if res := check("key database", w.db.asked); res != nil {
		return *res
	}
	if fetcher != nil {
		if res := check("key fetcher", fetcher.asked); res != nil {
			return *res
		}
	}
	if nt != nil {
		if res := check("notary", nt.asked); res != nil {
			return *res
		}
	}
	return hx.Result{OK: true, NT: cls}
}
