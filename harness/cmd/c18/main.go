// Command c18 binds spec/Lifecycle.tla to the real gomatrixserverlib for property C18
// ("no input from the network can crash the library").
//
//	c18 c18      -in records.ndjson    execute every Lifecycle_gen.tla pipeline (spec -> code); every library
//	                                   call runs under recover(); records are executed in worker processes so
//	                                   that an unrecoverable crash (stack overflow) is attributed to its record
//	c18 c18rec   -out trace.ndjson     seeded byte-level mutational driver over the repository's test vectors
//	                                   and harness-built events (code -> spec); writes `call, outcome` lines
//	                                   for Lifecycle_trace.tla and one result line per panic (with base64 input)
//	c18 c18probe -in probes.ndjson     re-execute recorded (call, input) pairs: used to reproduce c18rec panics
//	                                   in a fresh process
//	c18 c18self                        concretiser self-test: the fault-free subject of every (version, type)
//	                                   must parse unredacted and pass the auth check
package main

import (
	"runtime/debug"

	"verifharness/hx"
)

func init() {
	debug.SetGCPercent(400)
	// An unbounded recursion must end quickly (the default limit is 1 GB of stack).
	debug.SetMaxStack(192 << 20)
	hx.Register("c18", "execute Lifecycle_gen.tla pipelines against the real library (panic / fatal crash = violation)", replayCmd)
	hx.Register("c18rec", "seeded byte-level mutational driver; records call/outcome lines for Lifecycle_trace.tla", recordCmd)
	hx.Register("c18probe", "re-execute (call, base64 input) probes of the mutational driver", probeCmd)
	hx.Register("c18self", "concretiser self-test over all versions and subject types", selfCmd)
}

func main() { hx.Main() }
