package main

// The operations of Lifecycle.tla on a parsed event, each library call under recover().

import (
	"context"
	"encoding/json"
	"fmt"
	"os"
	"sort"
	"strings"
	"time"

	gmsl "github.com/matrix-org/gomatrixserverlib"
	"github.com/matrix-org/gomatrixserverlib/fclient"
	"github.com/matrix-org/gomatrixserverlib/spec"
)

// step is one executed library call as the trace specification sees it.
type step struct {
	Call string `json:"call"`
	Out  string `json:"outcome"`
}

// pipeState is the life of one remote datum.
type pipeState struct {
	room    *roomCtx
	typ     string
	class   string // input class for finding keys
	raw     []byte // the bytes as received
	cur     gmsl.PDU
	steps   []step
	panics  []finding
	signer  string // abstract user whose server signs
	seen    map[string]bool
	dep     gmsl.PDU
	depDone bool
}

type finding struct {
	Key   string `json:"key"`
	Op    string `json:"op"`
	Func  string `json:"func"`
	Site  string `json:"site"`
	Value string `json:"value"`
	Stack string `json:"stack,omitempty"`
}

func (s *pipeState) note(callName string, o outcome) outcome {
	s.steps = append(s.steps, step{callName, o.Out})
	if debugCalls {
		fmt.Fprintf(os.Stderr, "call %s -> %s %s\n", callName, o.Out, o.Err)
	}
	if o.Panic != nil {
		k := "C18/panic/" + o.Panic.Func + "/" + s.class
		if s.seen == nil {
			s.seen = map[string]bool{}
		}
		if !s.seen[k] {
			s.seen[k] = true
			s.panics = append(s.panics, finding{Key: k, Op: callName, Func: o.Panic.Func, Site: o.Panic.Site, Value: o.Panic.Value, Stack: o.Panic.Stack})
		}
	}
	return o
}

func (s *pipeState) do(name string, fn func() error) outcome { return s.note(name, call(fn)) }
func (s *pipeState) dov(name string, fn func()) outcome      { return s.note(name, callv(fn)) }

var bg = context.Background()

var debugCalls = os.Getenv("C18_DEBUG") != ""

// verifier checks signatures against the harness' static server keys (what a key ring with all keys cached does).
type verifier struct{}

func (verifier) VerifyJSONs(ctx context.Context, reqs []gmsl.VerifyJSONRequest) ([]gmsl.VerifyJSONResult, error) {
	if env == "verr" { // the keys cannot be fetched
		return nil, fmt.Errorf("verifier: key database error")
	}
	out := make([]gmsl.VerifyJSONResult, len(reqs))
	for i, r := range reqs {
		key, ok := serverKeys[string(r.ServerName)]
		if !ok {
			out[i].Error = fmt.Errorf("no key for %q", r.ServerName)
			continue
		}
		out[i].Error = gmsl.VerifyJSON(string(r.ServerName), "ed25519:1", key.Public().(edPub), r.Message)
	}
	return out, nil
}

func notRejected(string) bool { return env == "rejall" }

// env is the behaviour of the application's callbacks during one operation ("" = normal): qnil / qerr = the
// UserIDForSender querier knows nobody / fails, verr = the verifier fails, perr / pnil = event and state
// providers fail / return nothing, rejall = every event is reported as rejected. All are answers the callbacks'
// contracts allow. The worker executes records one at a time, so a package variable is enough.
var env string

// ---------------------------------------------------------------- accessors

// AccessorNames is every method of the PDU interface that reads the event (plus json.Marshal).
var AccessorNames = []string{"EventID", "RoomID", "SenderID", "Type", "StateKey", "StateKeyEquals", "Content", "Membership",
	"JoinRule", "PowerLevels", "HistoryVisibility", "Redacts", "Redacted", "PrevEventIDs", "AuthEventIDs", "Depth",
	"OriginServerTS", "Unsigned", "JSON", "Version", "IsSticky", "StickyEndTime", "ToHeaderedJSON", "MarshalJSON"}

func (s *pipeState) accessor(name string) outcome {
	e := s.cur
	n := "Accessor:" + name
	now := time.Unix(1700000100, 0)
	switch name {
	case "EventID":
		return s.dov(n, func() { _ = e.EventID() })
	case "RoomID":
		return s.dov(n, func() { r := e.RoomID(); _ = r.String(); _ = r.OpaqueID() })
	case "SenderID":
		return s.dov(n, func() { _ = e.SenderID() })
	case "Type":
		return s.dov(n, func() { _ = e.Type() })
	case "StateKey":
		return s.dov(n, func() { _ = e.StateKey() })
	case "StateKeyEquals":
		return s.dov(n, func() { _ = e.StateKeyEquals("") })
	case "Content":
		return s.dov(n, func() { _ = e.Content() })
	case "Membership":
		return s.do(n, func() error { _, err := e.Membership(); return err })
	case "JoinRule":
		return s.do(n, func() error { _, err := e.JoinRule(); return err })
	case "PowerLevels":
		return s.do(n, func() error {
			p, err := e.PowerLevels()
			if err == nil {
				_ = p.UserLevel(e.SenderID())
				_ = p.EventLevel(e.Type(), true)
				_ = p.NotificationLevel("room")
			}
			return err
		})
	case "HistoryVisibility":
		return s.do(n, func() error { _, err := e.HistoryVisibility(); return err })
	case "Redacts":
		return s.dov(n, func() { _ = e.Redacts() })
	case "Redacted":
		return s.dov(n, func() { _ = e.Redacted() })
	case "PrevEventIDs":
		return s.dov(n, func() { _ = e.PrevEventIDs() })
	case "AuthEventIDs":
		return s.dov(n, func() { _ = e.AuthEventIDs() })
	case "Depth":
		return s.dov(n, func() { _ = e.Depth() })
	case "OriginServerTS":
		return s.dov(n, func() { _ = e.OriginServerTS().Time() })
	case "Unsigned":
		return s.dov(n, func() { _ = e.Unsigned() })
	case "JSON":
		return s.dov(n, func() { _ = e.JSON() })
	case "Version":
		return s.dov(n, func() { _ = e.Version() })
	case "IsSticky":
		return s.dov(n, func() { _ = e.IsSticky(now, now) })
	case "StickyEndTime":
		return s.dov(n, func() { _ = e.StickyEndTime(now) })
	case "ToHeaderedJSON":
		return s.do(n, func() error { _, err := e.ToHeaderedJSON(); return err })
	case "MarshalJSON":
		return s.do(n, func() error { _, err := json.Marshal(e); return err })
	}
	fatalf("unknown accessor %q", name)
	return outcome{}
}

// ---------------------------------------------------------------- helpers (public functions over one event)

var HelperNames = []string{"MemberContent", "PowerLevelContent", "Creators", "StateNeeded", "StrippedState", "CheckFields",
	"SenderIDMethods", "EventJSONs"}

func senderIDMethods(id spec.SenderID) {
	_ = id.IsUserID()
	_ = id.IsPseudoID()
	_ = id.ToUserID()
	_ = id.ToPseudoID()
	_, _ = id.RawBytes()
}

func (s *pipeState) helper(name string) outcome {
	e := s.cur
	n := "Helper:" + name
	switch name {
	case "MemberContent":
		return s.do(n, func() error { _, err := gmsl.NewMemberContentFromEvent(e); return err })
	case "PowerLevelContent":
		return s.do(n, func() error { _, err := gmsl.NewPowerLevelContentFromEvent(e); return err })
	case "Creators":
		return s.dov(n, func() { _ = gmsl.CreatorsFromCreateEvent(e) })
	case "StateNeeded":
		return s.dov(n, func() { _ = gmsl.StateNeededForAuth([]gmsl.PDU{e}).Tuples() })
	case "StrippedState":
		return s.do(n, func() error {
			ss := gmsl.NewInviteStrippedState(e)
			b, err := json.Marshal(ss)
			if err != nil {
				return err
			}
			var back gmsl.InviteStrippedState
			return json.Unmarshal(b, &back)
		})
	case "CheckFields":
		return s.do(n, func() error { return gmsl.CheckFields(e) })
	case "SenderIDMethods":
		return s.dov(n, func() {
			senderIDMethods(e.SenderID())
			// the state key of a membership event is the sender ID of the target
			if sk := e.StateKey(); sk != nil && e.Type() == "m.room.member" {
				senderIDMethods(spec.SenderID(*sk))
			}
		})
	case "EventJSONs":
		return s.dov(n, func() {
			js := gmsl.NewEventJSONsFromEvents([]gmsl.PDU{e})
			_ = js.UntrustedEvents(e.Version())
			_ = js.TrustedEvents(e.Version(), false)
		})
	}
	fatalf("unknown helper %q", name)
	return outcome{}
}

// ---------------------------------------------------------------- mutators

func (s *pipeState) mutate(name string) outcome {
	e := s.cur
	switch name {
	case "Redact":
		return s.dov(name, func() { e.Redact() })
	case "Sign":
		srv, key := userServer[s.signer], serverKeys[userServer[s.signer]]
		if s.room.pseudo {
			srv, key = pseudoID(s.signer), userKeys[s.signer]
		}
		return s.dov(name, func() { s.cur = e.Sign(srv, "ed25519:1", key) })
	case "SetUnsigned":
		return s.do(name, func() error {
			n, err := e.SetUnsigned(map[string]interface{}{"age": 5, "prev_content": map[string]interface{}{"membership": "leave"}})
			if err == nil {
				s.cur = n
			}
			return err
		})
	case "SetUnsignedField":
		return s.do(name, func() error { return e.SetUnsignedField("transaction_id", "t1") })
	case "Reload":
		return s.do(name, func() error {
			n, err := s.room.impl.NewEventFromTrustedJSON(e.JSON(), e.Redacted())
			if err == nil {
				s.cur = n
			}
			return err
		})
	case "Headered":
		return s.do(name, func() error {
			h, err := e.ToHeaderedJSON()
			if err != nil {
				return err
			}
			n, err := gmsl.NewEventFromHeaderedJSON(h, e.Redacted())
			if err == nil {
				s.cur = n
			}
			return err
		})
	}
	fatalf("unknown mutator %q", name)
	return outcome{}
}

// ---------------------------------------------------------------- signatures, auth

func (s *pipeState) verifySignatures() outcome {
	e := s.cur
	s.do("VerifySignatures", func() error { return gmsl.VerifyEventSignatures(bg, e, verifier{}, userIDForSender) })
	// the same through a real key ring that holds the servers' keys (it applies the version's validity rule)
	if env == "" {
		s.do("VerifySignatures", func() error { return gmsl.VerifyEventSignatures(bg, e, sharedKeyRing(), userIDForSender) })
	}
	return s.dov("VerifySignatures:all", func() { _ = gmsl.VerifyAllEventSignatures(bg, []gmsl.PDU{e, e}, verifier{}, userIDForSender) })
}

// stateWith is the room state with the subject standing in for / added to it.
func (s *pipeState) stateWith(subject gmsl.PDU) []gmsl.PDU {
	rep := replaces(s.typ)
	var out []gmsl.PDU
	for _, n := range stateNames {
		if n == rep && subject != nil {
			continue
		}
		if p := s.room.pdu[n]; p != nil {
			out = append(out, p)
		}
	}
	if subject != nil {
		out = append(out, subject)
	}
	return out
}

func (s *pipeState) provider(events []gmsl.PDU) (*gmsl.AuthEvents, outcome) {
	var p *gmsl.AuthEvents
	o := s.do("AddToProvider:NewAuthEvents", func() error {
		var err error
		p, err = gmsl.NewAuthEvents(nil)
		if err != nil {
			return err
		}
		var first error
		for _, e := range events {
			if err := p.AddEvent(e); err != nil && first == nil {
				first = err // a non-state event: the provider refuses it, the others stay
			}
		}
		return first
	})
	return p, o
}

func (s *pipeState) authCheckEvent() outcome {
	p, o := s.provider(s.stateWith(nil))
	if p == nil {
		return o
	}
	e := s.cur
	return s.do("AuthCheck:Allowed", func() error { return gmsl.Allowed(e, p, userIDForSender) })
}

// probes are well-formed events of the room that are checked against a provider holding the subject.
func (c *roomCtx) probes() []gmsl.PDU {
	if c.prb != nil {
		return c.prb
	}
	var out []gmsl.PDU
	defer func() { c.prb = out }()
	for _, n := range []string{"msg", "jbob", "create"} {
		if p := c.pdu[n]; p != nil {
			out = append(out, p)
		}
	}
	for _, typ := range []string{"member", "member_tpi", "power_levels", "redaction", "aliases", "join_rules", "knock"} {
		var t tree
		if typ == "knock" { // carol knocks: the version's knocking rule decides
			t = c.subjectTree("member")
			t["content"] = c.memberContent("carol", "knock")
		} else {
			t = c.subjectTree(typ)
		}
		raw := withContentHash(marshalTree(t), c.fmtV1)
		if ev, o := c.parse(raw); o.Out == "ok" {
			out = append(out, ev)
		}
	}
	return out
}

func (s *pipeState) authCheckProvider() outcome {
	p, o := s.provider(s.stateWith(s.cur))
	if p == nil {
		return o
	}
	s.dov("AuthCheck:Valid", func() { _ = p.Valid() })
	var last outcome
	for _, probe := range s.room.probes() {
		probe := probe
		last = s.do("AuthCheck:Allowed", func() error { return gmsl.Allowed(probe, p, userIDForSender) })
	}
	return last
}

func (s *pipeState) addToProvider() outcome {
	e := s.cur
	p, o := s.provider([]gmsl.PDU{e})
	if p == nil {
		return o
	}
	s.do("AddToProvider:CreateContent", func() error { _, err := gmsl.NewCreateContentFromAuthEvents(p, userIDForSender); return err })
	s.do("AddToProvider:PowerLevelContent", func() error {
		_, err := gmsl.NewPowerLevelContentFromAuthEvents(p, string(e.SenderID()))
		return err
	})
	s.do("AddToProvider:JoinRuleContent", func() error { _, err := gmsl.NewJoinRuleContentFromAuthEvents(p); return err })
	s.do("AddToProvider:MemberContent", func() error {
		sk := ""
		if k := e.StateKey(); k != nil {
			sk = *k
		}
		_, err := gmsl.NewMemberContentFromAuthEvents(p, spec.SenderID(sk))
		return err
	})
	s.do("AddToProvider:ThirdPartyInviteContent", func() error {
		_, err := gmsl.NewThirdPartyInviteContentFromAuthEvents(p, "tok")
		return err
	})
	return s.do("AddToProvider:AuthEventReferences", func() error {
		_, err := gmsl.StateNeededForAuth([]gmsl.PDU{e}).AuthEventReferences(p)
		return err
	})
}

// ---------------------------------------------------------------- state resolution

type resolveInput struct {
	more       [][]gmsl.PDU // further state sets
	setA, setB []gmsl.PDU
	auth       []gmsl.PDU
	all        []gmsl.PDU
}

func (s *pipeState) resolveInput(role string) resolveInput {
	c := s.room
	var in resolveInput
	for _, n := range stateNames {
		if p := c.pdu[n]; p != nil {
			in.setA = append(in.setA, p)
		}
	}
	inState := role == "state" || role == "both"
	inAuth := role == "auth" || role == "both"
	rep := replaces(s.typ)
	for _, n := range stateNames {
		p := c.pdu[n]
		if p == nil {
			continue
		}
		switch {
		case n == rep && inState:
			continue
		case n == "pl" && rep != "pl" && c.pdu["plB"] != nil:
			p = c.pdu["plB"]
		case n == "jbob" && c.pdu["kickbob"] != nil:
			p = c.pdu["kickbob"]
		}
		in.setB = append(in.setB, p)
	}
	if inState {
		in.setB = append(in.setB, s.cur)
	}
	for _, n := range c.chain() {
		in.auth = append(in.auth, c.pdu[n])
	}
	if inAuth {
		in.auth = append(in.auth, s.cur)
	}
	// an event of the other fork that cites the subject among its auth events (what an auth chain looks like
	// when the subject is part of it)
	if dep := s.dependent(); dep != nil {
		for i, p := range in.setB {
			if p == c.pdu["jr"] { // a conflicted control event: it is ordered by its sender's power level
				in.setB[i] = dep
			}
		}
		in.auth = append(in.auth, dep)
	}
	in.all = append(append([]gmsl.PDU{}, in.auth...), c.pdu["msg"], s.cur)
	switch role {
	case "dup": // every event listed twice, the subject in both places
		in.setB = append(append(in.setB, s.cur), append(in.setB, s.cur)...)
		in.setA = append(in.setA, in.setA...)
		in.auth = append(append(in.auth, s.cur), append(in.auth, s.cur)...)
		in.all = append(in.all, in.all...)
	case "bare":
		// Nothing the checks need is part of the state sets: the create, power levels and member events are only
		// reachable through the auth events each event cites, and some events do not cite all of them. One
		// checker judges them one after the other.
		in.setA = []gmsl.PDU{c.pdu["jr"], c.pdu["hv"]}
		in.setB = []gmsl.PDU{c.pdu["hv"], s.cur}
		in.more = nil
		if dep := s.dependent(); dep != nil {
			in.setB = append(in.setB, dep)
		} else {
			in.setB = append(in.setB, c.pdu["jr0"])
		}
		for _, omit := range []string{"create", "pl", "jalice"} {
			if l := s.lacking(omit); l != nil {
				in.more = append(in.more, []gmsl.PDU{c.pdu["hv"], l})
				in.auth = append(in.auth, l)
			}
		}
		in.auth = append(in.auth, s.cur)
	}
	return in
}

// sets are the state sets handed to the resolvers.
func (in resolveInput) sets() [][]gmsl.PDU {
	return append([][]gmsl.PDU{in.setA, in.setB}, in.more...)
}

// lacking builds a well-formed join rules event of alice whose auth_events omit one of the events its check needs.
func (s *pipeState) lacking(omit string) gmsl.PDU {
	c := s.room
	if c.lack == nil {
		c.lack = map[string]gmsl.PDU{}
	}
	if ev, ok := c.lack[omit]; ok {
		return ev
	}
	var auth []string
	for _, n := range []string{"create", "jalice", "pl"} {
		if n != omit {
			auth = append(auth, n)
		}
	}
	d := c.depth
	t := c.newEvent("lack"+omit, "m.room.join_rules", strp(""), "alice", tree{"join_rule": "knock", "x": omit}, auth, []string{"msg"})
	c.depth = d
	var ev gmsl.PDU
	if p, o := c.parse(withContentHash(marshalTree(t), c.fmtV1)); o.Out == "ok" {
		ev = p
	}
	c.lack[omit] = ev
	return ev
}

// dependent builds (once per pipeline) a well-formed join rules event of alice (level 50) whose auth_events cite the subject.
func (s *pipeState) dependent() gmsl.PDU {
	if s.depDone {
		return s.dep
	}
	s.depDone = true
	c := s.room
	var id string
	if pi := guard(func() { id = s.cur.EventID() }); pi != nil || id == "" {
		return nil
	}
	t := c.newEvent("dep", "m.room.join_rules", strp(""), "alice", tree{"join_rule": "invite"}, []string{"create", "jalice", "pl"}, []string{"msg"})
	c.depth-- // the shared room is not advanced by per-record events
	auth, _ := t["auth_events"].([]interface{})
	more := c.refs([]string{id}).([]interface{})
	t["auth_events"] = append(more, auth...) // the subject first: the walks over auth events meet it before the room's own events
	if ev, o := c.parse(withContentHash(marshalTree(t), c.fmtV1)); o.Out == "ok" {
		s.dep = ev
	}
	return s.dep
}

func jsonsOf(events []gmsl.PDU) gmsl.EventJSONs {
	out := make(gmsl.EventJSONs, 0, len(events))
	for _, e := range events {
		out = append(out, spec.RawJSON(e.JSON()))
	}
	return out
}

func hasStateKey(e gmsl.PDU) bool {
	var sk *string
	if pi := guard(func() { sk = e.StateKey() }); pi != nil {
		return false
	}
	return sk != nil
}

// splitConflicts does what a caller of the deprecated entry points does before calling them.
func splitConflicts(sets ...[]gmsl.PDU) (conflicted, unconflicted []gmsl.PDU) {
	type tup struct{ t, k string }
	by := map[tup][]gmsl.PDU{}
	seen := map[gmsl.PDU]bool{}
	var order []tup
	for _, set := range sets {
		for _, e := range set {
			if seen[e] || !hasStateKey(e) {
				continue
			}
			seen[e] = true
			k := tup{e.Type(), *e.StateKey()}
			if by[k] == nil {
				order = append(order, k)
			}
			by[k] = append(by[k], e)
		}
	}
	for _, k := range order {
		if len(by[k]) > 1 {
			conflicted = append(conflicted, by[k]...)
		} else {
			unconflicted = append(unconflicted, by[k]...)
		}
	}
	return
}

type stubStateProvider struct{ events map[string]gmsl.PDU }

func (p stubStateProvider) StateIDsBeforeEvent(ctx context.Context, event gmsl.PDU) ([]string, error) {
	switch env {
	case "perr":
		return nil, fmt.Errorf("state provider: error")
	case "pnil":
		return nil, nil
	}
	ids := make([]string, 0, len(p.events))
	for id := range p.events {
		ids = append(ids, id)
	}
	sort.Strings(ids)
	return ids, nil
}

func (p stubStateProvider) StateBeforeEvent(ctx context.Context, roomVer gmsl.RoomVersion, event gmsl.PDU, eventIDs []string) (map[string]gmsl.PDU, error) {
	switch env {
	case "perr":
		return nil, fmt.Errorf("state provider: error")
	case "pnil":
		return nil, nil
	}
	out := map[string]gmsl.PDU{}
	for _, id := range eventIDs {
		if e, ok := p.events[id]; ok {
			out[id] = e
		}
	}
	return out, nil
}

func eventProviderOver(events map[string]gmsl.PDU) gmsl.EventProvider {
	return func(roomVer gmsl.RoomVersion, eventIDs []string) ([]gmsl.PDU, error) {
		switch env {
		case "perr":
			return nil, fmt.Errorf("event provider: error")
		case "pnil":
			return nil, nil
		}
		var out []gmsl.PDU
		for _, id := range eventIDs {
			if e, ok := events[id]; ok {
				out = append(out, e)
			}
		}
		return out, nil
	}
}

// backfiller answers a backfill request with fixed (remote) PDUs.
type backfiller struct {
	stubStateProvider
	pdus []json.RawMessage
}

func (b backfiller) Backfill(ctx context.Context, origin, server spec.ServerName, roomID string, limit int, from []string) (gmsl.Transaction, error) {
	if env == "perr" && server == "hs1" {
		return gmsl.Transaction{}, fmt.Errorf("backfill: server unreachable")
	}
	return gmsl.Transaction{Origin: server, PDUs: b.pdus}, nil
}
func (b backfiller) ServersAtEvent(ctx context.Context, roomID, eventID string) []spec.ServerName {
	return []spec.ServerName{"hs1", "hs2"}
}
func (b backfiller) ProvideEvents(v gmsl.RoomVersion, ids []string) ([]gmsl.PDU, error) {
	return eventProviderOver(b.events)(v, ids)
}

func backfill(ver gmsl.RoomVersion, pdus []json.RawMessage, known map[string]gmsl.PDU) error {
	if known == nil {
		known = map[string]gmsl.PDU{}
	}
	_, err := gmsl.RequestBackfill(bg, "hs9", backfiller{stubStateProvider{known}, pdus}, verifier{}, "!room:hs1", ver, []string{"$from"}, 100, userIDForSender)
	return err
}

// ResolveEntries are the entry points of state resolution and of the checks built on it.
var ResolveEntries = []string{"new", "old", "direct", "topo_auth", "topo_prev", "topo_headered", "linearise", "checkstate", "sendjoin", "load", "authchain"}

func (s *pipeState) resolve(entry, role string) outcome {
	c := s.room
	in := s.resolveInput(role)
	ver := gmsl.RoomVersion(c.ver)
	n := "Resolve:" + entry
	byID := map[string]gmsl.PDU{}
	for _, name := range c.order {
		byID[c.ids[name]] = c.pdu[name]
	}
	resp := func() *fclient.RespState {
		return &fclient.RespState{StateEvents: jsonsOf(in.setB), AuthEvents: jsonsOf(in.auth)}
	}
	switch entry {
	case "new":
		return s.do(n, func() error {
			_, err := gmsl.ResolveConflictsNew(ver, in.sets(), in.auth, userIDForSender, notRejected)
			return err
		})
	case "old":
		return s.do(n, func() error {
			var flat []gmsl.PDU
			for _, set := range in.sets() {
				flat = append(flat, set...)
			}
			_, err := gmsl.ResolveConflicts(ver, flat, in.auth, userIDForSender, notRejected)
			return err
		})
	case "direct":
		conf, unconf := splitConflicts(in.sets()...)
		if role == "dup" { // the caller's lists carry every event twice
			conf, unconf = append(conf, conf...), append(unconf, unconf...)
		}
		switch c.impl.StateResAlgorithm() {
		case gmsl.StateResV1:
			return s.dov(n+":v1", func() { _ = gmsl.ResolveStateConflicts(conf, in.auth, userIDForSender) })
		default:
			algo := c.impl.StateResAlgorithm()
			s.dov(n+":v2", func() { _ = gmsl.ResolveStateConflictsV2(conf, unconf, in.auth, userIDForSender, notRejected) })
			return s.dov(n+":v2new", func() {
				_ = gmsl.ResolveStateConflictsV2New(algo, in.sets(), in.auth, userIDForSender, notRejected)
			})
		}
	case "topo_auth":
		return s.dov(n, func() { _ = gmsl.ReverseTopologicalOrdering(in.all, gmsl.TopologicalOrderByAuthEvents) })
	case "topo_prev":
		return s.dov(n, func() { _ = gmsl.ReverseTopologicalOrdering(in.all, gmsl.TopologicalOrderByPrevEvents) })
	case "topo_headered":
		s.dov(n, func() { _ = gmsl.HeaderedReverseTopologicalOrdering(in.all, gmsl.TopologicalOrderByAuthEvents) })
		return s.dov(n, func() { _ = gmsl.HeaderedReverseTopologicalOrdering(in.all, gmsl.TopologicalOrderByPrevEvents) })
	case "linearise":
		return s.dov(n, func() { _ = gmsl.LineariseStateResponse(ver, resp()) })
	case "checkstate":
		return s.do(n, func() error {
			_, _, err := gmsl.CheckStateResponse(bg, resp(), ver, verifier{}, eventProviderOver(byID), userIDForSender)
			return err
		})
	case "sendjoin":
		join := s.cur
		return s.do(n, func() error {
			_, err := gmsl.CheckSendJoinResponse(bg, ver, resp(), verifier{}, join, eventProviderOver(byID), userIDForSender)
			return err
		})
	case "load":
		raws := make([]json.RawMessage, 0, len(in.all))
		for _, e := range in.all {
			raws = append(raws, json.RawMessage(e.JSON()))
		}
		raws = append(raws, json.RawMessage(s.raw))
		l := gmsl.NewEventsLoader(ver, verifier{}, stubStateProvider{byID}, eventProviderOver(byID), false)
		s.do(n, func() error {
			_, err := l.LoadAndVerify(bg, raws, gmsl.TopologicalOrderByPrevEvents, userIDForSender)
			return err
		})
		return s.do(n, func() error {
			_, err := l.LoadAndVerify(bg, raws, gmsl.TopologicalOrderByAuthEvents, userIDForSender)
			return err
		})
	case "backfill":
		// the PDUs are what the servers asked for a backfill answered with (two servers give the same answer)
		raws := make([]json.RawMessage, 0, len(in.all)+1)
		for _, e := range in.all {
			raws = append(raws, json.RawMessage(e.JSON()))
		}
		raws = append(raws, json.RawMessage(s.raw))
		return s.do(n, func() error { return backfill(ver, raws, byID) })
	case "authchain":
		e := s.cur
		s.do(n, func() error { return gmsl.VerifyEventAuthChain(bg, e, eventProviderOver(byID), userIDForSender) })
		return s.do(n, func() error {
			return gmsl.VerifyAuthRulesAtState(bg, stubStateProvider{byID}, e, true, userIDForSender)
		})
	}
	fatalf("unknown resolve entry %q", entry)
	return outcome{}
}

// ---------------------------------------------------------------- dispatch

// runOp executes one pipeline operation on a parsed event.
func (s *pipeState) runOp(op string) {
	if i := strings.Index(op, "@"); i >= 0 {
		env = op[i+1:]
		defer func() { env = "" }()
		op = op[:i]
	}
	parts := strings.Split(op, ":")
	switch parts[0] {
	case "Handle":
		s.handle(parts[1])
	case "Perform":
		s.performInvite()
	case "Accessor":
		s.accessor(parts[1])
	case "Helper":
		s.helper(parts[1])
	case "Redact", "Sign", "SetUnsigned", "SetUnsignedField", "Reload", "Headered":
		s.mutate(parts[0])
	case "VerifySignatures":
		s.verifySignatures()
	case "AuthCheck":
		if parts[1] == "event" {
			s.authCheckEvent()
		} else {
			s.authCheckProvider()
		}
	case "AddToProvider":
		s.addToProvider()
	case "Resolve":
		s.resolve(parts[1], parts[2])
	default:
		fatalf("unknown operation %q", op)
	}
}

// sweep is the fixed accessor / auth / redact / resolve sweep applied by the mutational driver to every event
// that parsing accepted.
func (s *pipeState) sweep() {
	for _, a := range AccessorNames {
		s.accessor(a)
	}
	for _, h := range HelperNames {
		if h == "Creators" && !(s.cur.Type() == "m.room.create") {
			continue
		}
		s.helper(h)
	}
	s.verifySignatures()
	s.authCheckEvent()
	s.authCheckProvider()
	s.addToProvider()
	for _, entry := range []string{"new", "old", "direct", "topo_auth", "topo_prev", "linearise", "checkstate"} {
		s.resolve(entry, "both")
	}
	s.resolve("new", "bare")
	s.resolve("backfill", "dup")
	for _, h := range []string{"Invite", "SendJoin", "MakeJoin", "MakeLeave"} {
		s.handle(h)
	}
	s.performInvite()
	env = "qnil"
	s.authCheckEvent()
	s.handle("Invite")
	env = ""
	s.mutate("SetUnsigned")
	s.mutate("Sign")
	s.verifySignatures()
	s.mutate("Reload")
	s.mutate("Redact")
	for _, a := range []string{"EventID", "RoomID", "Content", "JSON", "Membership", "PowerLevels"} {
		s.accessor(a)
	}
	s.authCheckEvent()
}
