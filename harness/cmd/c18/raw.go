package main

// Entry points that take bytes straight from the network ("Raw" state of Lifecycle.tla).

import (
	"bufio"
	"bytes"
	"context"
	"encoding/json"
	"fmt"
	"io"
	"net/http"
	"strings"
	"sync"
	"time"

	gmsl "github.com/matrix-org/gomatrixserverlib"
	"github.com/matrix-org/gomatrixserverlib/fclient"
	"github.com/matrix-org/gomatrixserverlib/spec"
	"golang.org/x/crypto/ed25519"
)

type edPub = ed25519.PublicKey

// ---------------------------------------------------------------- key ring stubs

type memKeyDB struct {
	mu sync.Mutex
	m  map[gmsl.PublicKeyLookupRequest]gmsl.PublicKeyLookupResult
}

func (d *memKeyDB) FetcherName() string { return "memKeyDB" }
func (d *memKeyDB) FetchKeys(ctx context.Context, reqs map[gmsl.PublicKeyLookupRequest]spec.Timestamp) (map[gmsl.PublicKeyLookupRequest]gmsl.PublicKeyLookupResult, error) {
	d.mu.Lock()
	defer d.mu.Unlock()
	out := map[gmsl.PublicKeyLookupRequest]gmsl.PublicKeyLookupResult{}
	for r := range reqs {
		if v, ok := d.m[r]; ok {
			out[r] = v
		}
	}
	return out, nil
}
func (d *memKeyDB) StoreKeys(ctx context.Context, res map[gmsl.PublicKeyLookupRequest]gmsl.PublicKeyLookupResult) error {
	d.mu.Lock()
	defer d.mu.Unlock()
	for k, v := range res {
		d.m[k] = v
	}
	return nil
}

// keyClient answers key requests with one fixed (remote) response.
type keyClient struct{ keys gmsl.ServerKeys }

func (c keyClient) GetServerKeys(ctx context.Context, s spec.ServerName) (gmsl.ServerKeys, error) {
	return c.keys, nil
}
func (c keyClient) LookupServerKeys(ctx context.Context, s spec.ServerName, reqs map[gmsl.PublicKeyLookupRequest]spec.Timestamp) ([]gmsl.ServerKeys, error) {
	return []gmsl.ServerKeys{c.keys}, nil
}

// staticKeyRing is a real KeyRing whose database already holds the harness' server keys.
func staticKeyRing() *gmsl.KeyRing {
	db := &memKeyDB{m: map[gmsl.PublicKeyLookupRequest]gmsl.PublicKeyLookupResult{}}
	for name, k := range serverKeys {
		db.m[gmsl.PublicKeyLookupRequest{ServerName: spec.ServerName(name), KeyID: "ed25519:1"}] = gmsl.PublicKeyLookupResult{
			VerifyKey:    gmsl.VerifyKey{Key: spec.Base64Bytes(k.Public().(edPub))},
			ValidUntilTS: spec.AsTimestamp(time.Now().Add(240 * time.Hour)), ExpiredTS: gmsl.PublicKeyNotExpired}
	}
	return &gmsl.KeyRing{KeyDatabase: db}
}

var theKeyRing *gmsl.KeyRing

// sharedKeyRing is ONE key ring used for all signature checks of a worker (state carried between calls).
func sharedKeyRing() *gmsl.KeyRing {
	if theKeyRing == nil {
		theKeyRing = staticKeyRing()
	}
	return theKeyRing
}

// ---------------------------------------------------------------- join client stub

type joinClient struct {
	make *fclient.RespMakeJoin
	send *fclient.RespSendJoin
	echo bool // send_join answers with the event it was sent
}

func (j joinClient) MakeJoin(ctx context.Context, origin, s spec.ServerName, roomID, userID string) (gmsl.MakeJoinResponse, error) {
	return j.make, nil
}
func (j joinClient) SendJoin(ctx context.Context, origin, s spec.ServerName, event gmsl.PDU) (gmsl.SendJoinResponse, error) {
	r := *j.send
	if j.echo {
		r.Event = event.JSON()
	}
	return &r, nil
}

// ---------------------------------------------------------------- the entry points

// DecodeTargets are the response / request bodies of the federation API that the library decodes.
var DecodeTargets = map[string]func() interface{}{
	"RespState":          func() interface{} { return &fclient.RespState{} },
	"RespStateIDs":       func() interface{} { return &fclient.RespStateIDs{} },
	"RespSendJoin":       func() interface{} { return &fclient.RespSendJoin{} },
	"RespMakeJoin":       func() interface{} { return &fclient.RespMakeJoin{} },
	"RespMakeLeave":      func() interface{} { return &fclient.RespMakeLeave{} },
	"RespMakeKnock":      func() interface{} { return &fclient.RespMakeKnock{} },
	"RespSendKnock":      func() interface{} { return &fclient.RespSendKnock{} },
	"RespPeek":           func() interface{} { return &fclient.RespPeek{} },
	"RespMissingEvents":  func() interface{} { return &fclient.RespMissingEvents{} },
	"RespEventAuth":      func() interface{} { return &fclient.RespEventAuth{} },
	"RespInvite":         func() interface{} { return &fclient.RespInvite{} },
	"RespInviteV2":       func() interface{} { return &fclient.RespInviteV2{} },
	"InviteV2Request":    func() interface{} { return &fclient.InviteV2Request{} },
	"InviteV3Request":    func() interface{} { return &fclient.InviteV3Request{} },
	"RespUserDevices":    func() interface{} { return &fclient.RespUserDevices{} },
	"RespQueryKeys":      func() interface{} { return &fclient.RespQueryKeys{} },
	"RespClaimKeys":      func() interface{} { return &fclient.RespClaimKeys{} },
	"RespSend":           func() interface{} { return &fclient.RespSend{} },
	"RespPublicRooms":    func() interface{} { return &fclient.RespPublicRooms{} },
	"RespDirectory":      func() interface{} { return &fclient.RespDirectory{} },
	"RoomHierarchy":      func() interface{} { return &fclient.RoomHierarchyResponse{} },
	"MSC2836Response":    func() interface{} { return &fclient.MSC2836EventRelationshipsResponse{} },
	"CrossSigningKey":    func() interface{} { return &fclient.CrossSigningKey{} },
	"CrossSigningForKey": func() interface{} { return &fclient.CrossSigningForKeyOrDevice{} },
	"Transaction":        func() interface{} { return &gmsl.Transaction{} },
	"ServerKeys":         func() interface{} { return &gmsl.ServerKeys{} },
	"ServerKeysList":     func() interface{} { return &struct{ ServerKeys []gmsl.ServerKeys `json:"server_keys"` }{} },
	"ProtoEvent":         func() interface{} { return &gmsl.ProtoEvent{} },
	"StrippedState":      func() interface{} { return &gmsl.InviteStrippedState{} },
	"DeviceListUpdate":   func() interface{} { return &gmsl.DeviceListUpdateEvent{} },
	"SendToDevice":       func() interface{} { return &gmsl.SendToDeviceEvent{} },
	"EDU":                func() interface{} { return &gmsl.EDU{} },
	"PowerLevelContent":  func() interface{} { return &gmsl.PowerLevelContent{} },
	"MemberContent":      func() interface{} { return &gmsl.MemberContent{} },
	"Base64Bytes":        func() interface{} { return &spec.Base64Bytes{} },
	"HexString":          func() interface{} { return &gmsl.HexString{} },
	"MatrixError":        func() interface{} { return &spec.MatrixError{} },
}

// RawEntryPoints lists the Raw entry points (Decode:* are derived from DecodeTargets).
var RawEntryPoints = []string{"Parse:untrusted", "Canonicalise:CanonicalJSON", "Canonicalise:Enforced", "RedactJSON",
	"VerifyJSON", "SignJSON", "ListKeyIDs", "CheckKeys", "KeyRing", "ParseAuthorization", "VerifyHTTPRequest", "HTTPRequest",
	"ParseIdentifier:NewRoomID", "ParseIdentifier:NewUserID", "ParseIdentifier:NewUserIDStrict", "ParseIdentifier:ServerName",
	"ParseIdentifier:SenderID", "ParseIdentifier:SplitID",
	"Body:CheckStateResponse", "Body:SendJoin", "Body:Transaction", "Body:PerformJoin", "Body:LoadAndVerify", "Body:Backfill", "Handle:InviteV3"}

// hasError says whether an entry point has an error channel (else only "ok" is a legal outcome).
func rawHasError(op string) bool {
	switch op {
	case "ParseAuthorization", "ParseIdentifier:SenderID":
		return false
	}
	return true
}

func (s *pipeState) rawOp(op, ver string, data []byte) outcome {
	now := time.Unix(1700000100, 0)
	impl := func() (gmsl.IRoomVersion, error) { return gmsl.GetRoomVersion(gmsl.RoomVersion(ver)) }
	switch op {
	case "Canonicalise:CanonicalJSON":
		return s.do(op, func() error { _, err := gmsl.CanonicalJSON(data); return err })
	case "Canonicalise:Enforced":
		return s.do(op, func() error { _, err := gmsl.EnforcedCanonicalJSON(data, gmsl.RoomVersion(ver)); return err })
	case "RedactJSON":
		return s.do(op, func() error {
			v, err := impl()
			if err != nil {
				return err
			}
			_, err = v.RedactEventJSON(data)
			return err
		})
	case "VerifyJSON":
		return s.do(op, func() error {
			return gmsl.VerifyJSON("hs1", "ed25519:1", serverKeys["hs1"].Public().(edPub), data)
		})
	case "SignJSON":
		return s.do(op, func() error { _, err := gmsl.SignJSON("hs1", "ed25519:1", serverKeys["hs1"], data); return err })
	case "ListKeyIDs":
		return s.do(op, func() error { _, err := gmsl.ListKeyIDs("hs1", data); return err })
	case "CheckKeys":
		return s.do(op, func() error {
			var keys gmsl.ServerKeys
			if err := json.Unmarshal(data, &keys); err != nil {
				return err
			}
			checks, ed := gmsl.CheckKeys("hs1", now, keys)
			for id := range ed {
				_ = keys.PublicKey(id, 0)
			}
			for id := range keys.OldVerifyKeys {
				_ = keys.PublicKey(id, 0)
			}
			_, _ = json.Marshal(keys)
			if !checks.AllChecksOK {
				return fmt.Errorf("checks failed")
			}
			return nil
		})
	case "KeyRing":
		return s.keyRing(data)
	case "ParseAuthorization":
		return s.dov(op, func() { fclient.ParseAuthorization(string(data)) })
	case "VerifyHTTPRequest":
		// data = the Authorization headers of the request, one per line ("<none>" = no such header)
		var headers []string
		if string(data) != "<none>" {
			headers = strings.Split(string(data), "\n")
		}
		verify := func(method, body string) error {
			var rd io.Reader
			if body != "" {
				rd = strings.NewReader(body)
			}
			req, err := http.NewRequest(method, "matrix://hs9/_matrix/federation/v1/send/1", rd)
			if err != nil {
				return err
			}
			if body != "" {
				req.Header.Set("Content-Type", "application/json")
			} else {
				req.Body = http.NoBody // a request received by a server always has a body (net/http)
			}
			if headers != nil {
				req.Header["Authorization"] = headers
			}
			_, resp := fclient.VerifyHTTPRequest(req, time.Now(), "hs9", nil, staticKeyRing())
			if resp.Code != 200 {
				return fmt.Errorf("status %d", resp.Code)
			}
			return nil
		}
		s.do(op, func() error { return verify("GET", "") })
		return s.do(op, func() error { return verify("PUT", `{"pdus":[]}`) })
	case "HTTPRequest":
		return s.do(op, func() error {
			req, err := http.ReadRequest(bufio.NewReader(bytes.NewReader(data)))
			if err != nil {
				return err
			}
			_, resp := fclient.VerifyHTTPRequest(req, time.Now(), "localhost:44033", func(n spec.ServerName) bool { return n == "localhost:44033" }, staticKeyRing())
			if resp.Code != 200 {
				return fmt.Errorf("status %d", resp.Code)
			}
			return nil
		})
	case "ParseIdentifier:NewRoomID":
		return s.do(op, func() error {
			r, err := spec.NewRoomID(string(data))
			if err == nil {
				_, _ = r.String(), r.OpaqueID()
			}
			return err
		})
	case "ParseIdentifier:NewUserID", "ParseIdentifier:NewUserIDStrict":
		return s.do(op, func() error {
			u, err := spec.NewUserID(string(data), op == "ParseIdentifier:NewUserID")
			if err == nil {
				_, _, _ = u.String(), u.Local(), u.Domain()
			}
			return err
		})
	case "ParseIdentifier:ServerName":
		return s.do(op, func() error {
			if _, _, ok := spec.ParseAndValidateServerName(spec.ServerName(data)); !ok {
				return fmt.Errorf("invalid")
			}
			return nil
		})
	case "ParseIdentifier:SenderID":
		return s.dov(op, func() { senderIDMethods(spec.SenderID(data)) })
	case "ParseIdentifier:SplitID":
		return s.do(op, func() error {
			var first error
			for _, sg := range []byte{'@', '!', '$', '#'} {
				if _, _, err := gmsl.SplitID(sg, string(data)); err != nil && first == nil {
					first = err
				}
			}
			return first
		})
	case "Body:CheckStateResponse":
		return s.do(op, func() error {
			var r fclient.RespState
			if err := json.Unmarshal(data, &r); err != nil {
				return err
			}
			_ = gmsl.LineariseStateResponse(gmsl.RoomVersion(ver), &r)
			_, _, err := gmsl.CheckStateResponse(bg, &r, gmsl.RoomVersion(ver), verifier{}, nil, userIDForSender)
			return err
		})
	case "Body:SendJoin":
		return s.do(op, func() error {
			var r fclient.RespSendJoin
			if err := json.Unmarshal(data, &r); err != nil {
				return err
			}
			c := roomFor(ver, roomOpts{})
			join, o := c.parse(withContentHash(marshalTree(c.subjectTree("member")), c.fmtV1))
			if o.Out != "ok" {
				fatalf("standard join does not parse")
			}
			_, err := gmsl.CheckSendJoinResponse(bg, gmsl.RoomVersion(ver), &r, verifier{}, join, nil, userIDForSender)
			return err
		})
	case "Body:Transaction":
		return s.do(op, func() error {
			var t gmsl.Transaction
			if err := json.Unmarshal(data, &t); err != nil {
				return err
			}
			v, err := impl()
			if err != nil {
				return err
			}
			for _, p := range t.PDUs {
				ev, err := v.NewEventFromUntrustedJSON(p)
				if err != nil {
					continue
				}
				_ = ev.EventID()
				_ = ev.RoomID()
				_ = gmsl.VerifyEventSignatures(bg, ev, verifier{}, userIDForSender)
			}
			for _, e := range t.EDUs {
				var du gmsl.DeviceListUpdateEvent
				var td gmsl.SendToDeviceEvent
				_ = json.Unmarshal(e.Content, &du)
				_ = json.Unmarshal(e.Content, &td)
			}
			return nil
		})
	case "Body:LoadAndVerify":
		return s.do(op, func() error {
			var raws []json.RawMessage
			if err := json.Unmarshal(data, &raws); err != nil {
				return err
			}
			l := gmsl.NewEventsLoader(gmsl.RoomVersion(ver), verifier{}, stubStateProvider{map[string]gmsl.PDU{}}, eventProviderOver(map[string]gmsl.PDU{}), false)
			_, err := l.LoadAndVerify(bg, raws, gmsl.TopologicalOrderByPrevEvents, userIDForSender)
			return err
		})
	case "Body:Backfill":
		return s.do(op, func() error {
			var t gmsl.Transaction
			if err := json.Unmarshal(data, &t); err != nil {
				return err
			}
			return backfill(gmsl.RoomVersion(ver), t.PDUs, nil)
		})
	case "Body:PerformJoin":
		return s.performJoin(ver, data)
	case "Handle:InviteV3":
		return s.handleInviteV3(ver, data)
	}
	if strings.HasPrefix(op, "Decode:") {
		mk, ok := DecodeTargets[op[7:]]
		if !ok {
			fatalf("unknown decode target %q", op)
		}
		return s.do(op, func() error {
			v := mk()
			if err := json.Unmarshal(data, v); err != nil {
				return err
			}
			_, err := json.Marshal(v)
			return err
		})
	}
	fatalf("unknown raw entry point %q", op)
	return outcome{}
}

// keyRing: a server's key response (remote) goes through DirectKeyFetcher / PerspectiveKeyFetcher into a KeyRing
// that then verifies a message signed with every key ID the response announces.
func (s *pipeState) keyRing(data []byte) outcome {
	return s.do("KeyRing", func() error {
		var keys gmsl.ServerKeys
		if err := json.Unmarshal(data, &keys); err != nil {
			return err
		}
		name := keys.ServerName
		sigs := map[string]string{}
		garbage := b64(bytes.Repeat([]byte{7}, 64))
		for id := range keys.VerifyKeys {
			sigs[string(id)] = garbage
		}
		for id := range keys.OldVerifyKeys {
			sigs[string(id)] = garbage
		}
		msg, _ := json.Marshal(map[string]interface{}{"a": 1, "signatures": map[string]interface{}{string(name): sigs}})
		var firstErr error
		keep := func(res []gmsl.VerifyJSONResult, err error) {
			for i := 0; err == nil && i < len(res); i++ {
				err = res[i].Error
			}
			if firstErr == nil {
				firstErr = err
			}
		}
		unknown, _ := json.Marshal(map[string]interface{}{"a": 1, "signatures": map[string]interface{}{string(name): map[string]string{"ed25519:unknown": garbage}}})
		req := func(n spec.ServerName, m []byte) gmsl.VerifyJSONRequest {
			return gmsl.VerifyJSONRequest{ServerName: n, AtTS: 1000, Message: m, ValidityCheckingFunc: gmsl.NoStrictValidityCheck}
		}
		for _, fetcher := range []gmsl.KeyFetcher{
			&gmsl.DirectKeyFetcher{Client: keyClient{keys}, IsLocalServerName: func(spec.ServerName) bool { return false }},
			&gmsl.PerspectiveKeyFetcher{PerspectiveServerName: "hs1", PerspectiveServerKeys: map[gmsl.KeyID]ed25519.PublicKey{"ed25519:1": serverKeys["hs1"].Public().(edPub)}, Client: keyClient{keys}},
		} {
			// ONE key ring for a sequence of requests: what the first request stored is what the later ones meet
			ring := gmsl.KeyRing{KeyFetchers: []gmsl.KeyFetcher{fetcher}, KeyDatabase: &memKeyDB{m: map[gmsl.PublicKeyLookupRequest]gmsl.PublicKeyLookupResult{}}}
			keep(ring.VerifyJSONs(bg, []gmsl.VerifyJSONRequest{req(name, msg)}))
			keep(ring.VerifyJSONs(bg, []gmsl.VerifyJSONRequest{req(name, msg)}))                       // the same again: keys now come from the database
			keep(ring.VerifyJSONs(bg, []gmsl.VerifyJSONRequest{req(name, unknown)}))                   // a key ID the response did not announce
			keep(ring.VerifyJSONs(bg, []gmsl.VerifyJSONRequest{req("hs7", msg), req(name, msg)}))      // a server the response does not cover, mixed with one it covers
			keep(ring.VerifyJSONs(bg, []gmsl.VerifyJSONRequest{req(name, msg), req(name, msg)}))       // the same request twice in one batch
			keep(ring.VerifyJSONs(bg, []gmsl.VerifyJSONRequest{req(name, []byte(`{"signatures":5}`))})) // a message without usable signatures, then the good one again
			keep(ring.VerifyJSONs(bg, []gmsl.VerifyJSONRequest{req(name, msg)}))
		}
		return firstErr
	})
}

// performJoin: data = {"make_join": <body>, "send_join": <body>, "echo": bool}: both bodies come from the remote server.
func (s *pipeState) performJoin(ver string, data []byte) outcome {
	return s.do("Body:PerformJoin", func() error {
		var in struct {
			Make json.RawMessage `json:"make_join"`
			Send json.RawMessage `json:"send_join"`
			Echo bool            `json:"echo"`
			Room string          `json:"room"`
		}
		if err := json.Unmarshal(data, &in); err != nil {
			return err
		}
		var mk fclient.RespMakeJoin
		var sj fclient.RespSendJoin
		if err := json.Unmarshal(in.Make, &mk); err != nil {
			return err
		}
		if err := json.Unmarshal(in.Send, &sj); err != nil {
			return err
		}
		user, _ := spec.NewUserID("@carol:hs2", true)
		room, err := spec.NewRoomID(in.Room)
		if err != nil {
			room, _ = spec.NewRoomID("!room:hs1")
		}
		_, ferr := gmsl.PerformJoin(bg, joinClient{&mk, &sj, in.Echo}, gmsl.PerformJoinInput{
			UserID: user, RoomID: room, ServerName: "hs1", PrivateKey: serverKeys["hs2"], KeyID: "ed25519:1", KeyRing: staticKeyRing(),
			EventProvider: eventProviderOver(map[string]gmsl.PDU{}), UserIDQuerier: userIDForSender,
			GetOrCreateSenderID: func(ctx context.Context, u spec.UserID, r spec.RoomID, v string) (spec.SenderID, ed25519.PrivateKey, error) {
				return spec.SenderID(pseudoID("carol")), userKeys["carol"], nil
			},
			StoreSenderIDFromPublicID: func(ctx context.Context, senderID spec.SenderID, userID string, id spec.RoomID) error { return nil },
		})
		if ferr != nil {
			return ferr
		}
		return nil
	})
}
