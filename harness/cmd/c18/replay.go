package main

// Execution of Lifecycle_gen.tla records (spec -> code).

import (
	"bytes"
	"encoding/base64"
	"encoding/json"
	"fmt"
	"sort"
	"strings"

	gmsl "github.com/matrix-org/gomatrixserverlib"
	"verifharness/hx"
)

// rec is one pipeline emitted by Lifecycle_gen.tla.
type rec struct {
	Fam  string   `json:"fam"`  // "event" | "raw" | "join"
	Ver  string   `json:"ver"`  // room version
	Type string   `json:"type"` // subject type (event) / input kind (raw)
	P1   string   `json:"p1"`
	K1   string   `json:"k1"`
	C1   string   `json:"c1"`
	P2   string   `json:"p2"`
	K2   string   `json:"k2"`
	C2   string   `json:"c2"`
	Ops  []string `json:"ops"`
	PV   string   `json:"pv"`   // what the specification fixes about parsing this subject: must | mustnot | may
	Kind string   `json:"kind"` // probes of the mutational driver only
}

func (r *rec) faults() []fault {
	var fs []fault
	for _, f := range []fault{{r.P1, r.K1, r.C1}, {r.P2, r.K2, r.C2}} {
		if !f.none() {
			fs = append(fs, f)
		}
	}
	return fs
}

func classKey(fs []fault) string {
	if len(fs) == 0 {
		return "wellformed"
	}
	var parts []string
	for _, f := range fs {
		p := strings.TrimPrefix(f.Path, "top/")
		p = strings.ReplaceAll(p, "/", ".")
		parts = append(parts, p+"="+f.Cls)
	}
	sort.Strings(parts)
	return strings.Join(parts, "&")
}

func show(b []byte) string {
	if len(b) > 1500 {
		return fmt.Sprintf("%q...(%d bytes)", b[:1400], len(b))
	}
	return fmt.Sprintf("%q", b)
}

// signerOf is the abstract user whose server signs the subject of a type.
func signerOf(typ string) string {
	switch typ {
	case "member":
		return "carol"
	case "member_tpi", "third_party_invite", "aliases":
		return "alice"
	case "redaction", "message":
		return "bob"
	}
	return "creator"
}

// buildSubject realises the subject event of a record: the context room and the bytes "as received".
func buildSubject(ver, typ string, fs []fault) (*roomCtx, []byte, error) {
	room := roomFor(ver, roomOpts{})
	fs = room.resolveShapes(fs)
	// a room ID fault that is a string: the whole room has that ID, if the standard events still parse
	for _, f := range fs {
		if f.Path == "top/room_id" && !room.domainless {
			raw, absent := classValue(f.Kind, f.Cls, nil)
			var s string
			if !absent && json.Unmarshal(raw, &s) == nil && s != "" {
				if r2 := roomFor(ver, roomOpts{roomID: s}); r2 != nil {
					room = r2
				}
			}
		}
	}
	t := room.subjectTree(typ)
	var late []fault // faults on the content hash itself are applied after the hash has been computed
	var textual []fault
	for _, f := range fs {
		if strings.HasPrefix(f.Path, "top/hashes") {
			late = append(late, f)
			continue
		}
		if strings.HasPrefix(f.Path, "dupfirst/") || strings.HasPrefix(f.Path, "duplast/") || f.Path == "spelling" {
			textual = append(textual, f)
			continue
		}
		if !room.applyFault(t, f) {
			return nil, nil, fmt.Errorf("fault %v cannot be applied to a %s event", f, typ)
		}
	}
	text := marshalTree(t)
	for _, f := range textual { // a top level key written twice: once well formed, once not
		if f.Path == "spelling" {
			continue
		}
		first := strings.HasPrefix(f.Path, "dupfirst/")
		key := f.Path[strings.Index(f.Path, "/")+1:]
		var v json.RawMessage
		absent := false
		if f.Cls == "collide" {
			v = jstr(room.ids["pl"])
		} else {
			v, absent = classValue(f.Kind, f.Cls, rawOf(lookup(t, []string{key})))
		}
		if absent || len(text) < 2 {
			continue
		}
		if first {
			text = append([]byte(`{`+string(jstr(key))+`:`+string(v)+`,`), text[1:]...)
		} else {
			text = append(append([]byte{}, text[:len(text)-1]...), []byte(`,`+string(jstr(key))+`:`+string(v)+`}`)...)
		}
	}
	raw := withContentHash(text, room.fmtV1)
	for _, f := range textual {
		if f.Path == "spelling" {
			raw = respell(raw, f.Cls)
		}
	}
	if len(late) > 0 {
		var hashed struct {
			Hashes json.RawMessage `json:"hashes"`
		}
		if json.Unmarshal(raw, &hashed) == nil && hashed.Hashes != nil {
			var h tree
			if json.Unmarshal(hashed.Hashes, &h) == nil {
				t["hashes"] = h
			}
		}
		for _, f := range late {
			if !room.applyFault(t, f) {
				return nil, nil, fmt.Errorf("fault %v cannot be applied to a %s event", f, typ)
			}
		}
		raw = marshalTree(t)
	}
	if typ == "create" && len(fs) > 0 {
		if r2 := roomFor(ver, roomOpts{create: raw}); r2 != nil {
			room = r2
		}
	}
	return room, raw, nil
}

// resolveShapes realises the room-ID classes that depend on the room itself (Lifecycle.tla, ShapeClasses): the ID
// that the domain-less family of room versions derives for this very room - "!" followed by the create event's ID
// without its sigil - bare and followed by a domain. The faults are returned with a literal class ("v:<string>"):
// finding keys are made from the caller's abstract classes.
func (c *roomCtx) resolveShapes(fs []fault) []fault {
	var out []fault
	for i, f := range fs {
		lit := ""
		switch f.Cls {
		case "opaque_create":
			lit = "!" + strings.TrimPrefix(c.ids["create"], "$")
		case "opaque_create_domain":
			lit = "!" + strings.TrimPrefix(c.ids["create"], "$") + ":hs1"
		}
		if lit == "" || f.Kind != "room" {
			continue
		}
		if out == nil {
			out = append([]fault(nil), fs...)
		}
		out[i].Cls = "v:" + lit
	}
	if out == nil {
		return fs
	}
	return out
}

// respell re-encodes a JSON document in a valid but unusual spelling: the values do not change.
func respell(doc []byte, style string) []byte {
	dec := json.NewDecoder(strings.NewReader(string(doc)))
	dec.UseNumber()
	var v interface{}
	if err := dec.Decode(&v); err != nil {
		return doc
	}
	esc := func(s string, all bool) string {
		var b strings.Builder
		b.WriteByte('"')
		for _, r := range s {
			switch {
			case r < 0x10000 && (all || r < 0x20 || r == '"' || r == '\\'):
				fmt.Fprintf(&b, `\u%04x`, r)
			case r == '/' && style == "escaped_strings":
				b.WriteString(`\/`)
			default:
				b.WriteString(string(r))
			}
		}
		b.WriteByte('"')
		return b.String()
	}
	var enc func(v interface{}, depth int) string
	enc = func(v interface{}, depth int) string {
		nl, sp := "", ""
		if style == "pretty" {
			nl, sp = "\r\n"+strings.Repeat("\t ", depth+1), " "
		}
		switch x := v.(type) {
		case map[string]interface{}:
			keys := make([]string, 0, len(x))
			for k := range x {
				keys = append(keys, k)
			}
			sort.Strings(keys)
			if style == "reversed" {
				sort.Sort(sort.Reverse(sort.StringSlice(keys)))
			}
			parts := make([]string, 0, len(keys))
			for _, k := range keys {
				parts = append(parts, nl+esc(k, style == "escaped_keys")+sp+":"+sp+enc(x[k], depth+1))
			}
			return "{" + strings.Join(parts, ",") + nl + "}"
		case []interface{}:
			parts := make([]string, 0, len(x))
			for _, e := range x {
				parts = append(parts, nl+enc(e, depth+1))
			}
			return "[" + strings.Join(parts, ",") + nl + "]"
		case string:
			return esc(x, style == "escaped_strings")
		case json.Number:
			return x.String()
		}
		b, _ := json.Marshal(v)
		return string(b)
	}
	return []byte(enc(v, 0))
}

type resultExtra struct {
	Findings []finding `json:"findings,omitempty"`
	Input    string    `json:"input,omitempty"`
	Steps    []step    `json:"steps,omitempty"`
	Parsed   string    `json:"parsed,omitempty"`
	Machine  string    `json:"machine,omitempty"` // harness / specification mismatch: a machinery error, never a verdict
}

func finish(s *pipeState, r *rec, parsed string) hx.Result {
	outs := make([]string, 0, len(s.steps))
	for _, st := range s.steps {
		outs = append(outs, st.Out)
	}
	nt := fmt.Sprintf("%s|%s|%s|%s|%s|%s", r.Fam, r.Type, s.class, strings.Join(r.Ops, ">"), parsed, compress(outs))
	if len(s.panics) == 0 {
		return hx.Result{OK: true, NT: nt, Extra: resultExtra{Parsed: parsed}}
	}
	f := s.panics[0]
	what := fmt.Sprintf("%s panicked (%s) in operation %s; room version %s, pipeline %v, input class %s, concrete input %s",
		f.Func, f.Value, f.Op, r.Ver, r.Ops, s.class, show(s.raw))
	if f.Site != f.Func {
		what = fmt.Sprintf("%s let a panic happen in %s (%s) in operation %s; room version %s, pipeline %v, input class %s, concrete input %s",
			f.Func, f.Site, f.Value, f.Op, r.Ver, r.Ops, s.class, show(s.raw))
	}
	return hx.Result{OK: false, NT: nt, Key: f.Key, What: what, Panic: f.Value,
		Extra: resultExtra{Findings: s.panics, Input: base64.StdEncoding.EncodeToString(s.raw), Steps: s.steps, Parsed: parsed}}
}

// compress turns ok,ok,ok,error into ok*3,error.
func compress(outs []string) string {
	var b strings.Builder
	for i := 0; i < len(outs); {
		j := i
		for j < len(outs) && outs[j] == outs[i] {
			j++
		}
		if b.Len() > 0 {
			b.WriteByte(',')
		}
		b.WriteString(outs[i])
		if j-i > 1 {
			fmt.Fprintf(&b, "*%d", j-i)
		}
		i = j
	}
	return b.String()
}

func machine(msg string) hx.Result {
	return hx.Result{OK: true, NT: "machine", Extra: resultExtra{Machine: msg}}
}

func execRecord(i int, raw json.RawMessage) hx.Result {
	var r rec
	if err := json.Unmarshal(raw, &r); err != nil {
		fatalf("bad record: %v", err)
	}
	switch r.Fam {
	case "event":
		return execEvent(&r)
	case "raw":
		return execRaw(&r)
	case "join":
		return execJoin(&r)
	}
	fatalf("unknown family %q", r.Fam)
	return hx.Result{}
}

// runEventPipeline executes one pipeline on the subject with the given faults.
func runEventPipeline(r *rec, fs []fault) (s *pipeState, parsed string, mach string) {
	room, raw, err := buildSubject(r.Ver, r.Type, fs)
	if err != nil {
		return nil, "", err.Error()
	}
	pv := r.PV
	if len(fs) != len(r.faults()) {
		pv = "may" // a reduced subject (minimisation): the verdict of the record does not apply
	}
	s = &pipeState{room: room, typ: r.Type, class: classKey(fs), raw: raw, signer: signerOf(r.Type)}
	parsed = "raw"
	for k, op := range r.Ops {
		if k == 0 {
			if op != "Parse:untrusted" && op != "Parse:trusted" && op != "Parse:headered" {
				fatalf("pipeline does not start with a parse: %v", r.Ops)
			}
			ev, o := room.parse(raw)
			if op != "Parse:untrusted" && o.Out == "ok" {
				// the sibling constructors get bytes that the untrusted parser has accepted (an application
				// that stores what it received and loads it again)
				gate := ev
				o = call(func() error {
					var err error
					if op == "Parse:trusted" {
						ev, err = room.impl.NewEventFromTrustedJSON(raw, gate.Redacted())
					} else {
						var h []byte
						if h, err = gate.ToHeaderedJSON(); err == nil {
							ev, err = gmsl.NewEventFromHeaderedJSON(h, gate.Redacted())
						}
					}
					return err
				})
			}
			s.note(op, o)
			if o.Out != "ok" {
				parsed = o.Out
				if pv == "must" && o.Out == "error" {
					return s, parsed, fmt.Sprintf("the specification says a well-formed %s event parses in room version %s, the library says: %s; input %s", r.Type, r.Ver, o.Err, show(raw))
				}
				break
			}
			if pv == "mustnot" {
				return s, parsed, fmt.Sprintf("the specification says parsing rejects a %s event with %s in room version %s, the library accepts it; input %s", r.Type, classKey(fs), r.Ver, show(raw))
			}
			s.cur = ev
			parsed = "parsed"
			var red bool
			if pi := guard(func() { red = ev.Redacted() }); pi == nil && red {
				parsed = "parsed-redacted"
				if pv == "must" {
					return s, parsed, fmt.Sprintf("well-formed %s event of room version %s parsed as redacted (content hash computed by the harness is wrong): %s", r.Type, r.Ver, show(raw))
				}
			}
			continue
		}
		s.runOp(op)
	}
	return s, parsed, ""
}

// subsets of the faults of a record, smallest first (the full set excluded)
func properSubsets(fs []fault) [][]fault {
	out := [][]fault{{}}
	if len(fs) == 2 {
		out = append(out, []fault{fs[0]}, []fault{fs[1]})
	}
	return out
}

func execEvent(r *rec) hx.Result {
	fs := r.faults()
	s, parsed, mach := runEventPipeline(r, fs)
	if mach != "" {
		return machine(mach)
	}
	// canonical class of every finding: the smallest subset of the faults that makes the same function panic
	// under the same pipeline (a crash that the well-formed subject shows too is keyed `wellformed`)
	if len(s.panics) > 0 && len(fs) > 0 {
		var reduced []*pipeState
		for _, sub := range properSubsets(fs) {
			if s2, _, m2 := runEventPipeline(r, sub); m2 == "" && s2 != nil {
				reduced = append(reduced, s2)
			}
		}
		for i := range s.panics {
			for _, s2 := range reduced {
				hit := false
				for _, f2 := range s2.panics {
					if f2.Func == s.panics[i].Func {
						hit = true
					}
				}
				if hit {
					s.panics[i].Key = "C18/panic/" + s.panics[i].Func + "/" + s2.class
					break
				}
			}
		}
	}
	return finish(s, r, parsed)
}

// ---------------------------------------------------------------- raw family

var validIDs = map[string]string{"room": "!room:hs1", "user": "@alice:hs1", "event": "$ev:hs1", "server": "hs1"}

func docClass(cls string) []byte {
	switch cls {
	case "empty_doc":
		return []byte{}
	case "space":
		return []byte("  \n")
	case "truncated":
		return []byte(`{"a":`)
	case "minus":
		return []byte(`-`)
	case "minus_in":
		return []byte(`{"a":-}`)
	case "lone_escape":
		return []byte(`"\`)
	case "unicode_trunc":
		return []byte(`"\u12`)
	case "unicode_trunc_in":
		return []byte(`{"a":"\u12"}`)
	case "surrogate_trunc":
		return []byte(`{"a":"\ud800\u"}`)
	case "surrogate_pair_trunc":
		return []byte(`{"a":"\ud800\udc0"}`)
	case "surrogate_lone":
		return []byte(`{"a":"\ud800"}`)
	case "surrogate_then_char":
		return []byte(`{"a":"\ud800x"}`)
	case "dupkeys":
		return []byte(`{"a":1,"a":{"b":2},"a":[3]}`)
	case "bom":
		return []byte("\xef\xbb\xbf{}")
	case "trailing":
		return []byte(`{} x`)
	case "ctrl_in_string":
		return []byte("{\"a\":\"\x01\"}")
	case "key_128":
		var b strings.Builder
		b.WriteString("{")
		for i := 0; i < 200; i++ {
			if i > 0 {
				b.WriteString(",")
			}
			fmt.Fprintf(&b, `"k%03d":%d`, 199-i, i)
		}
		b.WriteString("}")
		return []byte(b.String())
	case "escapes_ascii", "escapes_ascii_key":
		// every ASCII code point spelled as a six-character unicode escape (valid JSON, unusual spelling)
		var b strings.Builder
		for i := 0; i < 0x80; i++ {
			fmt.Fprintf(&b, `\u%04x`, i)
		}
		if cls == "escapes_ascii_key" {
			return []byte(`{"` + b.String() + `":1}`)
		}
		return []byte(`{"a":"` + b.String() + `"}`)
	case "escapes_upper":
		// upper-case hex digits and the two-character escapes
		return []byte(`{"a":"\u000A\u001F\u007F\u00E9\b\f\n\r\t\"\\\/"}`)
	case "escapes_wide":
		// boundaries of the UTF-8 encoding lengths, line separators, a surrogate pair, the last code point
		return []byte(`{"a":"\u007f\u0080\u07ff\u0800\u2028\u2029\ud7ff\ue000\ufffd\uffff\ud83d\ude00\udbff\udfff"}`)
	case "wellformed":
		return []byte(`{"b":[1,2,{"c":null}],"a":"x","signatures":{"hs1":{"ed25519:1":"AAAA"}},"unsigned":{"age":1}}`)
	}
	if raw, ok := jsonClass(cls); ok {
		return raw
	}
	fatalf("unknown document class %q", cls)
	return nil
}

func signedDoc(cls string) []byte {
	doc := tree{"a": 1, "b": tree{"c": "d"}}
	good, err := gmsl.SignJSON("hs1", "ed25519:1", serverKeys["hs1"], marshalTree(doc))
	if err != nil {
		panic(err)
	}
	var g struct {
		Signatures map[string]map[string]string `json:"signatures"`
	}
	_ = json.Unmarshal(good, &g)
	sig := g.Signatures["hs1"]["ed25519:1"]
	set := func(v interface{}) []byte { doc["signatures"] = v; return marshalTree(doc) }
	switch cls {
	case "valid":
		return good
	case "missing":
		return marshalTree(doc)
	case "wrong_server":
		return set(tree{"hs2": tree{"ed25519:1": sig}})
	case "wrong_key":
		return set(tree{"hs1": tree{"ed25519:2": sig}})
	case "short":
		return set(tree{"hs1": tree{"ed25519:1": "AAAA"}})
	case "long":
		return set(tree{"hs1": tree{"ed25519:1": sig + "AAAA"}})
	case "empty":
		return set(tree{"hs1": tree{"ed25519:1": ""}})
	case "bad_b64":
		return set(tree{"hs1": tree{"ed25519:1": "!!!!"}})
	case "sig_number":
		return set(tree{"hs1": tree{"ed25519:1": 5}})
	case "server_null":
		return set(tree{"hs1": nil})
	case "server_string":
		return set(tree{"hs1": "x"})
	case "tampered":
		doc["a"] = 2
		return set(tree{"hs1": tree{"ed25519:1": sig}})
	case "two_keys_good_first":
		return set(tree{"hs1": tree{"ed25519:1": sig, "ed25519:2": "AAAA"}})
	case "two_keys_bad_only":
		return set(tree{"hs1": tree{"ed25519:0": "AAAA", "ed25519:2": garbageSig}})
	case "two_servers":
		return set(tree{"hs1": tree{"ed25519:1": sig}, "hs2": tree{"ed25519:1": garbageSig}, "": tree{"": ""}})
	case "padded":
		return set(tree{"hs1": tree{"ed25519:1": sig + "=="}})
	}
	raw, absent := classValue("json", cls, nil)
	if absent {
		return marshalTree(doc)
	}
	return set(raw)
}

// keyResponse builds a /key/v2/server response of server hs1, signed with its real key.
func keyResponse(vk, ok string) []byte {
	pub := serverKeys["hs1"].Public().(edPub)
	keyOf := func(cls string) (interface{}, bool) {
		switch cls {
		case "none":
			return nil, false
		case "valid":
			return tree{"key": b64(pub)}, true
		case "short":
			return tree{"key": "AAAA"}, true
		case "len31":
			return tree{"key": b64(pub[:31])}, true
		case "len33":
			return tree{"key": b64(append(append([]byte{}, pub...), 0))}, true
		case "len64":
			return tree{"key": b64(append(append([]byte{}, pub...), pub...))}, true
		case "empty":
			return tree{"key": ""}, true
		case "bad_b64":
			return tree{"key": "!!!"}, true
		case "key_missing":
			return tree{}, true
		case "key_null":
			return tree{"key": nil}, true
		case "key_number":
			return tree{"key": 5}, true
		case "entry_null":
			return nil, true
		case "entry_string":
			return "x", true
		}
		fatalf("unknown key class %q", cls)
		return nil, false
	}
	doc := tree{"server_name": "hs1", "valid_until_ts": 4102444800000, "verify_keys": tree{"ed25519:1": tree{"key": b64(pub)}}}
	if v, ok := keyOf(vk); ok && vk != "valid" {
		doc["verify_keys"].(tree)["ed25519:x"] = v
	}
	oldID := "ed25519:old"
	if strings.HasPrefix(ok, "dup_") { // the ID of the current key listed among the old keys as well
		oldID, ok = "ed25519:1", ok[4:]
	}
	if v, present := keyOf(ok); present {
		if m, isObj := v.(tree); isObj {
			m["expired_ts"] = 4102444800000
		}
		doc["old_verify_keys"] = tree{oldID: v}
	}
	signed, err := gmsl.SignJSON("hs1", "ed25519:1", serverKeys["hs1"], marshalTree(doc))
	if err != nil {
		return marshalTree(doc)
	}
	return signed
}

// keyIDOf: the concrete key ID of a KeyIdShapes class (spec/Lifecycle.tla).
func keyIDOf(shape string) string {
	switch shape {
	case "alg_only":
		return "ed25519"
	case "alg_colon":
		return "ed25519:"
	case "colon_ver":
		return ":1"
	case "colon_only":
		return ":"
	case "empty":
		return ""
	case "two_colons":
		return "ed25519:a:b"
	case "alg_prefix":
		return "ed25519ph:1"
	case "alg_suffix":
		return "xed25519"
	case "other_alg_only":
		return "curve25519"
	case "other_alg":
		return "curve25519:1"
	case "upper":
		return "ED25519"
	case "space":
		return "ed25519 "
	case "long":
		return "ed25519" + strings.Repeat("k", 70000)
	case "nul":
		return "ed25519\x00:1"
	case "nonascii":
		return "ed25519\u00e9"
	}
	fatalf("unknown key ID shape %q", shape)
	return ""
}

// keyIDResponse builds a /key/v2/server response of server hs1 one of whose members has a key ID of the given shape
// and a key of the given length class; place: next to the usual key ("verify"), as the only verify key with the
// response signed under that very ID ("verify_alone"), among the old keys ("old"), in both objects ("both").
func keyIDResponse(place, shape, length string) []byte {
	pub := []byte(serverKeys["hs1"].Public().(edPub))
	id := keyIDOf(shape)
	var entry tree
	switch length {
	case "len32":
		entry = tree{"key": b64(pub)}
	case "len32_other":
		entry = tree{"key": b64(bytes.Repeat([]byte{9}, 32))}
	case "len31":
		entry = tree{"key": b64(pub[:31])}
	case "len33":
		entry = tree{"key": b64(append(append([]byte{}, pub...), 0))}
	case "len64":
		entry = tree{"key": b64(append(append([]byte{}, pub...), pub...))}
	case "len0":
		entry = tree{"key": ""}
	case "bad_b64":
		entry = tree{"key": "!!!"}
	case "key_null":
		entry = tree{"key": nil}
	case "key_missing":
		entry = tree{}
	default:
		fatalf("unknown key length class %q", length)
	}
	copyOf := func(old bool) tree {
		c := tree{}
		for k, v := range entry {
			c[k] = v
		}
		if old {
			c["expired_ts"] = 4102444800000
		}
		return c
	}
	doc := tree{"server_name": "hs1", "valid_until_ts": 4102444800000, "old_verify_keys": tree{}}
	usual := tree{"ed25519:1": tree{"key": b64(pub)}}
	signAs := []string{"ed25519:1"}
	switch place {
	case "verify":
		usual[id] = copyOf(false)
		doc["verify_keys"] = usual
		signAs = append(signAs, id)
	case "verify_alone":
		doc["verify_keys"] = tree{id: copyOf(false)}
		signAs = []string{id}
	case "old":
		doc["verify_keys"] = usual
		doc["old_verify_keys"] = tree{id: copyOf(true)}
	case "both":
		usual[id] = copyOf(false)
		doc["verify_keys"] = usual
		doc["old_verify_keys"] = tree{id: copyOf(true)}
	default:
		fatalf("unknown key ID place %q", place)
	}
	out := marshalTree(doc)
	for _, k := range signAs {
		if signed, err := gmsl.SignJSON("hs1", gmsl.KeyID(k), serverKeys["hs1"], out); err == nil {
			out = signed
		}
	}
	return out
}

func headerClass(cls string) string {
	good := `X-Matrix origin="hs1",key="ed25519:1",sig="` + b64(make([]byte, 64)) + `",destination="hs9"`
	switch cls {
	case "valid":
		return good
	case "empty":
		return ""
	case "scheme_only":
		return "X-Matrix"
	case "scheme_space":
		return "X-Matrix "
	case "other_scheme":
		return "Bearer abc"
	case "no_eq":
		return "X-Matrix origin,key,sig"
	case "empty_values":
		return `X-Matrix origin=,key=,sig=`
	case "only_quotes":
		return `X-Matrix origin=",key="",sig="""`
	case "commas":
		return "X-Matrix ,,,,"
	case "dup_origin":
		return good + `,origin="hs2"`
	case "bad_origin":
		return `X-Matrix origin="b c",key="ed25519:1",sig="AAAA"`
	case "long":
		return "X-Matrix origin=" + strings.Repeat("a", 70000) + ",key=k,sig=s"
	case "nul":
		return "X-Matrix origin=\"a\x00b\",key=\"k\",sig=\"s\""
	case "unicode":
		return "X-Matrix origin=\"é\",key=\"ключ\",sig=\"\xff\""
	case "eq_only":
		return "X-Matrix ="
	case "short_sig":
		return `X-Matrix origin="hs1",key="ed25519:1",sig="AAAA",destination="hs9"`
	case "bad_sig":
		return `X-Matrix origin="hs1",key="ed25519:1",sig="!!!",destination="hs9"`
	case "unknown_key":
		return `X-Matrix origin="hs1",key="ed25519:zz",sig="AAAA",destination="hs9"`
	case "other_alg":
		return `X-Matrix origin="hs1",key="rsa:1",sig="AAAA",destination="hs9"`
	case "unknown_origin":
		return `X-Matrix origin="hs7",key="ed25519:1",sig="AAAA",destination="hs9"`
	case "other_destination":
		return `X-Matrix origin="hs1",key="ed25519:1",sig="AAAA",destination="hs3"`
	}
	fatalf("unknown header class %q", cls)
	return ""
}

// headerLines realises a sequence of abstract Authorization headers ("none", or items separated by "|":
// "other", "xm:<origin a|A|b>:<key k1|k2>:<destination d|n|x>") as one header per line.
func headerLines(name string) string {
	if name == "none" {
		return "<none>"
	}
	var out []string
	for _, it := range strings.Split(name, "|") {
		if it == "other" {
			out = append(out, "Bearer abc")
			continue
		}
		p := strings.Split(it, ":")
		if len(p) != 4 || p[0] != "xm" {
			fatalf("bad header item %q", it)
		}
		origin := map[string]string{"a": "hs1", "A": "HS1", "b": "hs2"}[p[1]]
		key := map[string]string{"k1": "ed25519:1", "k2": "ed25519:2"}[p[2]]
		h := `X-Matrix origin="` + origin + `",key="` + key + `",sig="` + b64(make([]byte, 64)) + `"`
		switch p[3] {
		case "d":
			h += `,destination="hs9"`
		case "x":
			h += `,destination="hs3"`
		case "s": // the destination is the origin itself
			h += `,destination="` + origin + `"`
		}
		out = append(out, h)
	}
	return strings.Join(out, "\n")
}

// headersClass is the canonical class of a header sequence: how many of the headers are X-Matrix and how their
// origins / key IDs relate.
func headersClass(name string) string {
	if name == "none" {
		return "headers:n=0"
	}
	items := strings.Split(name, "|")
	var origins, keys, dests []string
	for _, it := range items {
		if p := strings.Split(it, ":"); len(p) == 4 {
			origins, keys, dests = append(origins, p[1]), append(keys, p[2]), append(dests, p[3])
		}
	}
	rel := func(xs []string, fold bool) string {
		same, sameFold := true, true
		for _, x := range xs {
			if x != xs[0] {
				same = false
			}
			if !strings.EqualFold(x, xs[0]) {
				sameFold = false
			}
		}
		switch {
		case len(xs) < 2:
			return "single"
		case same:
			return "same"
		case fold && sameFold:
			return "case-only"
		}
		return "different"
	}
	if len(origins) == 0 {
		return "headers:xmatrix=0"
	}
	_ = dests // the destinations are part of the concrete input, not of the class
	return fmt.Sprintf("headers:xmatrix=%d;origins=%s;keys=%s", len(origins), rel(origins, true), rel(keys, false))
}

func rawInput(r *rec) []byte {
	switch r.Type {
	case "ident":
		if r.C1 == "valid" {
			return []byte(validIDs[r.K1])
		}
		raw, absent := classValue(r.K1, r.C1, jstr(validIDs[r.K1]))
		var s string
		if absent || json.Unmarshal(raw, &s) != nil {
			fatalf("identifier class %q is not a string", r.C1)
		}
		return []byte(s)
	case "json", "body":
		return docClass(r.C1)
	case "signed":
		return signedDoc(r.C1)
	case "keys":
		return keyResponse(r.C1, r.C2)
	case "keyid":
		return keyIDResponse(r.K1, r.C1, r.C2)
	case "header":
		return []byte(headerClass(r.C1))
	case "headers":
		return []byte(headerLines(r.C1))
	case "event":
		raw, _ := rawEventInput(r)
		return raw
	}
	fatalf("unknown raw input kind %q", r.Type)
	return nil
}

// rawEventInput: the event JSON of a raw-family record and the room it belongs to (for a create event that parses:
// the room built around it).
func rawEventInput(r *rec) ([]byte, *roomCtx) {
	var fs []fault
	if f := (fault{r.P1, r.K1, r.C1}); !f.none() {
		fs = append(fs, f)
	}
	room, raw, err := buildSubject(r.Ver, r.P2, fs)
	if err != nil {
		fatalf("%v", err)
	}
	return raw, room
}

func execRaw(r *rec) hx.Result {
	data := rawInput(r)
	cls := r.Type + ":" + r.C1
	if r.Type == "keys" {
		cls = "keys:verify_key=" + r.C1 + "&old_verify_key=" + r.C2
	}
	if r.Type == "keyid" {
		cls = "keys:key_id=" + r.C1 + "&key=" + r.C2 + "&in=" + r.K1
	}
	if r.Type == "ident" {
		cls = "ident:" + r.K1 + "=" + r.C1
	}
	if r.Type == "event" {
		cls = "event-json:" + classKey([]fault{{r.P1, r.K1, r.C1}})
	}
	if r.Type == "headers" {
		cls = headersClass(r.C1)
	}
	s := &pipeState{class: cls, raw: data}
	for _, op := range r.Ops {
		in := data
		if r.Type == "event" && strings.HasPrefix(op, "Body:") {
			in = wrapInBody(op, r.Ver, data) // the event JSON as one element of a response body of the standard room
			s.raw = in
		}
		s.rawOp(op, r.Ver, in)
		// a create event: also the body in which it REPLACES the create event of the room (next to it, the body has two
		// events for one state key and is refused early), every other event belonging to the room it creates
		if r.Type == "event" && strings.HasPrefix(op, "Body:") && r.P2 == "create" && len(s.panics) == 0 {
			_, room := rawEventInput(r)
			in = wrapReplacing(op, room, r.P2, data)
			s.raw = in
			s.rawOp(op, r.Ver, in)
		}
	}
	// canonical class: a crash that the well-formed event shows under the same operation is keyed `wellformed`
	if r.Type == "event" && len(s.panics) > 0 && r.P1 != "none" {
		r0 := *r
		r0.P1, r0.K1, r0.C1 = "none", "none", "none"
		data0 := rawInput(&r0)
		s0 := &pipeState{class: "event-json:wellformed", raw: data0}
		for _, op := range r.Ops {
			in := data0
			if strings.HasPrefix(op, "Body:") {
				in = wrapInBody(op, r.Ver, data0)
			}
			s0.rawOp(op, r.Ver, in)
			if strings.HasPrefix(op, "Body:") && r.P2 == "create" {
				_, room0 := rawEventInput(&r0)
				s0.rawOp(op, r.Ver, wrapReplacing(op, room0, r.P2, data0))
			}
		}
		for i := range s.panics {
			for _, f0 := range s0.panics {
				if f0.Func == s.panics[i].Func {
					s.panics[i].Key = f0.Key
				}
			}
		}
	}
	return finish(s, r, "raw")
}

// wrapInBody puts an event JSON into the response body that the Body:* operation decodes, next to the events of
// the standard room.
func wrapInBody(op, ver string, ev []byte) []byte {
	c := roomFor(ver, roomOpts{})
	var state, chain []interface{}
	for _, n := range stateNames {
		state = append(state, json.RawMessage(c.raw[n]))
	}
	for _, n := range c.chain() {
		chain = append(chain, json.RawMessage(c.raw[n]))
	}
	e := json.RawMessage(ev)
	switch op {
	case "Body:CheckStateResponse":
		return marshalTree(tree{"pdus": append(state, e), "auth_chain": append(chain, e)})
	case "Body:SendJoin":
		return marshalTree(tree{"state": append(state, e), "auth_chain": append(chain, e), "origin": "hs1", "event": e})
	case "Body:Transaction":
		return marshalTree(tree{"origin": "hs1", "origin_server_ts": 1700000000000, "pdus": []interface{}{chain[len(chain)-1], e}})
	case "Body:LoadAndVerify":
		return marshalTree(append(chain, e))
	case "Body:Backfill": // the event listed twice among the PDUs of the answer
		return marshalTree(tree{"origin": "hs1", "origin_server_ts": 1700000000000, "pdus": append(append([]interface{}{e}, chain...), e)})
	}
	fatalf("cannot wrap an event for %q", op)
	return nil
}

// wrapReplacing puts an event JSON into the response body that the Body:* operation decodes, in place of the event
// of the room state that a subject of its type stands in for. A create event that parses has had the room built
// around it (every other event carries its room ID and cites it); any other subject sits on top of the room, so the
// event it replaces stays in the auth chain.
func wrapReplacing(op string, c *roomCtx, typ string, ev []byte) []byte {
	rep := replaces(typ)
	e := json.RawMessage(ev)
	var state, chain []interface{}
	for _, n := range stateNames {
		if n == rep {
			state = append(state, e)
		} else {
			state = append(state, json.RawMessage(c.raw[n]))
		}
	}
	for _, n := range c.chain() {
		if n == rep && typ == "create" {
			chain = append(chain, e)
		} else {
			chain = append(chain, json.RawMessage(c.raw[n]))
		}
	}
	if typ != "create" {
		chain = append(chain, e)
	}
	switch op {
	case "Body:CheckStateResponse":
		return marshalTree(tree{"pdus": state, "auth_chain": chain})
	case "Body:SendJoin":
		return marshalTree(tree{"state": state, "auth_chain": chain, "origin": "hs1", "event": json.RawMessage(c.raw["jbob"])})
	case "Body:Transaction":
		return marshalTree(tree{"origin": "hs1", "origin_server_ts": 1700000000000, "pdus": chain})
	case "Body:LoadAndVerify":
		return marshalTree(chain)
	case "Body:Backfill":
		return marshalTree(tree{"origin": "hs1", "origin_server_ts": 1700000000000, "pdus": append(append([]interface{}{}, chain...), json.RawMessage(c.raw["msg"]))})
	}
	fatalf("cannot wrap an event for %q", op)
	return nil
}

// ---------------------------------------------------------------- join family (PerformJoin)

func execJoin(r *rec) hx.Result {
	room := roomFor(r.Ver, roomOpts{})
	// "room:<path>=<class>": the room that the answers describe is built around a create event with that fault (when
	// the create event does not parse, it stands in for the create event of the standard room)
	var createOverride []byte
	if strings.HasPrefix(r.C2, "room:") {
		parts := strings.SplitN(r.C2[5:], "=", 2)
		r2, raw, err := buildSubject(r.Ver, "create", []fault{{parts[0], "room", parts[1]}})
		if err != nil {
			return machine(err.Error())
		}
		room, createOverride = r2, raw
	}
	ca := room.sender("carol")
	if room.pseudo {
		ca = userID("carol")
	}
	proto := tree{"sender": ca, "room_id": room.roomID, "type": "m.room.member", "state_key": ca,
		"content": tree{"membership": "join"}, "depth": 20, "origin": "hs2", "origin_server_ts": 1700000020000,
		"prev_events": room.refs([]string{room.ids["msg"]})}
	auth := []string{room.ids["pl"], room.ids["jr"]}
	if restrictedSupported(r.Ver) {
		proto["content"] = tree{"membership": "join", "join_authorised_via_users_server": room.sender("alice")}
		auth = append(auth, room.ids["jalice"])
	}
	if !room.domainless {
		auth = append([]string{room.ids["create"]}, auth...)
	}
	proto["auth_events"] = room.refs(auth)
	mk := tree{"room_version": r.Ver, "event": proto}
	f1 := fault{r.P1, r.K1, r.C1}
	if !f1.none() {
		if f1.Kind == "refs" {
			segs := room.segments(f1.Path)
			ev := mk["event"].(tree)
			if v, ok := room.refsClass(f1.Cls, ev[segs[len(segs)-1]], "$self:hs1"); ok {
				ev[segs[len(segs)-1]] = v
			} else if !room.applyFault(mk, f1) {
				return machine("cannot apply " + f1.String())
			}
		} else if !room.applyFault(mk, f1) {
			return machine("cannot apply " + f1.String())
		}
	}
	var state, chain []interface{}
	for _, n := range stateNames {
		if n == "create" && createOverride != nil {
			state = append(state, json.RawMessage(createOverride))
			continue
		}
		state = append(state, json.RawMessage(room.raw[n]))
	}
	for _, n := range room.chain() {
		if n == "create" && createOverride != nil {
			chain = append(chain, json.RawMessage(createOverride))
			continue
		}
		chain = append(chain, json.RawMessage(room.raw[n]))
	}
	sj := tree{"state": state, "auth_chain": chain, "origin": "hs1"}
	echo := true
	switch {
	case r.C2 == "echo" || r.C2 == "none" || r.C2 == "" || createOverride != nil:
	case strings.HasPrefix(r.C2, "ev:"):
		echo = false
		parts := strings.SplitN(r.C2[3:], "=", 2)
		kind := "json"
		if strings.HasSuffix(parts[0], "room_id") {
			kind = "room"
		} else if strings.HasSuffix(parts[0], "sender") || strings.HasSuffix(parts[0], "state_key") {
			kind = "user"
		}
		_, raw, err := buildSubject(r.Ver, "member", []fault{{parts[0], kind, parts[1]}})
		if err != nil {
			return machine(err.Error())
		}
		sj["event"] = json.RawMessage(raw)
	default:
		echo = false
		f2 := fault{r.P2, r.K2, r.C2}
		if !room.applyFault(sj, f2) {
			return machine("cannot apply " + f2.String())
		}
	}
	data := marshalTree(tree{"make_join": mk, "send_join": sj, "echo": echo, "room": room.roomID})
	cls := "join:make_join." + classKey([]fault{f1})
	if f1.none() {
		cls = "join:send_join." + strings.TrimPrefix(r.P2, "top/") + "=" + r.C2
		if r.P2 == "none" {
			cls = "join:send_join." + strings.ReplaceAll(strings.ReplaceAll(strings.TrimPrefix(r.C2, "ev:top/"), "ev:", "event."), "room:top/", "room.")
		}
	}
	s := &pipeState{class: cls, raw: data, room: room}
	s.performJoin(r.Ver, data)
	return finish(s, r, "raw")
}
