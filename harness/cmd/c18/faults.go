package main

// Applying the faults of a Lifecycle.tla subject to a well-formed event tree.
//
// Path grammar (segments separated by "/"):
//   top/<key>            a top level key of the event
//   content              the whole content
//   content/<k>/<k2>...  a key inside the content ($alice, $bob, ... stand for that user's sender ID)
//   .../*key             the object at the parent path gets the class (a string) as its only key
//   .../*elem            the array at the parent path gets the class as its only element

import (
	"encoding/json"
	"sort"
	"strings"
)

func (c *roomCtx) segments(path string) []string {
	segs := strings.Split(path, "/")
	if segs[0] == "top" {
		segs = segs[1:]
	}
	for i, s := range segs {
		if strings.HasPrefix(s, "$") {
			segs[i] = c.sender(s[1:])
		}
		if n, ok := c.names[s]; ok {
			segs[i] = n
		}
	}
	return segs
}

// defaultElem is the value given to a faulty key of a map, by the name of the map.
func defaultElem(parent string) interface{} {
	switch parent {
	case "users", "events", "notifications":
		return 50
	case "signatures":
		return tree{"ed25519:1": "Bt0q4DcHfhJ2yjvCNdBLjFO7PtgnYW8WpqvnZY1eOcK9qCSzfJC7Wl7fScnvzBiNzGNYQcrNfpSggIVTdkL8DQ"}
	case "hashes":
		return "47DEQpj8HBSa+/TImW+5JCeuQeRkm5NMpJWZG3hSuFU"
	}
	return tree{}
}

func lookup(t tree, segs []string) (interface{}, bool) {
	var cur interface{} = t
	for _, s := range segs {
		m, ok := cur.(tree)
		if !ok {
			return nil, false
		}
		cur, ok = m[s]
		if !ok {
			return nil, false
		}
	}
	return cur, true
}

func rawOf(v interface{}, ok bool) json.RawMessage {
	if !ok {
		return nil
	}
	return marshalTree(v)
}

// applyFault returns false when the fault cannot be expressed on this subject (a specification / harness
// mismatch: reported as a machinery error by the caller).
func (c *roomCtx) applyFault(t tree, f fault) bool {
	if f.none() {
		return true
	}
	// names of signature entries: the local (countersigning) server, the sender's server / pseudo ID, the signing
	// name of the inviter in PerformInvite, a third server
	if strings.Contains(f.Path, "/@") {
		sender, _ := t["origin"].(string)
		inviter := "hs1"
		if c.pseudo {
			sender, _ = t["sender"].(string)
			inviter = pseudoID("alice")
		}
		if sender == "" {
			sender = "hs2"
		}
		c.names = map[string]string{"@local": "hs1", "@sender": sender, "@inviter": inviter, "@third": "hs7"}
	}
	segs := c.segments(f.Path)
	last := segs[len(segs)-1]
	parentSegs := segs[:len(segs)-1]
	// walk / create the parent object
	cur := t
	walk := parentSegs
	if last == "*key" || last == "*elem" {
		walk = parentSegs[:len(parentSegs)-1]
	}
	for _, s := range walk {
		next, ok := cur[s].(tree)
		if !ok {
			next = tree{}
			cur[s] = next
		}
		cur = next
	}
	if f.Cls == "collide" { // the event ID of another event of the room (possible where the sender chooses the ID)
		cur[last] = c.ids["pl"]
		return true
	}
	if f.Kind == "pseudokey" {
		// a sender "key" of another length, together with a 64 byte signature made under that name
		n := map[string]int{"key0": 0, "key2": 2, "key31": 31, "key33": 33, "key64": 64}[f.Cls]
		name := b64(make([]byte, n))
		if f.Cls == "keyvalid" {
			name = pseudoID("carol")
		}
		cur[last] = name
		sigs, _ := t["signatures"].(tree)
		if sigs == nil {
			sigs = tree{}
			t["signatures"] = sigs
		}
		sigs[name] = tree{"ed25519:1": garbageSig}
		return true
	}
	switch last {
	case "*key":
		name := parentSegs[len(parentSegs)-1]
		// the well-formed key the class may be derived from: the first key of the map as it is
		valid := jstr(map[string]string{"userkey": c.sender("alice"), "server": "hs1"}[f.Kind])
		if m, ok := cur[name].(tree); ok && len(m) > 0 {
			keys := make([]string, 0, len(m))
			for k := range m {
				keys = append(keys, k)
			}
			sort.Strings(keys)
			valid = jstr(keys[0])
		}
		raw, absent := classValue(f.Kind, f.Cls, valid)
		if absent {
			return false
		}
		var key string
		if err := json.Unmarshal(raw, &key); err != nil {
			return false
		}
		cur[name] = tree{key: defaultElem(name)}
	case "*elem":
		name := parentSegs[len(parentSegs)-1]
		var valid json.RawMessage
		if arr, ok := cur[name].([]interface{}); ok && len(arr) > 0 {
			valid = marshalTree(arr[0])
		}
		raw, absent := classValue(f.Kind, f.Cls, valid)
		if absent {
			cur[name] = []interface{}{}
		} else {
			cur[name] = []interface{}{raw}
		}
	default:
		if f.Kind == "refs" {
			valid, _ := lookup(t, segs)
			selfID, _ := t["event_id"].(string)
			if selfID == "" {
				selfID = "$selfAAAAAAAAAAAAAAAAAAAAAAAAAAAAAAAAAAAAAAA"
			}
			if v, ok := c.refsClass(f.Cls, valid, selfID); ok {
				cur[last] = v
				return true
			}
		}
		raw, absent := classValue(f.Kind, f.Cls, rawOf(lookup(t, segs)))
		if absent {
			delete(cur, last)
		} else {
			cur[last] = raw
		}
	}
	return true
}

// refsClass realises the shapes of prev_events / auth_events (kind "refs").
func (c *roomCtx) refsClass(cls string, valid interface{}, selfID string) (interface{}, bool) {
	other := func(ids ...string) interface{} { // the format of the *other* event format generation
		out := []interface{}{}
		for _, id := range ids {
			if c.fmtV1 {
				out = append(out, id)
			} else {
				out = append(out, []interface{}{id, tree{"sha256": "47DEQpj8HBSa+/TImW+5JCeuQeRkm5NMpJWZG3hSuFU"}})
			}
		}
		return out
	}
	someID := c.ids["pl"]
	switch cls {
	case "valid":
		return valid, true
	case "empty":
		return []interface{}{}, true
	case "other_format":
		return other(someID), true
	case "unknown":
		return c.refs([]string{"$unknownAAAAAAAAAAAAAAAAAAAAAAAAAAAAAAAAAAAA"}), true
	case "dup":
		return c.refs([]string{someID, someID}), true
	case "self":
		return c.refs([]string{selfID}), true
	case "cycle": // cites the event that cites it (possible where event IDs are chosen by the sender)
		if c.fmtV1 {
			return c.refs([]string{"$dep:hs1"}), true
		}
		return c.refs([]string{"$unknownAAAAAAAAAAAAAAAAAAAAAAAAAAAAAAAAAAAA"}), true
	case "many":
		ids := make([]string, 0, 30)
		for i := 0; i < 30; i++ {
			ids = append(ids, someID)
		}
		return c.refs(ids), true
	case "many_1000":
		n := 1000
		if c.fmtV1 {
			n = 500
		}
		ids := make([]string, 0, n)
		for i := 0; i < n; i++ {
			ids = append(ids, someID)
		}
		return c.refs(ids), true
	case "tuple_empty":
		return []interface{}{[]interface{}{}}, true
	case "tuple_short":
		return []interface{}{[]interface{}{someID}}, true
	case "tuple_long":
		return []interface{}{[]interface{}{someID, tree{}, 1}}, true
	case "tuple_badhash":
		return []interface{}{[]interface{}{someID, tree{"sha256": "!!"}}}, true
	case "tuple_nonstr":
		return []interface{}{[]interface{}{5, tree{}}}, true
	case "elem_empty":
		return c.refs([]string{""}), true
	case "elem_sigil":
		return c.refs([]string{"$"}), true
	}
	return nil, false
}
