package main

// Seeds of the mutational driver: test vectors copied from the repository's own *_test.go files
// (event_test.go, eventcrypto_test.go, redactevent_test.go, keyring_test.go, fclient/request_test.go,
// fclient/federationtypes_test.go, json_test.go) plus inputs built by the harness for every room version.

import (
	"encoding/json"
)

type seed struct {
	Name string
	Kind string // event | keys | header | httpreq | json | ident | body:<DecodeTarget>
	Ver  string
	Data []byte
}

const repoPowerLevelsV1 = `{"auth_events":[["$Stdin0028C5qBjz5:localhost",{"sha256":"PvTyW+Mfb0aCajkIlBk1XlQE+1uVco3to8C2+/1J7iQ"}],["$klXtjBwwDQIGglax:localhost",{"sha256":"hLoiSkcGLZJr5wkIDA8+bujNJPsYX1SOCCXIErHEcgM"}]],"content":{"ban":50,"events":{"m.room.avatar":50,"m.room.canonical_alias":50,"m.room.history_visibility":100,"m.room.name":50,"m.room.power_levels":100},"events_default":0,"invite":0,"kick":50,"redact":50,"state_default":50,"users":{"@test:localhost":100},"users_default":0},"depth":3,"event_id":"$7gPR7SLdkfDsMvJL:localhost","hashes":{"sha256":"/kQnrzO5vhbnwyGvKso4CVMRyyryiyanq6t27mt5kSw"},"origin":"localhost","origin_server_ts":1510854446548,"prev_events":[["$klXtjBwwDQIGglax:localhost",{"sha256":"hLoiSkcGLZJr5wkIDA8+bujNJPsYX1SOCCXIErHEcgM"}]],"prev_state":[],"room_id":"!pUjJbIC8V32G0FLt:localhost","sender":"@test:localhost","signatures":{"localhost":{"ed25519:u9kP":"NOxjrcci7AIRhcTVmJ6nrsslLsaOJzB0iusDZ6cOFrv2OXkDY7mrBM3cQQS3DhGWltEtu3OC0nsvkfeYtwr9DQ"}},"state_key":"","type":"m.room.power_levels"}`

const repoNameV1 = `{"auth_events":[["$oXL79cT7fFxR7dPH:localhost",{"sha256":"abjkiDSg1RkuZrbj2jZoGMlQaaj1Ue3Jhi7I7NlKfXY"}],["$IVUsaSkm1LBAZYYh:localhost",{"sha256":"X7RUj46hM/8sUHNBIFkStbOauPvbDzjSdH4NibYWnko"}],["$VS2QT0EeArZYi8wf:localhost",{"sha256":"k9eM6utkCH8vhLW9/oRsH74jOBS/6RVK42iGDFbylno"}]],"content":{"name":"test3"},"depth":7,"event_id":"$yvN1b43rlmcOs5fY:localhost","hashes":{"sha256":"Oh1mwI1jEqZ3tgJ+V1Dmu5nOEGpCE4RFUqyJv2gQXKs"},"origin":"localhost","origin_server_ts":1510854416361,"prev_events":[["$FqI6TVvWpcbcnJ97:localhost",{"sha256":"upCsBqUhNUgT2/+zkzg8TbqdQpWWKQnZpGJc6KcbUC4"}]],"prev_state":[],"room_id":"!19Mp0U9hjajeIiw1:localhost","sender":"@test:localhost","signatures":{"localhost":{"ed25519:u9kP":"5IzSuRXkxvbTp0vZhhXYZeOe+619iG3AybJXr7zfNn/4vHz4TH7qSJVQXSaHHvcTcDodAKHnTG1WDulgO5okAQ"}},"state_key":"","type":"m.room.name","unsigned":{"foo":"bar","x":1}}`

const repoNameV5 = `{"auth_events":["$x4MKEPRSF6OGlo0qpnsP3BfSmYX5HhVlykOsQH3ECyg","$BcEcbZnlFLB5rxSNSZNBn6fO3jU_TKAJ79wfKyCQLiU"],"content":{"name":"test123"},"depth":2,"hashes":{"sha256":"5S025c0BhumelvCXMXWlislPnDYJn18mm9XMClL1OZ8"},"origin":"localhost","origin_server_ts":0,"prev_events":["$BcEcbZnlFLB5rxSNSZNBn6fO3jU_TKAJ79wfKyCQLiU"],"prev_state":[],"room_id":"!roomid:localhost","sender":"@userid:localhost","signatures":{"localhost":{"ed25519:auto":"VHCB/tai3S2nBpvYWnOlJfjt2KcxsgBJ1W6xDYUMOxGehDOd+lI2wy5ZBZydy1xFdIBzuERn9t9aiFThIHHcCA"}},"state_key":"","type":"m.room.name"}`

const repoMemberV1 = `{"auth_events":[["$BqcTUuCsN3g6Rj1z:localhost",{"sha256":"QHTrdwE/XVTmAWlxFwHPW7fp3JioRu6OBBRs+FI/at8"}]],"content":{"membership":"join"},"depth":1,"event_id":"$9fmIxbx4IX8w1JVo:localhost","hashes":{"sha256":"mXgoJxvMyI8ZTdhUMYwWzi0F3M50tiAQkmk0F08tQl4"},"origin":"localhost","origin_server_ts":0,"prev_events":[["$BqcTUuCsN3g6Rj1z:localhost",{"sha256":"QHTrdwE/XVTmAWlxFwHPW7fp3JioRu6OBBRs+FI/at8"}]],"prev_state":[],"room_id":"!roomid:localhost","sender":"@userid:localhost","signatures":{"localhost":{"ed25519:auto":"ndobFGFV9i2XExPHfYVI4rd10Vw6GKtmdz2Wv0WSFohtm/FqFNUnDYVTsY/qZ1vkuEjHqgb5nscKD/i7TyURBw"}},"state_key":"@userid:localhost","type":"m.room.member"}`

const repoJoinRulesV1 = `{"auth_events":[["$BqcTUuCsN3g6Rj1z:localhost",{"sha256":"QHTrdwE/XVTmAWlxFwHPW7fp3JioRu6OBBRs+FI/at8"}],["$9fmIxbx4IX8w1JVo:localhost",{"sha256":"gee+f1VoNeYGGczs5lwnUO1qeKAh70Hw23ws+YfDYGY"}]],"content":{"join_rule":"public"},"depth":2,"event_id":"$5hL9YWgJCtDzjlAQ:localhost","hashes":{"sha256":"CetHe0Na5HKphg5iYmLThfwQyM19w3PMCrve3Bwv8rw"},"origin":"localhost","origin_server_ts":0,"prev_events":[["$9fmIxbx4IX8w1JVo:localhost",{"sha256":"gee+f1VoNeYGGczs5lwnUO1qeKAh70Hw23ws+YfDYGY"}]],"prev_state":[],"room_id":"!roomid:localhost","sender":"@userid:localhost","signatures":{"localhost":{"ed25519:auto":"dxwQWiH6ppF+VVFQ8IEAWeB30hrYiZWLsWNTrE1B0/vUWMp+qLhU+My65XhmE5XreHvgY3fOh4Le6OYUcxNTAw"}},"state_key":"","type":"m.room.join_rules"}`

const repoPowerLevelsNullV1 = `{"auth_events":[["$BqcTUuCsN3g6Rj1z:localhost",{"sha256":"QHTrdwE/XVTmAWlxFwHPW7fp3JioRu6OBBRs+FI/at8"}],["$9fmIxbx4IX8w1JVo:localhost",{"sha256":"gee+f1VoNeYGGczs5lwnUO1qeKAh70Hw23ws+YfDYGY"}]],"content":{"ban":50,"events":null,"events_default":0,"invite":0,"kick":50,"redact":50,"state_default":50,"users":null,"users_default":0,"notifications":{"room":50}},"depth":4,"event_id":"$1570trwyGMovM5uU:localhost","hashes":{"sha256":"QvWo2OZufVTMUkPcYQinGVeeHEODWY6RUMaHRxdT31Y"},"origin":"localhost","origin_server_ts":0,"prev_events":[["$QAhQsLNIMdumtpOi:localhost",{"sha256":"RqoKwu8u8qL+wDoka23xvd7t9UoOXLRQse/bK3o9qLE"}]],"prev_state":[],"room_id":"!roomid:localhost","sender":"@userid:localhost","signatures":{"localhost":{"ed25519:auto":"0oPZsvPkbNNVwRrLAP+fEyxFRAIUh0Zn7NPH3LybNC8lMz0GyPtN1bKlTVQYMwZBTXCV795s+CEgoIX+M5gkAQ"}},"state_key":"","type":"m.room.power_levels"}`

const repoCreateV10 = `{"auth_events":["$urlsafe_base64_encoded_eventid"],"content":{"creator":"@neilalexander:dendrite.matrix.org","room_version":"PowerDAG"},"depth":1,"hashes":{"sha256":"jqOqdNEH5r0NiN3xJtj0u5XUVmRqq9YvGbki1wxxuuM"},"origin_server_ts":1644595362726,"prev_events":["$other_base64_encoded_eventid"],"room_id":"!jSZZRknA6GkTBXNP:dendrite.matrix.org","sender":"@neilalexander:dendrite.matrix.org","signatures":{"dendrite.matrix.org":{"ed25519:6jB2aB":"bsQXO1wketf1OSe9xlndDIWe71W9KIundc6rBw4KEZdGPW7x4Tv4zDWWvbxDsG64sS2IPWfIm+J0OOozbrWIDw"}},"state_key":"","type":"m.room.create"}`

const repoSignedMessage = `{"content":{"body":"Here is the message content"},"event_id":"$0:domain","hashes":{"sha256":"onLKD1bGljeBWQhWZ1kaP9SorVmRQNdN5aM2JYU2n/g"},"origin":"domain","origin_server_ts":1000000,"type":"m.room.message","room_id":"!r:domain","sender":"@u:domain","signatures":{"domain":{"ed25519:1":"Wm+VzmOUOz08Ds+0NTWb1d4CZrVsJSikkeRxh6aCcUwu6pNC78FunoD7KNWzqFn241eYHYMGCA5McEiVPdhzBA"}},"unsigned":{"age_ts":1000000}}`

const repoRedactMember = `{"content":{"avatar_url":"mxc://something/somewhere","displayname":"Someone","join_authorised_via_users_server":"@someoneelse:somewhere.org","membership":"join"},"origin_server_ts":1633108629915,"sender":"@someone:somewhere.org","state_key":"@someone:somewhere.org","type":"m.room.member","unsigned":{"age":539338},"room_id":"!someroom:matrix.org"}`

const repoTestKeys = `{
	"old_verify_keys": {
		"ed25519:old": {
			"expired_ts": 929059200,
			"key": "O2onvM62pC1io6jQKm8Nc2UyFXcd4kOmOsBIoYtZ2ik"
		}
	},
	"server_name": "localhost:8800",
	"signatures": {
		"localhost:8800": {
			"ed25519:a_Obwu": "xkr4Z49ODoQnRi//ePfXlt8Q68vzd+DkzBNCt60NcwnLjNREx0qVQrw1iTFSoxkgGtz30NDkmyffDrCrmX5KBw"
		}
	},
	"tls_fingerprints": [
		{
			"sha256": "I2ohBnqpb5m3HldWFwyA10WdjqDksukiKVUdZ690WzM"
		}
	],
	"valid_until_ts": 1493142432964,
	"verify_keys": {
		"ed25519:a_Obwu": {
			"key": "2UwTWD4+tgTgENV7znGGNqhAOGY+BW1mRAnC6W6FBQg"
		}
	}
}`

const repoGetRequest = "GET /_matrix/federation/v1/query/directory?room_alias=%23test%3Alocalhost%3A44033 HTTP/1.1\r\n" +
	"Host: localhost:44033\r\n" +
	"Authorization: X-Matrix" +
	" origin=\"localhost:8800\"" +
	",key=\"ed25519:a_Obwu\"" +
	",sig=\"7vt4vP/w8zYB3Zg77nuTPwie3TxEy2OHZQMsSa4nsXZzL4/qw+DguXbyMy3BF77XvSJmBt+Gw+fU6T4HId7fBg\"" +
	",destination=\"localhost:44033\"" +
	"\r\n" +
	"\r\n"

const repoPutContent = `{"edus":[{"content":{"device_id":"YHRUBZNPFS",` +
	`"keys":{"device_id":"YHRUBZNPFS","device_keys":{},"user_id":` +
	`"@ANON-22:localhost:8800"},"prev_id":[],"stream_id":30,"user_id":` +
	`"@ANON-22:localhost:8800"},"edu_type":"m.device_list_update"}],"origin"` +
	`:"localhost:8800","origin_server_ts":1493385822396,"pdu_failures":[],` +
	`"pdus":[]}`

const repoPutRequest = "PUT /_matrix/federation/v1/send/1493385816575/ HTTP/1.1\r\n" +
	"Host: localhost:44033\r\n" +
	"Content-Length: 321\r\n" +
	"Authorization: X-Matrix" +
	" origin=\"localhost:8800\"" +
	",key=\"ed25519:a_Obwu\"" +
	",sig=\"+hmW6UjEXx7vMt2+MXO/EImSfdEYdBsZEOmpiz3evYktAgGNpGuNMBYXIA969WGubmceREKA/r1phasUFHBpDg\"" +
	",destination=\"localhost:44033\"" +
	"\r\n" +
	"Content-Type: application/json\r\n" +
	"\r\n" +
	repoPutContent

var repoHeaders = []string{
	`X-Matrix origin=foo , key="ed25519:1",  sig="sig",		destination="bar"`,
	`X-Matrix origin=foo,key="ed25519:1",sig="sig",destination="bar"`,
	`X-Matrix 	origin=foo	,		key="ed25519:1",	sig="sig"	,destination	="bar"`,
	`X-Matrix 	origin=foo	,	,destination	=  "bar"  ,	sig=	"sig" , key="ed25519:1"`,
}

var repoIdents = []string{"@alice:localhost:8080", "!roomid:localhost", "$0:domain", "www.example.org:1234", "[1fff:0:a88:85a3::ac1f]:1234",
	"1.1.1.1:1234", "!" + b43, "@_:[::1]:8448", "5TNiAVyWaBkw9YgbFchE6u3FuJBq0jfzS4VNTnYnKVc"}

var repoJSONs = []string{
	`{"a":"\u00F1","b":"\uD83D\uDE0A","c":-0,"d":1E2,"e":[{"\u0041":null}],"f":"\/"}`,
	`{"one":1,"two":"Two","auth":{"success":true,"mxid":"@john.doe:example.com","profile":{"display_name":"John Doe","three_pids":[{"medium":"email","address":"john.doe@example.org"}]}}}`,
	`{"a":"日本語","本":2,"日":1}`,
	`{"\u000a":"\u0000\u001f\"\\","x":"\ud83d\ude00"}`,
}

// allSeeds lists every seed: the repository's vectors and harness-built inputs for every room version.
func allSeeds() []seed {
	var out []seed
	add := func(name, kind, ver string, data []byte) { out = append(out, seed{name, kind, ver, data}) }
	for _, s := range []struct{ n, v, d string }{
		{"repo-power-levels-v1", "1", repoPowerLevelsV1}, {"repo-name-v1", "1", repoNameV1}, {"repo-name-v5", "5", repoNameV5},
		{"repo-member-v1", "1", repoMemberV1}, {"repo-join-rules-v1", "2", repoJoinRulesV1}, {"repo-power-levels-null-v1", "1", repoPowerLevelsNullV1},
		{"repo-create-v10", "10", repoCreateV10}, {"repo-signed-message", "1", repoSignedMessage}, {"repo-redact-member", "9", repoRedactMember},
	} {
		add(s.n, "event", s.v, []byte(s.d))
	}
	add("repo-test-keys", "keys", "", []byte(repoTestKeys))
	add("repo-get-request", "httpreq", "", []byte(repoGetRequest))
	add("repo-put-request", "httpreq", "", []byte(repoPutRequest))
	add("repo-put-content", "body:Transaction", "10", []byte(repoPutContent))
	add("repo-empty-state", "body:RespState", "10", []byte(`{"pdus":[],"auth_chain":[]}`))
	add("repo-empty-send-join", "body:RespSendJoin", "10", []byte(`{"state":[],"auth_chain":[],"origin":""}`))
	for i, h := range repoHeaders {
		add("repo-header-"+string(rune('a'+i)), "header", "", []byte(h))
	}
	for i, h := range repoIdents {
		add("repo-ident-"+string(rune('a'+i)), "ident", "", []byte(h))
	}
	for i, h := range repoJSONs {
		add("repo-json-"+string(rune('a'+i)), "json", "10", []byte(h))
	}
	// harness-built
	add("built-key-response", "keys", "", keyResponse("valid", "valid"))
	// key responses with an unusual key ID (the key-ID-shape dimension of Lifecycle.tla), as seeds for mutation
	add("built-key-response-alg-only", "keys", "", keyIDResponse("verify", "alg_only", "len32"))
	add("built-key-response-empty-id-old", "keys", "", keyIDResponse("both", "empty", "len32"))
	add("built-key-response-alone", "keys", "", keyIDResponse("verify_alone", "two_colons", "len33"))
	add("built-header", "header", "", []byte(headerClass("valid")))
	for i, hs := range []string{"xm:a:k1:d|xm:a:k2:d", "xm:a:k1:d|other|xm:b:k1:n", "other|xm:a:k1:n", "xm:a:k1:d|xm:a:k1:d|xm:a:k2:x"} {
		add("built-headers-"+string(rune('a'+i)), "headers", "", []byte(headerLines(hs)))
	}
	add("built-signed", "json", "10", signedDoc("valid"))
	for _, ver := range AllVersions {
		c := roomFor(ver, roomOpts{})
		for _, n := range c.order {
			add("built-"+n, "event", ver, c.raw[n])
		}
		for _, typ := range SubjectTypes {
			if typ == "create" {
				continue
			}
			add("built-subject-"+typ, "event", ver, withContentHash(marshalTree(c.subjectTree(typ)), c.fmtV1))
		}
		var state, chain []json.RawMessage
		for _, n := range stateNames {
			state = append(state, c.raw[n])
		}
		for _, n := range c.chain() {
			chain = append(chain, c.raw[n])
		}
		b, _ := json.Marshal(map[string]interface{}{"pdus": state, "auth_chain": chain})
		add("built-state", "body:RespState", ver, b)
		b, _ = json.Marshal(map[string]interface{}{"state": state, "auth_chain": chain, "origin": "hs1", "event": json.RawMessage(c.raw["jbob"])})
		add("built-send-join", "body:RespSendJoin", ver, b)
		b, _ = json.Marshal(map[string]interface{}{"origin": "hs1", "origin_server_ts": 1700000000000, "pdus": chain[len(chain)-3:],
			"edus": []interface{}{map[string]interface{}{"edu_type": "m.typing", "content": map[string]interface{}{"room_id": c.roomID, "user_id": "@a:hs1", "typing": true}}}})
		add("built-transaction", "body:Transaction", ver, b)
		b, _ = json.Marshal(map[string]interface{}{"room_version": ver, "event": json.RawMessage(marshalTree(c.subjectTree("member")))})
		add("built-make-join", "body:RespMakeJoin", ver, b)
		b, _ = json.Marshal(map[string]interface{}{"room_version": ver, "event": json.RawMessage(c.raw["jbob"]),
			"invite_room_state": []interface{}{map[string]interface{}{"type": "m.room.name", "state_key": "", "sender": "@a:hs1", "content": map[string]interface{}{"name": "x"}}}})
		add("built-invite-v2", "body:InviteV2Request", ver, b)
		b, _ = json.Marshal(chain)
		add("built-event-list", "body:LoadAndVerify", ver, b)
	}
	return out
}
