package main

// c18rec: seeded byte-level mutational driver (code -> spec). Inputs are derived deterministically from the seed,
// executed in worker processes, and every library call is logged as (call, outcome) for Lifecycle_trace.tla.
// No coverage feedback is used: the byte-string half of the property is sampled, not searched.

import (
	"bytes"
	"encoding/base64"
	"encoding/json"
	"fmt"
	"math/rand"
	"sort"
	"strings"

	"verifharness/hx"
)

// probe is one concrete input for the byte-level entry points.
type probe struct {
	Fam  string `json:"fam"` // "probe"
	Kind string `json:"kind"`
	Ver  string `json:"ver"`
	Seed string `json:"seed"` // name of the seed it was derived from
	Mut  string `json:"mut"`  // mutations applied
	B64  string `json:"b64"`
}

// ---------------------------------------------------------------- mutations

var interesting = [][]byte{
	[]byte(`1e999`), []byte(`-0`), []byte(`9007199254740992`), []byte(`-9007199254740992`), []byte(`9223372036854775808`),
	[]byte(`1` + strings.Repeat("0", 330)), []byte(`0.0000000000000000000001`), []byte(`1E+2`), []byte(`-`), []byte(`null`), []byte(`true`),
	[]byte(`""`), []byte(`{}`), []byte(`[]`), []byte(`"\ud800"`), []byte(`"\u0000"`), []byte(`"\`), []byte(`\u12`), []byte("\xff\xfe"), []byte("\xc0\x80"),
	[]byte("\xed\xa0\x80"), []byte(`"!:x"`), []byte(`"@"`), []byte(`"@:x"`), []byte(`"!a:b c"`), []byte(`"!abc"`), []byte(`"$"`), []byte(`"_x":1,`),
	[]byte(`"state_key":5,`), []byte(`"content":null,`), []byte(`"content":[],`), []byte(`"room_id":"!:x",`), []byte(`"sender":"@",`),
}

func findAll(b []byte, pred func(c byte) bool) []int {
	var out []int
	for i, c := range b {
		if pred(c) {
			out = append(out, i)
		}
	}
	return out
}

// mutate applies one mutation; pool supplies material for splices.
func mutate(r *rand.Rand, b []byte, pool [][]byte) ([]byte, string) {
	b = append([]byte(nil), b...)
	n := len(b)
	pos := func() int {
		if n == 0 {
			return 0
		}
		return r.Intn(n)
	}
	switch k := r.Intn(15); k {
	case 0: // bit flip
		if n > 0 {
			p := pos()
			b[p] ^= 1 << uint(r.Intn(8))
		}
		return b, "bitflip"
	case 1: // random byte
		if n > 0 {
			b[pos()] = byte(r.Intn(256))
		}
		return b, "byte"
	case 2: // truncate
		if n > 0 {
			b = b[:pos()]
		}
		return b, "truncate"
	case 3: // delete a range
		if n > 1 {
			p := pos()
			q := p + 1 + r.Intn(min(n-p, 40))
			b = append(b[:p], b[min(q, n):]...)
		}
		return b, "delete"
	case 4: // splice a piece of another input
		other := pool[r.Intn(len(pool))]
		if len(other) > 0 {
			p := r.Intn(len(other))
			q := p + 1 + r.Intn(min(len(other)-p, 200))
			at := pos()
			b = append(b[:at], append(append([]byte(nil), other[p:min(q, len(other))]...), b[at:]...)...)
		}
		return b, "splice"
	case 5: // duplicate a key: copy a `"key":value,` looking stretch to another place
		qs := findAll(b, func(c byte) bool { return c == '"' })
		if len(qs) > 2 {
			p := qs[r.Intn(len(qs))]
			q := p + 1 + r.Intn(min(n-p, 120))
			piece := append([]byte(nil), b[p:min(q, n)]...)
			cs := findAll(b, func(c byte) bool { return c == '{' || c == ',' })
			if len(cs) > 0 {
				at := cs[r.Intn(len(cs))] + 1
				b = append(b[:at], append(append(piece, ','), b[at:]...)...)
			}
		}
		return b, "dupkey"
	case 6: // deep nesting (up to a few hundred levels) in place of a value
		depth := 50 + r.Intn(350)
		var nest []byte
		if r.Intn(2) == 0 {
			nest = []byte(nested(depth, "[", "]"))
		} else {
			nest = []byte(strings.Repeat(`{"a":`, depth) + "1" + strings.Repeat("}", depth))
		}
		if r.Intn(4) == 0 {
			nest = nest[:len(nest)-r.Intn(depth)] // unbalanced
		}
		cs := findAll(b, func(c byte) bool { return c == ':' || c == '[' || c == ',' })
		if len(cs) > 0 {
			at := cs[r.Intn(len(cs))] + 1
			b = append(b[:at], append(nest, b[at:]...)...)
		} else {
			b = nest
		}
		return b, "deep"
	case 7: // huge / odd number in place of a digit run
		ds := findAll(b, func(c byte) bool { return c >= '0' && c <= '9' })
		if len(ds) > 0 {
			p := ds[r.Intn(len(ds))]
			q := p
			for q < n && b[q] >= '0' && b[q] <= '9' {
				q++
			}
			nums := [][]byte{[]byte("1e999"), []byte("-0"), []byte("9007199254740992"), []byte("9223372036854775808"), []byte("1" + strings.Repeat("0", 320)),
				[]byte("0.5"), []byte("1E2"), []byte("-"), []byte("00"), []byte("1.e1"), []byte("-9007199254740993"), []byte("18446744073709551616")}
			b = append(b[:p], append(append([]byte(nil), nums[r.Intn(len(nums))]...), b[q:]...)...)
		}
		return b, "number"
	case 8: // invalid UTF-8 / escapes inside a string
		qs := findAll(b, func(c byte) bool { return c == '"' })
		if len(qs) > 0 {
			at := qs[r.Intn(len(qs))] + 1
			bad := [][]byte{[]byte("\xff"), []byte("\xc0\x80"), []byte("\xed\xa0\x80"), []byte("\xf4\x90\x80\x80"), []byte(`\ud800`), []byte(`\udc00\ud800`), []byte(`\u`), []byte(`\u00`),
				[]byte(`\`), []byte(`\x`), []byte("\x00"), []byte("\x1f"), []byte(`\u0000`), []byte(`\"`), []byte(`\\`), []byte(" ")}
			b = append(b[:at], append(append([]byte(nil), bad[r.Intn(len(bad))]...), b[at:]...)...)
		}
		return b, "utf8"
	case 9: // insert an interesting token
		tok := interesting[r.Intn(len(interesting))]
		at := pos()
		b = append(b[:at], append(append([]byte(nil), tok...), b[at:]...)...)
		return b, "token"
	case 10: // replace a whole JSON string by an interesting token
		qs := findAll(b, func(c byte) bool { return c == '"' })
		if len(qs) >= 2 {
			i := r.Intn(len(qs) - 1)
			tok := interesting[r.Intn(len(interesting))]
			b = append(b[:qs[i]], append(append([]byte(nil), tok...), b[qs[i+1]+1:]...)...)
		}
		return b, "strtoken"
	case 11: // swap two structural bytes
		cs := findAll(b, func(c byte) bool { return strings.IndexByte(`{}[],:"`, c) >= 0 })
		if len(cs) > 1 {
			i, j := cs[r.Intn(len(cs))], cs[r.Intn(len(cs))]
			b[i], b[j] = b[j], b[i]
		}
		return b, "swap"
	case 12: // repeat a range many times
		if n > 1 {
			p := pos()
			q := p + 1 + r.Intn(min(n-p, 30))
			piece := append([]byte(nil), b[p:min(q, n)]...)
			rep := bytes.Repeat(piece, 2+r.Intn(300))
			b = append(b[:p], append(rep, b[p:]...)...)
		}
		return b, "repeat"
	case 13: // the room ID gets the shape of the other family of room versions (with / without a domain)
		return roomIDShape(r, b), "ridshape"
	default: // drop a structural byte
		cs := findAll(b, func(c byte) bool { return strings.IndexByte(`{}[],:"`, c) >= 0 })
		if len(cs) > 0 {
			p := cs[r.Intn(len(cs))]
			b = append(b[:p], b[p+1:]...)
		}
		return b, "dropstruct"
	}
}

// roomIDShape rewrites the value of the first "room_id" member (or adds the member where there is none, as on the
// create event of a room version with derived room IDs): 43 URL-safe characters without a domain - unrelated, or
// those of an event ID that occurs in the input -, the same followed by a domain, or a plain ID with a domain.
func roomIDShape(r *rand.Rand, b []byte) []byte {
	opaque := b43
	if r.Intn(2) == 0 {
		if i := bytes.Index(b, []byte(`"$`)); i >= 0 && i+46 <= len(b) && b[i+45] == '"' {
			opaque = string(b[i+2 : i+45])
		}
	}
	id := []string{"!" + opaque, "!" + opaque + ":hs1", "!room:hs1", "!" + opaque[:42], "!" + opaque + "A"}[r.Intn(5)]
	const key = `"room_id":"`
	if i := bytes.Index(b, []byte(key)); i >= 0 {
		from := i + len(key)
		if j := bytes.IndexByte(b[from:], '"'); j >= 0 {
			return append(append(append([]byte(nil), b[:from]...), id...), b[from+j:]...)
		}
		return b
	}
	if i := bytes.IndexByte(b, '{'); i >= 0 {
		return append(append(append([]byte(nil), b[:i+1]...), key+id+`",`...), b[i+1:]...)
	}
	return b
}

// ---------------------------------------------------------------- generation

func generateProbes(seedNum int64, n int) []probe {
	seeds := allSeeds()
	byKind := map[string][][]byte{}
	for _, s := range seeds {
		byKind[s.Kind] = append(byKind[s.Kind], s.Data)
	}
	r := rand.New(rand.NewSource(seedNum*7919 + 17))
	out := make([]probe, 0, n+len(seeds))
	// every seed unmutated first: the machinery itself must accept the vectors
	for _, s := range seeds {
		out = append(out, probe{"probe", s.Kind, s.Ver, s.Name, "none", base64.StdEncoding.EncodeToString(s.Data)})
	}
	for len(out) < n+len(seeds) {
		s := seeds[r.Intn(len(seeds))]
		b := s.Data
		k := 1 + r.Intn(3)
		var muts []string
		for i := 0; i < k; i++ {
			var m string
			b, m = mutate(r, b, byKind[s.Kind])
			muts = append(muts, m)
		}
		ver := s.Ver
		if s.Kind == "event" {
			if r.Intn(10) < 7 { // the sender of a forged event fixes the content hash up
				fmtV1 := ver == "1" || ver == "2"
				b = withContentHash(b, fmtV1)
				muts = append(muts, "rehash")
			}
			if r.Intn(8) == 0 { // delivered into a room of another version
				ver = AllVersions[r.Intn(len(AllVersions))]
				muts = append(muts, "ver")
			}
		}
		if len(b) > 1<<20 {
			b = b[:1<<20]
		}
		out = append(out, probe{"probe", s.Kind, ver, s.Name, strings.Join(muts, "+"), base64.StdEncoding.EncodeToString(b)})
	}
	return out
}

// ---------------------------------------------------------------- execution of one probe

func entryPointsFor(kind string) []string {
	switch {
	case kind == "event":
		return []string{"Canonicalise:CanonicalJSON", "Canonicalise:Enforced", "RedactJSON", "VerifyJSON", "SignJSON", "ListKeyIDs",
			"Decode:ProtoEvent", "Decode:StrippedState", "Parse:untrusted"}
	case kind == "keys":
		return []string{"Decode:ServerKeys", "CheckKeys", "KeyRing", "Canonicalise:CanonicalJSON", "VerifyJSON"}
	case kind == "header":
		return []string{"ParseAuthorization", "VerifyHTTPRequest"}
	case kind == "headers":
		return []string{"VerifyHTTPRequest"}
	case kind == "httpreq":
		return []string{"HTTPRequest"}
	case kind == "json":
		return []string{"Canonicalise:CanonicalJSON", "Canonicalise:Enforced", "RedactJSON", "VerifyJSON", "SignJSON", "ListKeyIDs"}
	case kind == "ident":
		return []string{"ParseIdentifier:NewRoomID", "ParseIdentifier:NewUserID", "ParseIdentifier:NewUserIDStrict", "ParseIdentifier:ServerName",
			"ParseIdentifier:SenderID", "ParseIdentifier:SplitID"}
	case strings.HasPrefix(kind, "body:"):
		t := kind[5:]
		eps := []string{"Canonicalise:CanonicalJSON"}
		if _, ok := DecodeTargets[t]; ok {
			eps = append(eps, "Decode:"+t)
		}
		switch t {
		case "RespState":
			eps = append(eps, "Body:CheckStateResponse", "Decode:RespPeek", "Decode:RespMissingEvents", "Decode:RespEventAuth")
		case "RespSendJoin":
			eps = append(eps, "Body:SendJoin")
		case "Transaction":
			eps = append(eps, "Body:Transaction", "Body:Backfill")
		case "LoadAndVerify":
			eps = append(eps, "Body:LoadAndVerify")
		case "RespMakeJoin":
			eps = append(eps, "Decode:RespMakeLeave", "Decode:RespMakeKnock", "Decode:InviteV3Request")
		}
		return eps
	}
	fatalf("unknown probe kind %q", kind)
	return nil
}

func execProbe(i int, raw json.RawMessage) hx.Result {
	var p probe
	if err := json.Unmarshal(raw, &p); err != nil {
		fatalf("bad probe: %v", err)
	}
	data, err := base64.StdEncoding.DecodeString(p.B64)
	if err != nil {
		fatalf("bad probe input: %v", err)
	}
	ver := p.Ver
	if ver == "" {
		ver = "10"
	}
	s := &pipeState{class: "bytes:" + p.Kind, raw: data, typ: "message", signer: "bob"}
	parsed := "raw"
	for _, ep := range entryPointsFor(p.Kind) {
		if ep != "Parse:untrusted" {
			s.rawOp(ep, ver, data)
			continue
		}
		s.room = roomFor(ver, roomOpts{})
		ev, o := s.room.parse(data)
		s.note(ep, o)
		parsed = o.Out
		if o.Out == "ok" {
			parsed = "parsed"
			s.cur = ev
			s.sweep()
		}
	}
	outs := make([]string, 0, len(s.steps))
	for _, st := range s.steps {
		outs = append(outs, st.Out)
	}
	nt := fmt.Sprintf("probe|%s|%s|%s", p.Kind, parsed, compress(outs))
	ex := resultExtra{Steps: s.steps, Parsed: parsed}
	if len(s.panics) == 0 {
		return hx.Result{OK: true, NT: nt, Extra: ex}
	}
	f := s.panics[0]
	ex.Findings = s.panics
	ex.Input = p.B64
	where := f.Func + " panicked"
	if f.Site != f.Func {
		where = f.Func + " let a panic happen in " + f.Site
	}
	return hx.Result{OK: false, NT: nt, Key: f.Key, Panic: f.Value, Extra: ex,
		What: fmt.Sprintf("%s (%s) in %s; %s input derived from seed %s by %s, room version %s; reproducer (base64): %s; input: %s",
			where, f.Value, f.Op, p.Kind, p.Seed, p.Mut, ver, p.B64, show(data))}
}

func probeCmd(a *hx.Args) error {
	if a.Mode == "worker" {
		return workerLoop(execProbe)
	}
	isolate = a.Mode == "isolate"
	return supervise(a, "c18probe")
}

// traceLine is one datum of the recorded trace: the calls made on it, in order.
type traceLine struct {
	ID    int    `json:"id"`
	Kind  string `json:"kind"`
	Calls []step `json:"calls"`
}

func recordCmd(a *hx.Args) error {
	if a.Mode == "worker" {
		return workerLoop(execProbe)
	}
	if a.Out == "" {
		return fmt.Errorf("c18rec: -out required")
	}
	probes := generateProbes(a.Seed, a.N)
	recs := make([]json.RawMessage, len(probes))
	for i, p := range probes {
		b, err := json.Marshal(p)
		if err != nil {
			return err
		}
		recs[i] = b
	}
	results, err := superviseRecords(recs, "c18rec", a.Par)
	if err != nil {
		return err
	}
	tw, err := hx.NewTraceWriter(a.Out)
	if err != nil {
		return err
	}
	var bad []hx.Result
	kinds := map[string]int{}
	for i := range results {
		results[i].I = i
		var ex resultExtra
		if b, err := json.Marshal(results[i].Extra); err == nil {
			_ = json.Unmarshal(b, &ex)
		}
		calls := ex.Steps
		if strings.HasPrefix(results[i].Key, "C18/fatal/") {
			calls = []step{{"Fatal", "panic"}}
		}
		if len(calls) > 0 {
			tw.Emit(traceLine{ID: i, Kind: probes[i].Kind, Calls: calls})
		}
		kinds[probes[i].Kind+"|"+ex.Parsed]++
		if !results[i].OK {
			r := results[i]
			ex.Steps = nil
			r.Extra = map[string]interface{}{"probe": probes[i], "findings": ex.Findings, "id": i}
			bad = append(bad, r)
		}
	}
	if err := tw.Close(); err != nil {
		return err
	}
	if err := printResults(bad); err != nil {
		return err
	}
	var ks []string
	for k, n := range kinds {
		ks = append(ks, fmt.Sprintf("%s=%d", k, n))
	}
	sort.Strings(ks)
	b, _ := json.Marshal(map[string]interface{}{"summary": true, "probes": len(probes), "lines": tw.N, "failing": len(bad), "kinds": ks})
	fmt.Println(string(b))
	return nil
}
