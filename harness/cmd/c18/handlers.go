package main

// The federation handlers (HandleInvite, HandleInviteV3, HandleSendJoin, HandleMakeJoin, HandleMakeLeave) and
// PerformInvite, driven with the remote datum of a pipeline: the invite / join event a remote server sent, the
// event a remote server answered an invite with, or a room state that contains the remote event.

import (
	"context"
	"encoding/json"
	"fmt"
	"time"

	gmsl "github.com/matrix-org/gomatrixserverlib"
	"github.com/matrix-org/gomatrixserverlib/spec"
	"golang.org/x/crypto/ed25519"
)

// --- application callbacks (answers depend on env, see ops.go)

type roomQuerier struct{ known bool }

func (q roomQuerier) IsKnownRoom(ctx context.Context, roomID spec.RoomID) (bool, error) {
	if env == "perr" {
		return false, fmt.Errorf("room querier: error")
	}
	return q.known && env != "pnil", nil
}

type membershipQuerier struct{ membership string }

func (q membershipQuerier) CurrentMembership(ctx context.Context, roomID spec.RoomID, senderID spec.SenderID) (string, error) {
	switch env {
	case "perr":
		return "", fmt.Errorf("membership querier: error")
	case "pnil":
		return "", nil
	}
	return q.membership, nil
}

type stateQuerier struct{ state []gmsl.PDU }

func (q stateQuerier) GetAuthEvents(ctx context.Context, event gmsl.PDU) (gmsl.AuthEventProvider, error) {
	if env == "perr" {
		return nil, fmt.Errorf("state querier: error")
	}
	p, _ := gmsl.NewAuthEvents(nil)
	if env == "pnil" {
		return p, nil
	}
	for _, e := range q.state {
		_ = p.AddEvent(e)
	}
	return p, nil
}

func (q stateQuerier) GetState(ctx context.Context, roomID spec.RoomID, wanted []gmsl.StateKeyTuple) ([]gmsl.PDU, error) {
	switch env {
	case "perr":
		return nil, fmt.Errorf("state querier: error")
	case "pnil":
		return nil, nil
	}
	var out []gmsl.PDU
	for _, e := range q.state {
		sk := e.StateKey()
		for _, w := range wanted {
			if sk != nil && w.EventType == e.Type() && w.StateKey == *sk {
				out = append(out, e)
			}
		}
	}
	return out, nil
}

type restrictedQuerier struct{ state []gmsl.PDU }

func (q restrictedQuerier) CurrentStateEvent(ctx context.Context, roomID spec.RoomID, eventType string, stateKey string) (gmsl.PDU, error) {
	switch env {
	case "perr":
		return nil, fmt.Errorf("room querier: error")
	case "pnil":
		return nil, nil
	}
	for _, e := range q.state {
		if sk := e.StateKey(); sk != nil && e.Type() == eventType && *sk == stateKey {
			return e, nil
		}
	}
	return nil, nil
}

func (q restrictedQuerier) InvitePending(ctx context.Context, roomID spec.RoomID, senderID spec.SenderID) (bool, error) {
	if env == "perr" {
		return false, fmt.Errorf("room querier: error")
	}
	return false, nil
}

func (q restrictedQuerier) RestrictedRoomJoinInfo(ctx context.Context, roomID spec.RoomID, senderID spec.SenderID, local spec.ServerName) (*gmsl.RestrictedRoomJoinInfo, error) {
	switch env {
	case "perr":
		return nil, fmt.Errorf("room querier: error")
	case "pnil":
		return nil, nil
	}
	var joined []gmsl.PDU
	for _, e := range q.state {
		if e.Type() == "m.room.member" {
			joined = append(joined, e)
		}
	}
	return &gmsl.RestrictedRoomJoinInfo{LocalServerInRoom: true, UserJoinedToRoom: false, JoinedUsers: joined}, nil
}

// inviteClient answers an outgoing invite with a fixed (remote) event.
type inviteClient struct{ answer gmsl.PDU }

func (c inviteClient) SendInvite(ctx context.Context, event gmsl.PDU, st []gmsl.InviteStrippedState) (gmsl.PDU, error) {
	return c.answer, nil
}
func (c inviteClient) SendInviteV3(ctx context.Context, event gmsl.ProtoEvent, u spec.UserID, v gmsl.RoomVersion, st []gmsl.InviteStrippedState) (gmsl.PDU, error) {
	return c.answer, nil
}

// --- helpers

// pathRoomID is the room ID of the request path: the application parsed it with spec.NewRoomID.
func (s *pipeState) pathRoomID() *spec.RoomID {
	if r, err := spec.NewRoomID(s.room.roomID); err == nil {
		return r
	}
	r, _ := spec.NewRoomID("!room:hs1")
	return r
}

// copies of the current event: as received, and as its sender's server would have signed it (a second parse, so
// that signing does not touch the event under test)
func (s *pipeState) received() []gmsl.PDU {
	out := []gmsl.PDU{s.cur}
	var js []byte
	if pi := guard(func() { js = s.cur.JSON() }); pi != nil {
		return out
	}
	cp, o := s.room.parse(js)
	if o.Out != "ok" {
		return out
	}
	srv, key := userServer[s.signer], serverKeys[userServer[s.signer]]
	if s.room.pseudo {
		srv, key = pseudoID(s.signer), userKeys[s.signer]
	}
	var signed []byte
	if pi := guard(func() { signed = cp.Sign(srv, "ed25519:1", key).JSON() }); pi != nil {
		return out
	}
	if ev, o := s.room.parse(signed); o.Out == "ok" {
		out = append(out, ev)
	}
	return out
}

func storeSenderID(ctx context.Context, senderID spec.SenderID, userID string, id spec.RoomID) error {
	if env == "perr" {
		return fmt.Errorf("store: error")
	}
	return nil
}

func createSenderID(u string) spec.CreateSenderID {
	return func(ctx context.Context, user spec.UserID, r spec.RoomID, v string) (spec.SenderID, ed25519.PrivateKey, error) {
		if env == "perr" {
			return "", nil, fmt.Errorf("sender ID: error")
		}
		return spec.SenderID(pseudoID(u)), userKeys[u], nil
	}
}

// template builds the membership event the make_join / make_leave handlers ask the application for, on top of a
// room state that contains the remote event.
func (s *pipeState) template(state []gmsl.PDU) func(*gmsl.ProtoEvent) (gmsl.PDU, []gmsl.PDU, error) {
	c := s.room
	return func(p *gmsl.ProtoEvent) (gmsl.PDU, []gmsl.PDU, error) {
		switch env {
		case "perr":
			return nil, nil, fmt.Errorf("template: error")
		case "pnil":
			return nil, nil, nil
		}
		eb := c.impl.NewEventBuilderFromProtoEvent(p)
		var auth []string
		for _, e := range state {
			switch e.Type() {
			case "m.room.create", "m.room.power_levels", "m.room.join_rules":
				if !(c.domainless && e.Type() == "m.room.create") {
					auth = append(auth, e.EventID())
				}
			}
		}
		eb.AuthEvents, eb.PrevEvents, eb.Depth = auth, []string{c.ids["msg"]}, 30
		ev, err := eb.Build(time.Unix(1700000100, 0), "hs1", "ed25519:1", serverKeys["hs1"])
		if err != nil {
			return nil, nil, err
		}
		return ev, state, nil
	}
}

// --- the operations

func (s *pipeState) handle(which string) outcome {
	c := s.room
	ver := gmsl.RoomVersion(c.ver)
	roomID := s.pathRoomID()
	state := s.stateWith(s.cur)
	dave, _ := spec.NewUserID(userID("dave"), true)
	carol, _ := spec.NewUserID(userID("carol"), true)
	n := "Handle:" + which
	switch which {
	case "Invite":
		var last outcome
		for _, ev := range s.received() {
			ev := ev
			for _, stripped := range [][]gmsl.InviteStrippedState{nil, {gmsl.NewInviteStrippedState(c.pdu["jr"])}} {
				stripped := stripped
				last = s.do(n, func() error {
					_, err := gmsl.HandleInvite(bg, gmsl.HandleInviteInput{RoomID: *roomID, RoomVersion: ver, InvitedUser: *dave,
						InvitedSenderID: spec.SenderID(c.sender("dave")), InviteEvent: ev, StrippedState: stripped,
						KeyID: "ed25519:1", PrivateKey: serverKeys["hs1"], Verifier: verifier{},
						RoomQuerier: roomQuerier{true}, MembershipQuerier: membershipQuerier{"leave"}, StateQuerier: stateQuerier{state},
						UserIDQuerier: userIDForSender})
					return err
				})
			}
		}
		return last
	case "InviteV3":
		return s.handleInviteV3(c.ver, s.raw)
	case "SendJoin":
		var last outcome
		for _, ev := range s.received() {
			js := ev.JSON()
			id := "$unknown"
			_ = guard(func() { id = ev.EventID() })
			for _, origin := range []spec.ServerName{spec.ServerName(userServer[s.signer]), "hs9"} {
				origin := origin
				last = s.do(n, func() error {
					_, err := gmsl.HandleSendJoin(gmsl.HandleSendJoinInput{Context: bg, RoomID: *roomID, EventID: id, JoinEvent: js,
						RoomVersion: ver, RequestOrigin: origin, LocalServerName: "hs1", KeyID: "ed25519:1", PrivateKey: serverKeys["hs1"],
						Verifier: verifier{}, MembershipQuerier: membershipQuerier{"leave"}, UserIDQuerier: userIDForSender,
						StoreSenderIDFromPublicID: storeSenderID})
					return err
				})
			}
		}
		return last
	case "MakeJoin":
		return s.do(n, func() error {
			_, err := gmsl.HandleMakeJoin(gmsl.HandleMakeJoinInput{Context: bg, UserID: *carol, SenderID: spec.SenderID(c.sender("carol")),
				RoomID: *roomID, RoomVersion: ver, RemoteVersions: []gmsl.RoomVersion{ver}, RequestOrigin: "hs2", LocalServerName: "hs1",
				LocalServerInRoom: true, RoomQuerier: restrictedQuerier{state}, UserIDQuerier: userIDForSender,
				BuildEventTemplate: s.template(state)})
			return err
		})
	case "MakeLeave":
		bob, _ := spec.NewUserID(userID("bob"), true)
		return s.do(n, func() error {
			_, err := gmsl.HandleMakeLeave(gmsl.HandleMakeLeaveInput{UserID: *bob, SenderID: spec.SenderID(c.sender("bob")), RoomID: *roomID,
				RoomVersion: ver, RequestOrigin: "hs2", LocalServerName: "hs1", LocalServerInRoom: true, UserIDQuerier: userIDForSender,
				BuildEventTemplate: s.template(state)})
			return err
		})
	}
	fatalf("unknown handler %q", which)
	return outcome{}
}

// handleInviteV3: data is the (remote) proto event of a v3 invite request.
func (s *pipeState) handleInviteV3(ver string, data []byte) outcome {
	c := roomFor(ver, roomOpts{})
	if s.room != nil {
		c = s.room
	}
	return s.do("Handle:InviteV3", func() error {
		body := marshalTree(tree{"room_version": ver, "invite_room_state": []interface{}{}, "event": json.RawMessage(data)})
		var req struct {
			Event gmsl.ProtoEvent `json:"event"`
		}
		if err := json.Unmarshal(body, &req); err != nil {
			return err
		}
		roomID, err := spec.NewRoomID(req.Event.RoomID) // the application takes it from the path and the handler compares
		if err != nil {
			roomID, _ = spec.NewRoomID("!room:hs1")
		}
		dave, _ := spec.NewUserID(userID("dave"), true)
		var state []gmsl.PDU
		for _, n := range stateNames {
			state = append(state, c.pdu[n])
		}
		_, err = gmsl.HandleInviteV3(bg, gmsl.HandleInviteV3Input{
			HandleInviteInput: gmsl.HandleInviteInput{RoomID: *roomID, RoomVersion: gmsl.RoomVersion(ver), InvitedUser: *dave,
				InvitedSenderID: spec.SenderID(pseudoID("dave")), KeyID: "ed25519:1", PrivateKey: serverKeys["hs1"], Verifier: verifier{},
				RoomQuerier: roomQuerier{true}, MembershipQuerier: membershipQuerier{"leave"}, StateQuerier: stateQuerier{state},
				UserIDQuerier: userIDForSender},
			InviteProtoEvent: req.Event, GetOrCreateSenderID: createSenderID("dave")})
		return err
	})
}

// performInvite: the current event is what the remote server answered our invite with.
func (s *pipeState) performInvite() outcome {
	c := s.room
	roomID := s.pathRoomID()
	alice, _ := spec.NewUserID(userID("alice"), true)
	dave, _ := spec.NewUserID(userID("dave"), true)
	var state []gmsl.PDU
	for _, n := range stateNames {
		state = append(state, c.pdu[n])
	}
	var last outcome
	for _, answer := range s.received() {
		answer := answer
		key := serverKeys["hs1"]
		if c.pseudo {
			key = userKeys["alice"]
		}
		last = s.do("Perform:Invite", func() error {
			proto := gmsl.ProtoEvent{SenderID: c.sender("alice"), RoomID: c.roomID, Type: "m.room.member"}
			_ = proto.SetContent(map[string]interface{}{"membership": "invite"})
			_, err := gmsl.PerformInvite(bg, gmsl.PerformInviteInput{RoomID: *roomID, RoomVersion: gmsl.RoomVersion(c.ver), Inviter: *alice,
				Invitee: *dave, IsTargetLocal: false, EventTemplate: proto, KeyID: "ed25519:1", SigningKey: key,
				EventTime:         time.Unix(1700000100, 0),
				MembershipQuerier: membershipQuerier{"leave"}, StateQuerier: stateQuerier{state}, UserIDQuerier: userIDForSender,
				SenderIDQuerier: func(r spec.RoomID, u spec.UserID) (*spec.SenderID, error) {
					switch env {
					case "perr":
						return nil, fmt.Errorf("sender ID querier: error")
					case "pnil":
						return nil, nil
					}
					id := spec.SenderID(c.sender("dave"))
					return &id, nil
				},
				SenderIDCreator: createSenderID("dave"),
				EventQuerier: func(ctx context.Context, r spec.RoomID, needed []gmsl.StateKeyTuple) (gmsl.LatestEvents, error) {
					if env == "perr" {
						return gmsl.LatestEvents{}, fmt.Errorf("event querier: error")
					}
					st, _ := stateQuerier{state}.GetState(ctx, r, needed)
					return gmsl.LatestEvents{RoomExists: env != "pnil", StateEvents: st, PrevEventIDs: []string{c.ids["msg"]}, Depth: 30}, nil
				},
				StoreSenderIDFromPublicID: storeSenderID}, inviteClient{answer})
			return err
		})
	}
	return last
}
