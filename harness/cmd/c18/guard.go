package main

// recover() wrapper with attribution: which library function let the panic happen.

import (
	"fmt"
	"runtime"
	"runtime/debug"
	"strings"
)

const libPrefix = "github.com/matrix-org/gomatrixserverlib"

// panicInfo describes one recovered panic.
type panicInfo struct {
	Func  string // innermost gomatrixserverlib frame (short name): the function the finding is keyed by
	Site  string // frame that raised the panic (differs from Func when raised inside a dependency)
	Value string
	Stack string
}

func shortFunc(fn string) string {
	s := strings.TrimPrefix(fn, libPrefix)
	s = strings.TrimPrefix(s, "/")
	s = strings.TrimPrefix(s, ".")
	s = strings.ReplaceAll(s, "(*", "")
	s = strings.ReplaceAll(s, ")", "")
	if i := strings.Index(s, "[...]"); i >= 0 {
		s = s[:i] + s[i+5:]
	}
	return s
}

// guard runs fn; a panic is recovered and described.
func guard(fn func()) (pi *panicInfo) {
	defer func() {
		p := recover()
		if p == nil {
			return
		}
		pi = &panicInfo{Value: fmt.Sprint(p)}
		if len(pi.Value) > 300 {
			pi.Value = pi.Value[:300] + "..."
		}
		pcs := make([]uintptr, 96)
		n := runtime.Callers(2, pcs)
		frames := runtime.CallersFrames(pcs[:n])
		seenPanic := false
		for {
			f, more := frames.Next()
			name := f.Function
			switch {
			case name == "runtime.gopanic":
				seenPanic = true
			case !seenPanic || strings.HasPrefix(name, "runtime."):
			default:
				if pi.Site == "" {
					pi.Site = shortFunc(name)
				}
				if pi.Func == "" && strings.HasPrefix(name, libPrefix) {
					pi.Func = shortFunc(name)
				}
			}
			if !more {
				break
			}
		}
		if pi.Func == "" {
			pi.Func = pi.Site
		}
		st := string(debug.Stack())
		if len(st) > 3000 {
			st = st[:3000]
		}
		pi.Stack = st
	}()
	fn()
	return nil
}

// outcome of one library call as the specification sees it.
type outcome struct {
	Out   string // "ok" | "error" | "panic"
	Err   string
	Panic *panicInfo
}

// call runs one library call that reports failure through an error value.
func call(fn func() error) outcome {
	var err error
	if pi := guard(func() { err = fn() }); pi != nil {
		return outcome{Out: "panic", Panic: pi}
	}
	if err != nil {
		e := err.Error()
		if len(e) > 200 {
			e = e[:200]
		}
		return outcome{Out: "error", Err: e}
	}
	return outcome{Out: "ok"}
}

// callv runs one library call that has no error channel.
func callv(fn func()) outcome {
	return call(func() error { fn(); return nil })
}
