package main

// Supervisor / worker execution: records are executed in child processes (sequentially per child) so that a
// crash that recover() cannot stop (stack overflow, panic in a goroutine started by the library) is attributed
// to the record that caused it and reported like any other crash.

import (
	"bufio"
	"bytes"
	"encoding/json"
	"fmt"
	"io"
	"os"
	"os/exec"
	"runtime/debug"
	"strings"
	"sync"
	"syscall"
	"time"

	"github.com/sirupsen/logrus"
	"verifharness/hx"
)

var resultOut *os.File = os.Stdout

// quiet keeps the library's own output (logrus, a stray fmt.Printf) away from the result stream.
func quiet() {
	logrus.SetOutput(io.Discard)
	logrus.SetLevel(logrus.PanicLevel)
	if fd, err := syscall.Dup(1); err == nil {
		resultOut = os.NewFile(uintptr(fd), "results")
		if null, err := os.OpenFile(os.DevNull, os.O_WRONLY, 0); err == nil {
			os.Stdout = null
			_ = syscall.Dup2(int(null.Fd()), 1)
		}
	}
}

// protected runs a harness function; any panic that escapes is a harness error (library calls are guarded inside).
func protected(what string, fn func() hx.Result) hx.Result {
	defer func() {
		if p := recover(); p != nil {
			fmt.Fprintf(os.Stderr, "harness: error while executing %s: %v\n%s\n", what, p, debug.Stack())
			os.Exit(3)
		}
	}()
	return fn()
}

func workerLoop(fn func(i int, raw json.RawMessage) hx.Result) error {
	quiet()
	sc := bufio.NewScanner(os.Stdin)
	sc.Buffer(make([]byte, 1<<20), 1<<28)
	w := bufio.NewWriterSize(resultOut, 1<<16)
	enc := json.NewEncoder(w)
	i := 0
	for sc.Scan() {
		line := append([]byte(nil), sc.Bytes()...)
		if len(line) == 0 {
			continue
		}
		res := protected(string(line), func() hx.Result { return fn(i, line) })
		res.I = i
		if err := enc.Encode(&res); err != nil {
			return err
		}
		if err := w.Flush(); err != nil {
			return err
		}
		i++
	}
	return sc.Err()
}

// fatalFunc extracts the innermost library frame of the crashed goroutine from a Go crash dump.
func fatalFunc(stderr string) (fn, reason string) {
	reason = "process died"
	for _, l := range strings.Split(stderr, "\n") {
		if strings.HasPrefix(l, "fatal error: ") {
			reason = strings.TrimPrefix(l, "fatal error: ")
			break
		}
		if strings.HasPrefix(l, "panic: ") {
			reason = l
			break
		}
	}
	idx := strings.Index(stderr, "\ngoroutine ")
	if idx < 0 {
		return "unknown", reason
	}
	var frames []string
	for _, l := range strings.Split(stderr[idx:], "\n") {
		if strings.HasPrefix(l, libPrefix) {
			if p := strings.LastIndex(l, "("); p > 0 {
				l = l[:p]
			}
			frames = append(frames, shortFunc(l))
		}
	}
	if len(frames) == 0 {
		return "unknown", reason
	}
	if strings.Contains(reason, "stack overflow") {
		// the function that recurses: the most frequent library frame of the dump
		count := map[string]int{}
		best := frames[0]
		for _, f := range frames {
			count[f]++
			if count[f] > count[best] {
				best = f
			}
		}
		return best, reason
	}
	return frames[0], reason
}

type childResult struct {
	answered int    // results received
	stderr   string // tail
	err      error  // machinery error (hang, harness exit 3)
	died     bool
}

func runChild(cmd string, recs []json.RawMessage, out []hx.Result, hang time.Duration) childResult {
	c := exec.Command(os.Args[0], cmd, "-mode", "worker")
	stdin, err := c.StdinPipe()
	if err != nil {
		return childResult{err: err}
	}
	stdout, err := c.StdoutPipe()
	if err != nil {
		return childResult{err: err}
	}
	var errBuf bytes.Buffer
	c.Stderr = &errBuf
	if err := c.Start(); err != nil {
		return childResult{err: err}
	}
	go func() {
		w := bufio.NewWriterSize(stdin, 1<<16)
		for _, r := range recs {
			w.Write(r)
			w.WriteByte('\n')
		}
		w.Flush()
		stdin.Close()
	}()
	var mu sync.Mutex
	last := time.Now()
	hung := false
	done := make(chan struct{})
	go func() {
		t := time.NewTicker(2 * time.Second)
		defer t.Stop()
		for {
			select {
			case <-done:
				return
			case <-t.C:
				mu.Lock()
				idle := time.Since(last)
				mu.Unlock()
				if idle > hang {
					mu.Lock()
					hung = true
					mu.Unlock()
					_ = c.Process.Kill()
					return
				}
			}
		}
	}()
	n := 0
	sc := bufio.NewScanner(stdout)
	sc.Buffer(make([]byte, 1<<20), 1<<28)
	for sc.Scan() {
		b := sc.Bytes()
		if len(b) == 0 || b[0] != '{' {
			continue
		}
		var r hx.Result
		if err := json.Unmarshal(b, &r); err != nil || n >= len(out) {
			continue
		}
		out[n] = r
		n++
		mu.Lock()
		last = time.Now()
		mu.Unlock()
	}
	werr := c.Wait()
	close(done)
	st := errBuf.String()
	if len(st) > 6000 {
		st = st[:6000]
	}
	res := childResult{answered: n, stderr: st}
	mu.Lock()
	h := hung
	mu.Unlock()
	switch {
	case h:
		res.err = fmt.Errorf("no progress for %s on record %s (hang; not reported as a violation): %s", hang, string(recs[min(n, len(recs)-1)]), st)
	case werr != nil:
		if ee, ok := werr.(*exec.ExitError); ok && ee.ExitCode() == 3 {
			res.err = fmt.Errorf("worker reported a harness error: %s", st)
		} else if n < len(recs) {
			res.died = true
		} else {
			res.err = fmt.Errorf("worker failed after answering everything: %v: %s", werr, st)
		}
	case n < len(recs):
		res.err = fmt.Errorf("worker answered %d of %d records and exited normally", n, len(recs))
	}
	return res
}

// classOfRecord gives the input class of a record for the key of a fatal crash.
func classOfRecord(raw json.RawMessage) (cls string, r rec) {
	_ = json.Unmarshal(raw, &r)
	switch r.Fam {
	case "event":
		return classKey(r.faults()), r
	case "join":
		return "join:" + classKey(r.faults()), r
	case "raw":
		return r.Type + ":" + r.C1, r
	case "probe":
		return "bytes:" + r.Kind, r
	}
	return "bytes", r
}

// minimalFatalClass: the canonical class of a fatal crash is the smallest subset of the record's faults that
// kills a worker in the same function (each subset is tried in its own child process).
func minimalFatalClass(cmd string, r rec, fn, cls string) string {
	fs := r.faults()
	if r.Fam != "event" || len(fs) == 0 {
		return cls
	}
	for _, sub := range properSubsets(fs) {
		r2 := r
		r2.P1, r2.K1, r2.C1, r2.P2, r2.K2, r2.C2 = "none", "none", "none", "none", "none", "none"
		if len(sub) > 0 {
			r2.P1, r2.K1, r2.C1 = sub[0].Path, sub[0].Kind, sub[0].Cls
		}
		r2.PV = "may"
		b, err := json.Marshal(r2)
		if err != nil {
			return cls
		}
		out := make([]hx.Result, 1)
		cr := runChild(cmd, []json.RawMessage{b}, out, 300*time.Second)
		if cr.err == nil && cr.died {
			if fn2, _ := fatalFunc(cr.stderr); fn2 == fn {
				return classKey(sub)
			}
		}
	}
	return cls
}

// supervise runs cmd's worker over all records of a.In in child processes and prints one result per record.
func supervise(a *hx.Args, cmd string) error {
	recs, err := hx.ReadRecords(a.In)
	if err != nil {
		return err
	}
	results, err := superviseRecords(recs, cmd, a.Par)
	if err != nil {
		return err
	}
	return printResults(results)
}

func printResults(results []hx.Result) error {
	w := bufio.NewWriterSize(os.Stdout, 1<<20)
	defer w.Flush()
	enc := json.NewEncoder(w)
	for i := range results {
		results[i].I = i
		if err := enc.Encode(&results[i]); err != nil {
			return err
		}
	}
	return nil
}

func superviseRecords(recs []json.RawMessage, cmd string, par int) ([]hx.Result, error) {
	results := make([]hx.Result, len(recs))
	if par < 1 {
		par = 1
	}
	chunk := (len(recs) + par*6 - 1) / (par * 6)
	if chunk < 20 {
		chunk = 20
	}
	if chunk > 4000 {
		chunk = 4000
	}
	if isolate {
		chunk = 1 // every record alone in a fresh process
	}
	type job struct{ from, to int }
	jobs := make(chan job, len(recs)/chunk+2)
	for f := 0; f < len(recs); f += chunk {
		jobs <- job{f, min(f+chunk, len(recs))}
	}
	close(jobs)
	var wg sync.WaitGroup
	var emu sync.Mutex
	var firstErr error
	for w := 0; w < par; w++ {
		wg.Add(1)
		go func() {
			defer wg.Done()
			for j := range jobs {
				from := j.from
				for from < j.to {
					emu.Lock()
					stop := firstErr != nil
					emu.Unlock()
					if stop {
						return
					}
					cr := runChild(cmd, recs[from:j.to], results[from:j.to], 300*time.Second)
					if cr.err != nil {
						emu.Lock()
						if firstErr == nil {
							firstErr = cr.err
						}
						emu.Unlock()
						return
					}
					from += cr.answered
					if cr.died {
						fn, reason := fatalFunc(cr.stderr)
						cls, r := classOfRecord(recs[from])
						cls = minimalFatalClass(cmd, r, fn, cls)
						results[from] = hx.Result{OK: false, Key: "C18/fatal/" + fn + "/" + cls, Panic: reason,
							NT:   fmt.Sprintf("%s|%s|%s|%s|fatal", r.Fam, r.Type, cls, strings.Join(r.Ops, ">")),
							What: fmt.Sprintf("the process died (%s) in %s while executing pipeline %v of room version %s on input class %s; this cannot be recovered by the caller\n%s", reason, fn, r.Ops, r.Ver, cls, cr.stderr)}
						from++
					}
				}
			}
		}()
	}
	wg.Wait()
	if firstErr != nil {
		return nil, firstErr
	}
	return results, nil
}

// isolate: -mode isolate runs every record alone in its own fresh worker process (reproduction of findings).
var isolate bool

func replayCmd(a *hx.Args) error {
	if a.Mode == "worker" {
		return workerLoop(execRecord)
	}
	isolate = a.Mode == "isolate"
	return supervise(a, "c18")
}

func selfCmd(a *hx.Args) error {
	quiet()
	w := bufio.NewWriter(resultOut)
	defer w.Flush()
	enc := json.NewEncoder(w)
	i := 0
	for _, ver := range AllVersions {
		for _, typ := range SubjectTypes {
			r := rec{Fam: "event", Ver: ver, Type: typ, P1: "none", P2: "none", PV: "must",
				Ops: []string{"Parse:untrusted", "AuthCheck:event"}}
			b, _ := json.Marshal(r)
			res := protected("self-test", func() hx.Result { return execRecord(i, b) })
			res.I = i
			if ex, ok := res.Extra.(resultExtra); ok && ex.Machine == "" && res.OK {
				// the fault-free subject must also be authorised by the standard room
				if strings.Contains(res.NT[strings.LastIndex(res.NT, "|"):], "error") {
					ex.Machine = fmt.Sprintf("well-formed %s event of room version %s is not authorised by the standard room: %s", typ, ver, res.NT)
					res.Extra = ex
				}
			}
			_ = enc.Encode(&res)
			i++
		}
		// PerformJoin with well-formed make_join / send_join answers must succeed
		r := rec{Fam: "join", Ver: ver, Type: "join", P1: "none", P2: "none", C2: "echo", PV: "may", Ops: []string{"Body:PerformJoin"}}
		b, _ := json.Marshal(r)
		res := protected("self-test", func() hx.Result { return execRecord(i, b) })
		res.I = i
		if !strings.HasSuffix(res.NT, "|ok") {
			res.Extra = resultExtra{Machine: fmt.Sprintf("PerformJoin with well-formed answers fails in room version %s: %s", ver, res.NT)}
		}
		_ = enc.Encode(&res)
		i++
	}
	return nil
}
