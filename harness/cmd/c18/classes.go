package main

// Realisation of the abstract input classes of Lifecycle.tla as concrete JSON values.
// The class names are the vocabulary of the specification; finding keys carry the class, never the string.

import (
	"encoding/json"
	"fmt"
	"strings"
)

// fault is one deviation from the well-formed subject: the value at Path is replaced by a member of class Cls.
type fault struct {
	Path string `json:"path"`
	Kind string `json:"kind"`
	Cls  string `json:"cls"`
}

func (f fault) none() bool { return f.Path == "" || f.Path == "none" }
func (f fault) String() string {
	if f.none() {
		return ""
	}
	return f.Path + "=" + f.Cls
}

func jstr(s string) json.RawMessage {
	b, err := json.Marshal(s)
	if err != nil {
		panic(err)
	}
	return b
}

// garbageSig is 64 bytes of unpadded base64 that verify under no key.
var garbageSig = strings.Repeat("Bw", 43)[:86]

const b43 = "AbCdEfGhIjKlMnOpQrStUvWxYz0123456789-_AbCdE" // 43 URL-safe characters

// idString realises an identifier class for a sigil ('!', '@', '$'; 0 = bare server name).
func idString(sigil byte, cls string) (string, bool) {
	sg := ""
	if sigil != 0 {
		sg = string(sigil)
	}
	switch cls {
	case "empty":
		return "", true
	case "nosigil":
		return "abc:hs1", true
	case "wrongsigil":
		return "#abc:hs1", true
	case "sigil_only":
		return sg, true
	case "sigil_colon":
		return sg + ":x", true // empty local part: "!:x", "@:x"
	case "colon_only":
		return ":", true
	case "nodomain":
		return sg + "abc", true // no ':' at all
	case "opaque43":
		return sg + b43, true // the domain-less form of room version 12
	case "opaque43_domain":
		return sg + b43 + ":hs1", true
	// the nearest neighbours of the domain-less form: the standard base64 alphabet, one character short / long
	case "opaque43_std":
		return sg + "AbCdEfGhIjKlMnOpQrStUvWxYz0123456789+/AbCdE", true
	case "opaque42":
		return sg + b43[:42], true
	case "opaque44":
		return sg + b43 + "F", true
	case "empty_domain":
		return sg + "abc:", true
	case "baddomain_space":
		return sg + "a:b c", true
	case "baddomain_slash":
		return sg + "a:b/c", true
	case "badport":
		return sg + "a:hs1:99999999", true
	case "ipv6_unclosed":
		return sg + "a:[::1", true
	case "ipv6_bad":
		return sg + "a:[zz]", true
	case "long300":
		return sg + strings.Repeat("a", 295) + ":hs1", true
	case "long_mb":
		return sg + strings.Repeat("é", 127) + ":x", true // 257 bytes, 130 code points
	case "nul":
		return sg + "a\x00b:hs1", true
	case "nonascii":
		return sg + "é\U0001F600:hs1", true
	case "upper":
		return sg + "ABC:HS1", true
	case "other":
		return sg + "other:hs9", true // well formed, unknown to the room
	case "base64key":
		return "5TNiAVyWaBkw9YgbFchE6u3FuJBq0jfzS4VNTnYnKVc", true // a pseudo ID shaped string
	case "short_b64":
		return "abc", true
	}
	return "", false
}

func nested(depth int, open, close string) string {
	return strings.Repeat(open, depth) + strings.Repeat(close, depth)
}

// jsonClass realises the JSON value classes that do not depend on the kind of field.
func jsonClass(cls string) (json.RawMessage, bool) {
	switch cls {
	case "null":
		return json.RawMessage(`null`), true
	case "true":
		return json.RawMessage(`true`), true
	case "number":
		return json.RawMessage(`5`), true
	case "zero":
		return json.RawMessage(`0`), true
	case "negative":
		return json.RawMessage(`-5`), true
	case "float":
		return json.RawMessage(`1.5`), true
	case "string":
		return json.RawMessage(`"str"`), true
	case "empty_str":
		return json.RawMessage(`""`), true
	case "array":
		return json.RawMessage(`["x"]`), true
	case "empty_arr":
		return json.RawMessage(`[]`), true
	case "arr_number":
		return json.RawMessage(`[5]`), true
	case "arr_null":
		return json.RawMessage(`[null]`), true
	case "arr_obj":
		return json.RawMessage(`[{}]`), true
	case "empty_obj":
		return json.RawMessage(`{}`), true
	case "object":
		return json.RawMessage(`{"a":"b"}`), true
	case "int_max":
		return json.RawMessage(`9007199254740991`), true
	case "int_min":
		return json.RawMessage(`-9007199254740991`), true
	case "int_2p53":
		return json.RawMessage(`9007199254740992`), true
	case "int_n2p53":
		return json.RawMessage(`-9007199254740992`), true
	case "int64_max":
		return json.RawMessage(`9223372036854775807`), true
	case "int64_over":
		return json.RawMessage(`9223372036854775808`), true
	case "int64_min":
		return json.RawMessage(`-9223372036854775808`), true
	case "int64_under":
		return json.RawMessage(`-9223372036854775809`), true
	case "int_2p53p1":
		return json.RawMessage(`9007199254740993`), true
	case "uint64_max":
		return json.RawMessage(`18446744073709551615`), true
	case "exp_upper":
		return json.RawMessage(`1E2`), true
	case "exp_neg":
		return json.RawMessage(`1E-05`), true
	case "plus":
		return json.RawMessage(`+5`), true
	case "leading_zero":
		return json.RawMessage(`007`), true
	// shapes of a signatures object: several keys / servers, one of them unusable
	case "sig_two_keys":
		return json.RawMessage(`{"hs1":{"ed25519:1":"` + garbageSig + `","ed25519:2":"` + garbageSig + `"}}`), true
	case "sig_two_servers":
		return json.RawMessage(`{"hs1":{"ed25519:1":"` + garbageSig + `"},"hs2":{"ed25519:1":"` + garbageSig + `"}}`), true
	case "sig_good_and_short":
		return json.RawMessage(`{"hs1":{"ed25519:1":"AAAA","ed25519:2":"` + garbageSig + `"},"hs2":{"ed25519:1":""}}`), true
	case "sig_padded":
		return json.RawMessage(`{"hs1":{"ed25519:1":"` + garbageSig + `=="}}`), true
	case "sig_urlsafe":
		return json.RawMessage(`{"hs1":{"ed25519:1":"` + strings.Repeat("-_", 43) + `"}}`), true
	case "bigint":
		return json.RawMessage(`1` + strings.Repeat("0", 400)), true
	case "bigfloat":
		return json.RawMessage(`1e400`), true
	case "negzero":
		return json.RawMessage(`-0`), true
	case "exp":
		return json.RawMessage(`1e2`), true
	case "string_num":
		return json.RawMessage(`"100"`), true
	case "string_sp":
		return json.RawMessage(`" 7 "`), true
	case "string_big":
		return json.RawMessage(`"99999999999999999999"`), true
	case "garbage":
		return json.RawMessage(`{"a":[1,{"b":null,"c":[[],{}]},"x",-1.5e-3,true],"":{"":{}},"z":"\u0000😀"}`), true
	case "esckey":
		return json.RawMessage(`{"a\"b":1,"c\\d":{"e\u0000f":2}}`), true
	case "deep":
		return json.RawMessage(nested(200, "[", "]")), true
	case "deep_obj":
		return json.RawMessage(strings.Repeat(`{"a":`, 200) + "1" + strings.Repeat("}", 200)), true
	case "badutf8":
		return json.RawMessage("\"a\xff\xfeb\""), true
	case "nulstr":
		return json.RawMessage(`"a\u0000b"`), true
	case "lone_surrogate":
		return json.RawMessage(`"\ud800"`), true
	case "long_str":
		return jstr(strings.Repeat("x", 300)), true
	// shapes of an entry of m.room.third_party_invite public_keys
	case "pk_short":
		return json.RawMessage(`{"public_key":"AAAA","key_validity_url":"https://idserver/valid"}`), true
	case "pk_len33":
		return json.RawMessage(`{"public_key":"AAAAAAAAAAAAAAAAAAAAAAAAAAAAAAAAAAAAAAAAAAAA"}`), true
	case "pk_empty":
		return json.RawMessage(`{"public_key":""}`), true
	case "pk_badb64":
		return json.RawMessage(`{"public_key":"!!"}`), true
	case "pk_number":
		return json.RawMessage(`{"public_key":5}`), true
	case "pk_missing":
		return json.RawMessage(`{"key_validity_url":"https://idserver/valid"}`), true
	}
	if strings.HasPrefix(cls, "v:") {
		return jstr(cls[2:]), true
	}
	return nil, false
}

// sigilOf gives the sigil of an identifier kind.
func sigilOf(kind string) (byte, bool) {
	switch kind {
	case "room":
		return '!', true
	case "user", "userkey":
		return '@', true
	case "event", "eventid":
		return '$', true
	case "server":
		return 0, true
	}
	return 0, false
}

// classValue realises class cls for a field of the given kind. valid is the well-formed value of that field in
// the subject (used by class "valid"). absent=true means the key is removed.
func classValue(kind, cls string, valid json.RawMessage) (raw json.RawMessage, absent bool) {
	switch cls {
	case "missing":
		return nil, true
	case "valid":
		if valid == nil {
			return nil, true
		}
		return valid, false
	}
	switch cls {
	case "upper_valid", "escaped_valid": // unusual spellings of the well-formed value
		var v string
		if valid == nil || json.Unmarshal(valid, &v) != nil {
			return nil, true
		}
		if cls == "upper_valid" {
			return jstr(strings.ToUpper(v)), false
		}
		var b strings.Builder
		b.WriteByte('"')
		for _, r := range v {
			if r < 0x10000 {
				fmt.Fprintf(&b, `\u%04X`, r)
			} else {
				b.WriteString(string(r))
			}
		}
		b.WriteByte('"')
		return json.RawMessage(b.String()), false
	}
	if sg, ok := sigilOf(kind); ok {
		if s, ok := idString(sg, cls); ok {
			return jstr(s), false
		}
	}
	if raw, ok := jsonClass(cls); ok {
		return raw, false
	}
	panic(fmt.Sprintf("harness: unknown class %q for kind %q", cls, kind))
}
